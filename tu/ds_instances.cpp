// Verification-owned instantiation unit.  Contains no logic: it only forces clang to type-check the
// repository's concurrent data-structure templates (from /repo/src/include, as currently on disk)
// so that the rules see every member, also those no repository unit happens to instantiate.
#include "souffle/RamTypes.h"
#include "souffle/SouffleInterface.h"
#include "souffle/datastructure/BTree.h"
#include "souffle/datastructure/BTreeDelete.h"
#include "souffle/datastructure/Brie.h"
#include "souffle/datastructure/ConcurrentFlyweight.h"
#include "souffle/datastructure/ConcurrentInsertOnlyHashMap.h"
#include "souffle/datastructure/EquivalenceRelation.h"
#include "souffle/datastructure/LambdaBTree.h"
#include "souffle/datastructure/PiggyList.h"
#include "souffle/datastructure/RecordTableImpl.h"
#include "souffle/datastructure/SymbolTableImpl.h"
#include "souffle/datastructure/UnionFind.h"
#include "souffle/utility/ParallelUtil.h"

namespace vinst {
using namespace souffle;
using T1 = Tuple<RamDomain, 1>;
using T2 = Tuple<RamDomain, 2>;
using T3 = Tuple<RamDomain, 3>;
}  // namespace vinst

#define BT_ARGS(T, SET) T, souffle::detail::comparator<T>, std::allocator<T>, 256, \
    typename souffle::detail::default_strategy<T>::type, SET, souffle::detail::comparator<T>, souffle::detail::updater<T>

// plain B-tree: set and multiset flavour
template class souffle::detail::btree<BT_ARGS(vinst::T2, true)>;
template class souffle::detail::btree<BT_ARGS(vinst::T3, false)>;
template class souffle::btree_set<vinst::T2>;
// deletable B-tree
template class souffle::detail::btree_delete<BT_ARGS(vinst::T2, true)>;
template class souffle::btree_delete_set<vinst::T2>;
// equivalence relation (instantiates LambdaBTree / LambdaBTreeSet, DisjointSet, PiggyList)
template class souffle::EquivalenceRelation<vinst::T2>;
template class souffle::PiggyList<int>;
template class souffle::RandomInsertPiggyList<int>;
// brie
template class souffle::Trie<1>;
template class souffle::Trie<2>;
template class souffle::Trie<3>;
template class souffle::SparseArray<int>;
template class souffle::SparseBitMap<>;

// symbol / record tables (instantiate ConcurrentFlyweight / ConcurrentInsertOnlyHashMap)
namespace vinst {
void touch() {
    SymbolTableImpl st;
    st.encode("a");
    (void)st.decode(0);
    (void)st.weakContains("a");
    for (auto it = st.begin(); it != st.end(); ++it) {
    }
    SpecializedRecordTable<0, 1, 2> rt;
    RamDomain d[2] = {1, 2};
    (void)rt.pack(d, 2);
    (void)rt.unpack(1, 2);
    (void)rt.pack(d, 0);
    std::vector<RamDomain> v{1, 2, 3};
    (void)rt.pack(v.data(), 3);
}
}  // namespace vinst

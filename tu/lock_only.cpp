#include "souffle/utility/ParallelUtil.h"

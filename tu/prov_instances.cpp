// Verification-owned instantiation unit (no logic): instantiates the interpreter's tuple updaters.
#include "souffle/RamTypes.h"
#include "souffle/SouffleInterface.h"
#include "souffle/datastructure/BTree.h"
#include "souffle/datastructure/BTreeDelete.h"
#include "souffle/datastructure/Brie.h"
#include "souffle/datastructure/EquivalenceRelation.h"
#include "interpreter/Util.h"
template struct souffle::interpreter::ProvenanceUpdater<4, 2>;
template struct souffle::interpreter::Updater<3, 1>;
namespace vinst {
// the type of this variable IS the provenance index type: its template arguments are read, nothing is executed
souffle::interpreter::Provenance<4, 2>* provenance_index_4_2 = nullptr;
}  // namespace vinst

// Verification-owned unit: pulls in the repository's fact IO layer (headers from /repo/src/include as on disk).
#include "souffle/io/IOSystem.h"
#include "souffle/utility/EvaluatorUtil.h"
#include "souffle/utility/StringUtil.h"

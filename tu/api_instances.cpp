// Verification-owned instantiation unit (no logic): instantiates the embedding API's relation wrapper over a
// minimal relation type so that clang type-checks every member of RelationWrapper / its iterator wrapper.
#include "souffle/CompiledSouffle.h"

namespace vinst {
struct VRel {
    static constexpr souffle::Relation::arity_type Arity = 2;
    using t_tuple = souffle::Tuple<souffle::RamDomain, 2>;
    using iterator = const t_tuple*;
    bool insert(const t_tuple&);
    bool contains(const t_tuple&) const;
    std::size_t size() const;
    void purge();
    iterator begin() const;
    iterator end() const;
};
}  // namespace vinst
template class souffle::RelationWrapper<vinst::VRel>;

// Verification-owned instantiation unit (no logic): forces clang to instantiate every element
// comparator the relation data structures are parameterised with.
#include "souffle/RamTypes.h"
#include "souffle/SouffleInterface.h"
#include "souffle/datastructure/BTreeUtil.h"
#include "souffle/datastructure/UnionFind.h"
#include "interpreter/Util.h"

namespace vinst {
using namespace souffle;
using T2 = Tuple<RamDomain, 2>;
using P = std::pair<RamDomain, parent_t>;
}  // namespace vinst
template struct souffle::detail::comparator<vinst::T2>;
template struct souffle::detail::comparator<souffle::RamDomain>;
template struct souffle::EqrelMapComparator<vinst::P>;
namespace vinst {
void touch_cmp(const T2& a, const T2& b) {
    souffle::interpreter::index_utils::comparator<1, 0> c;
    (void)c(a, b);
    (void)c.less(a, b);
    (void)c.equal(a, b);
}
}  // namespace vinst

"""C03 -- results do not depend on thread count or schedule: parallelisation preconditions (R1),
context isolation of the interpreter's parallel regions (R2), reduction table of the synthesiser's
parallel aggregates (R3), atomic shared scalars (R4)."""
import re
from engine import facts, tables, mutate
from engine.facts import kids, walk, strip, is_call, call_args, call_obj, expr_key
from engine.report import Report
from props import parallel_guard, aggtables


def rule_regions(rep, eng):
    n = 0
    for f in eng.functions:
        if f.is_lambda or not f.name.startswith('evalParallel'):
            continue
        regions = [x for x in f.walk() if x['k'] == 'OMPParallelDirective']
        for r in regions:
            n += 1
            label = 'Engine::%s/omp-parallel' % f.name
            local = {v['did']: v for v in walk(r) if v['k'] == 'VarDecl'}
            ctxs = [v for v in local.values() if v.get('t', '').replace('const ', '') == 'souffle::interpreter::Context']
            # (a) a Context copy-constructed inside the region
            ok = False
            for v in ctxs:
                cons = [c for c in walk(v) if c['k'] == 'CXXConstructExpr' and c.get('cn') == 'Context' and c.get('copy')]
                if cons:
                    ok = True
            rep.ob('R2-region-private-context', label, ok, f.loc(r),
                   '' if ok else 'no interpreter::Context is copy-constructed inside the parallel region: all threads would share the current-tuple environment')
            # (b) every use of a Context inside the region is of a region-local one
            bad = []
            for m in walk(r):
                if m['k'] == 'DeclRefExpr' and m.get('t', '').replace('const ', '') == 'souffle::interpreter::Context' and m.get('did') not in local:
                    # the only allowed use of the captured context is as the source of the private copy
                    p = f.parent(m)
                    while p is not None and p['k'] in facts.TRANSPARENT:
                        p = f.parent(p)
                    if p is not None and p['k'] == 'CXXConstructExpr' and p.get('cn') == 'Context' and p.get('copy'):
                        continue
                    bad.append(m)
            rep.ob('R2-region-uses-private-context', label, not bad, f.loc(bad[0]) if bad else f.loc(r),
                   '' if not bad else 'the captured (shared) Context `%s` is used inside the parallel region: concurrent threads overwrite each other\'s '
                   'current tuple' % bad[0].get('name'))
            # (c) no variable declared outside the region is written inside it
            wr = []
            for m in walk(r):
                tgt = None
                if m['k'] in ('BinaryOperator', 'CompoundAssignOperator') and m.get('op', '').endswith('=') and m['op'] not in ('==', '!=', '<=', '>='):
                    tgt = kids(m)[0]
                elif m['k'] == 'UnaryOperator' and m.get('op') in ('++', '--'):
                    tgt = kids(m)[0]
                if tgt is None:
                    continue
                base = strip(tgt, casts=True)
                while base['k'] in ('MemberExpr', 'ArraySubscriptExpr', 'CXXOperatorCallExpr', 'UnaryOperator') and kids(base):
                    base = strip(kids(base)[1] if base['k'] == 'CXXOperatorCallExpr' and len(kids(base)) > 1 else kids(base)[0], casts=True)
                if base['k'] == 'DeclRefExpr' and base.get('dk') in ('Local', 'Parm') and base.get('did') not in local:
                    wr.append((m, base.get('name')))
            rep.ob('R2-region-no-shared-writes', label, not wr, f.loc(wr[0][0]) if wr else f.loc(r),
                   '' if not wr else 'variable `%s` declared outside the parallel region is written inside it' % wr[0][1])
    rep.floor('R2-parallel-regions', n, 4)


def rule_reduction(rep, syn):
    aggS = aggtables.synthesiser_tables(syn, rep)
    if aggS is None:
        return
    want = {'min': 'min', 'max': 'max', '+': '+', 'count': '+', 'mean': '+'}
    for op in aggtables.ops_of(syn):
        comb = aggS['combine'].get(op)
        red = aggS['reduction'].get(op)
        ok = comb is not None and want.get(comb[0]) == red
        rep.ob('R3-reduction-matches-combine', op, ok, aggS['where'].get(('reduction', op), ''),
               '' if ok else 'the accumulator is combined with %s per thread but the OpenMP reduction across threads is `%s`' % (comb, red))
    # the reduction clause names every accumulator updateRes writes: res0 always, res1 exactly for MEAN
    n = 0
    for f in syn.functions:
        if f.is_lambda or f.name != 'visit_' or len(f.d['params']) < 2:
            continue
        t = f.d['params'][1]['t']
        if 'ram::ParallelAggregate' not in t and 'ram::ParallelIndexAggregate' not in t:
            continue
        n += 1
        label = t.replace('const ', '').strip(' &').split('::')[-1]
        lits = [m.get('str', '') for m in f.walk() if m['k'] == 'StringLiteral']
        has_red = any('#pragma omp for reduction(' in l for l in lits)
        sv = [v for v in walk(f.body) if v['k'] == 'VarDecl' and v.get('name') == 'sharedVariable']
        init = [m.get('str') for v in sv for m in walk(v) if m['k'] == 'StringLiteral']
        ok = has_red and init[:1] == ['res0']
        # the streamed variable list of the pragma is sharedVariable
        streamed = False
        for m in f.walk():
            if m['k'] == 'CXXOperatorCallExpr' and m.get('op') == '<<':
                ops = kids(m)[1:]
                b = strip(ops[1], casts=True)
                if b['k'] == 'DeclRefExpr' and b.get('name') == 'sharedVariable':
                    streamed = True
        ok = ok and streamed
        rep.ob('R3-reduction-lists-accumulators', '%s/res0' % label, ok, f.where,
               '' if ok else 'the parallel aggregate loop has no `reduction(op: res0 ...)` clause over the accumulator')
        # MEAN: ", res1" appended inside the ifIntrinsic(MEAN) lambda
        lam = [l for l in syn.functions if l.is_lambda and l.file == f.file and f.line <= l.line <= f.d.get('endline', f.line)]
        okm = False
        for l in lam:
            for m in l.walk():
                if m['k'] in ('CXXOperatorCallExpr', 'CompoundAssignOperator') and m.get('op') == '+=':
                    ks = kids(m)
                    tgt = strip(ks[-2], casts=True)
                    sl = [x.get('str') for x in walk(ks[-1]) if x['k'] == 'StringLiteral']
                    if tgt.get('name') == 'sharedVariable' and sl and 'res1' in sl[0]:
                        # the lambda is the one passed to ifIntrinsic(..., MEAN, ...)
                        okm = True
        rep.ob('R3-reduction-lists-accumulators', '%s/res1-for-mean' % label, okm, f.where,
               '' if okm else 'the mean\'s element counter res1 is not part of the reduction clause: per-thread counts are lost')
        # the only other store in the emitted parallel loop is the idempotent constant store
        joined = ''.join(lits)
        seg = joined[joined.find('PARALLEL_START'):joined.find('#pragma omp single')] if 'PARALLEL_START' in joined else ''
        # assignments to plain variables inside the emitted loop (declarations `auto x = ...` / `int x = ...` are thread-local)
        stores = [m for m in re.finditer(r'(?:^|[;{}\n])\s*(\w+)\s*=\s*([^;=]+);', seg)]
        bad = [(m.group(1), m.group(2).strip()) for m in stores if not (m.group(1) == 'shouldRunNested' and m.group(2).strip() == 'true') and m.group(1) not in ('res0', 'res1')]
        rep.ob('R3-parallel-loop-stores', label, not bad, f.where, '' if not bad else 'the emitted parallel loop writes shared variables %s' % bad)
    rep.floor('R3-parallel-aggregate-emitters', n, 2)


def rule_atomic_scalars(rep, idx):
    recs = [r for r in idx.records if r['name'] == 'Index' and (r.get('ta') or [''])[0] in ('0', '0UL')]
    n = 0
    for r in recs:
        for fl in r['fields']:
            if fl['name'] == 'data':
                n += 1
                ok = fl['t'].startswith('std::atomic<')
                rep.ob('R4-nullary-flag-atomic', 'interpreter::Index<0,...>::data', ok, 'src/interpreter/Index.h:%s' % fl['l'],
                       '' if ok else 'the presence flag of a nullary relation has type %s; parallel rules insert into it concurrently' % fl['t'])
    rep.floor('R4-nullary-index', n, 1)


MUTANTS = [
    ('worker-context-without-variables', 'src/interpreter/Context.h', 'Context(Context& ctxt) : returnValues(ctxt.returnValues), args(ctxt.args), variables(ctxt.variables) {}', 'Context(Context& ctxt) : returnValues(ctxt.returnValues), args(ctxt.args) {}', 'R2'),
    ('parallel-scan-shares-context', 'src/interpreter/Engine.cpp', '''            for (const auto& tuple : *it) {
                newCtxt[cur.getTupleId()] = tuple.data();
                if (!execute(shadow.getNestedOperation(), newCtxt)) {
                    break;
                }
            }
        }
    PARALLEL_END
    return true;
}

template <typename Rel>
RamDomain Engine::evalEstimateJoinSize(''', '''            for (const auto& tuple : *it) {
                ctxt[cur.getTupleId()] = tuple.data();
                if (!execute(shadow.getNestedOperation(), ctxt)) {
                    break;
                }
            }
        }
    PARALLEL_END
    return true;
}

template <typename Rel>
RamDomain Engine::evalEstimateJoinSize(''', 'R2'),
    ('guarded-insert-parallelised', 'src/ram/transform/Parallel.cpp', '        if (visitExists(query, [&](const GuardedInsert&) { return true; })) return;\n', '', 'C03R1'),
    ('inner-scan-parallelised', 'src/ram/transform/Parallel.cpp', 'if (scan->getTupleId() == 0 && rel.getArity() > 0) {', 'if (rel.getArity() > 0) {', 'C03R1'),
    ('mean-counter-not-reduced', 'src/synthesiser/Synthesiser.cpp', '''            ifIntrinsic(aggregator, AggregateOp::MEAN, [&]() {
                out << "RamUnsigned res1 = 0;\\n";
                sharedVariable += ", res1";
            });

            out << preamble.str();
            out << "PARALLEL_START\\n";
            // check whether there is an index to use''', '''            ifIntrinsic(aggregator, AggregateOp::MEAN, [&]() {
                out << "RamUnsigned res1 = 0;\\n";
            });

            out << preamble.str();
            out << "PARALLEL_START\\n";
            // check whether there is an index to use''', 'R3'),
    ('min-reduced-with-plus', 'src/synthesiser/Synthesiser.cpp', '''                    case AggregateOp::UMIN: return std::make_tuple("min", "", 200805);''', '''                    case AggregateOp::UMIN: return std::make_tuple("+", "", 0);''', 'R3'),
    ('user-aggregate-parallelised', 'src/ram/transform/Parallel.cpp', '''                        // We can only parallelize intrinsic aggregators for
                        && isA<ram::IntrinsicAggregator>(aggregate->getAggregator())) {''', '''                        ) {''', 'C03R1'),
]


def rule_context_copy(rep, ctxu):
    """R2: the private Context of a worker is made by Context(Context&).  Whatever the enclosing evaluation established through the context's
    setters (subroutine arguments, return values, program variables such as the loop counter) must be carried into the copy -- otherwise an
    expression evaluates differently inside a parallelised loop than in a sequential one."""
    rec = ctxu.record('souffle::interpreter::Context') or ctxu.record('Context')
    fs = [f for f in ctxu.functions if f.d.get('cls') == 'Context']
    cc = [f for f in fs if f.d.get('ctor') and len(f.d['params']) == 1 and 'Context' in f.d['params'][0]['t']]
    if rec is None or not cc:
        rep.analysis_broken('interpreter::Context / its scope-copy constructor not found')
        return
    fields = {fl['name'] for fl in rec.get('fields', [])}
    set_by_setter = {}
    for f in fs:
        if f.name.startswith('set') and f.d['params']:
            for m in f.walk():
                tgt = None
                if m['k'] in ('BinaryOperator', 'CXXOperatorCallExpr') and m.get('op') == '=':
                    tgt = strip((kids(m) if m['k'] == 'BinaryOperator' else call_args(m))[0], casts=True)
                    while tgt['k'] in ('CXXOperatorCallExpr', 'ArraySubscriptExpr') and kids(tgt):
                        tgt = strip((call_args(tgt) if tgt['k'] == 'CXXOperatorCallExpr' else kids(tgt))[0], casts=True)
                if tgt is not None and tgt.get('member') in fields:
                    set_by_setter[tgt['member']] = f.name
    copied = {i.get('member') for i in cc[0].d.get('inits', [])}
    for mem, setter in sorted(set_by_setter.items()):
        ok = mem in copied
        rep.ob('R2-private-context-carries-established-state', 'Context::%s' % mem, ok, cc[0].where,
               '' if ok else 'Context::%s (established by %s) is not copied into a worker\'s private context: what reads it (e.g. the iteration counter) '
               'evaluates to the default inside every parallelised loop, so results depend on the thread count' % (mem, setter))
    rep.floor('R2-context-setters', len(set_by_setter), 3)


def rule_reduction_order(rep, syn):
    """R3: an OpenMP reduction combines per-thread partial results in an unspecified grouping; the result is independent of the thread count
    only if the reduction operator is associative and commutative ON THE ACCUMULATOR TYPE.  min/max are, integer + (wrapping) is, float + is not."""
    aggS = aggtables.synthesiser_tables(syn, rep)
    if aggS is None:
        return
    decl = aggtables.declared_types(syn, rep)
    n = 0
    for op in aggtables.ops_of(syn):
        red = aggS['reduction'].get(op)
        if red != '+':
            continue
        n += 1
        isfloat = op.startswith('F') or (decl.get(op) in ('F', 'Float'))
        if op in ('MEAN',):
            isfloat = True
        rep.ob('R3-reduction-operator-order-insensitive', op, not isfloat, aggS['where'].get(('reduction', op), ''),
               '' if not isfloat else 'the parallel %s reduces a floating-point accumulator with `+`: float addition is not associative, the sum depends on '
               'how the tuples are split over threads' % op)
    rep.floor('R3-plus-reductions', n, 4)


def analyse(rep):
    parallel_guard.check(rep, need=('GuardedInsert', 'Erase'), rewrites=True)
    eng, syn, idx = facts.extract([
        ('src/interpreter/Engine.cpp', r'interpreter/Engine\.cpp$', r'Engine::evalParallel', None, None, None, True),
        aggtables.SYNTH_JOB,
        ('src/interpreter/Engine.cpp', r'interpreter/Index\.h$', r'^$')])
    rep.add_units([eng, syn, idx])
    rule_regions(rep, eng)
    rule_reduction(rep, syn)
    rule_atomic_scalars(rep, idx)
    cx, = facts.extract([('src/interpreter/Engine.cpp', r'interpreter/Context\.h$', r'.*')])
    rep.add_units([cx])
    rule_context_copy(rep, cx)
    rule_reduction_order(rep, syn)


def run(tier='quick'):
    rep = Report('C03', tier)
    rep.explanation = ('static analysis of the parallelisation path: R1 the RAM parallelisation pass rewrites a query only if it contains neither '
                       'GuardedInsert nor Erase, only the outermost loop (tuple id 0), aggregates only when intrinsic and non-nullary (CFG edge '
                       'dominance); R2 every OpenMP parallel region of the interpreter copy-constructs its own Context, uses only that Context '
                       'inside the region and writes no variable declared outside it; R3 the synthesiser\'s OpenMP reduction operator matches the '
                       'per-thread combine step for every AggregateOp and the reduction clause lists res0 (and res1 for mean); R4 the presence '
                       'flag of nullary relations is atomic.')
    rep.assumptions = ['linearizability of the concurrent containers carries its own checks (C25-C31)',
                       'shared views / hints are validated caches and deliberately not required to be private',
                       'the synthesiser\'s generated loop nests as a whole are NOT decided']
    try:
        analyse(rep)
        ms = [mutate.Mutant(n, f, o, w, e) for (n, f, o, w, e) in MUTANTS]
        mutate.run_mutants(rep, 'C03', ms if tier == 'thorough' else ms[1:4], analyse)
    except facts.Broken as e:
        rep.analysis_broken(str(e))
    return rep.finish()

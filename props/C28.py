"""C28 -- equivalence-relation storage: cache-staleness typestate, statesLock pairing, PiggyList
growth protocol, plus the union-find rules (C29) and the LambdaBTree insert rules (C25) it rests on
(DESIGN.md section C28)."""
import os
from props import comparators
from engine import facts, pathflow, atomics, mutate
from engine.facts import kids, walk, strip, is_call, call_args, call_obj, expr_key
from engine.report import Report
from props import C25, C29

TU = os.path.join(facts.VERIF, 'tu', 'ds_instances.cpp')
HDR = 'src/include/souffle/datastructure/EquivalenceRelation.h'
CLS = 'EquivalenceRelation'
# own methods whose summary is "mutates and marks stale" (each is verified by this very rule)
STALING_MUTATORS = ('insert', 'insertAll', 'clear', 'extendAndInsert')
STALE_ONLY = ('emptyPartition',)
EXEMPT_READERS = ('genAllDisjointSetLists', 'emptyPartition')
MUTATION_CALLS = ('unionNodes', 'clear')         # on the sparse disjoint set `sds`


def objkey(o):
    if o is None:
        return 'this'
    k = expr_key(o)
    if k in ('this', '', '*this'):
        return 'this'
    return k.split('.')[0].split('->')[0]


class CacheClient(pathflow.Client):
    """state = (mut, stale, regen, lock)   mut/stale/regen: frozensets of object keys; lock: '', 'S', 'X'"""

    def __init__(self, func):
        self.func = func
        self.viol = []
        self.nmut = self.nread = self.nlock = 0
        self.exempt = func.name in EXEMPT_READERS or func.d.get('ctor') or func.d.get('dtor')

    def v(self, rule, msg, n):
        x = (rule, msg, n.get('l', 0))
        if x not in self.viol:
            self.viol.append(x)

    def initial(self, func):
        return (frozenset(), frozenset(), frozenset(), '')

    def transfer(self, st, n, func):
        k = n.get('k')
        if k is None:
            return [st]
        mut, stale, regen, lock = st
        if k == 'CXXMemberCallExpr':
            cn, cc = n.get('cn'), n.get('cc')
            o = call_obj(n)
            if cc in ('shared_mutex', '__shared_mutex_pthread', 'shared_timed_mutex') or (o is not None and expr_key(o).endswith('statesLock')):
                self.nlock += 1
                if cn == 'lock':
                    if lock:
                        self.v('R2-stateslock-pairing', 'statesLock.lock() while already held (%s) on this path' % lock, n)
                    return [(mut, stale, regen, 'X')]
                if cn == 'lock_shared':
                    if lock:
                        self.v('R2-stateslock-pairing', 'statesLock.lock_shared() while already held (%s)' % lock, n)
                    return [(mut, stale, regen, 'S')]
                if cn == 'unlock':
                    if lock != 'X':
                        self.v('R2-stateslock-pairing', 'statesLock.unlock() on a path where it is not exclusively held (state %r)' % lock, n)
                    return [(mut, stale, regen, '')]
                if cn == 'unlock_shared':
                    if lock != 'S':
                        self.v('R2-stateslock-pairing', 'statesLock.unlock_shared() on a path where it is not share-held (state %r)' % lock, n)
                    return [(mut, stale, regen, '')]
                return [st]
            if cn in MUTATION_CALLS and o is not None and expr_key(o).endswith('sds'):
                self.nmut += 1
                ob = objkey(kids(strip(o, casts=True))[0] if strip(o, casts=True)['k'] == 'MemberExpr' and kids(strip(o, casts=True)) else None)
                return [(mut | {ob}, stale, regen - {ob}, lock)]
            if cc == CLS:
                ob = objkey(o)
                if cn in STALING_MUTATORS:
                    self.nmut += 1
                    return [(mut | {ob}, stale | {ob}, regen - {ob}, lock)]
                if cn in STALE_ONLY:
                    return [(mut, stale | {ob}, regen - {ob}, lock)]
                if cn == 'genAllDisjointSetLists':
                    if lock:
                        self.v('R2-stateslock-pairing', 'genAllDisjointSetLists() (takes the exclusive lock) called with statesLock held (%s): self-deadlock' % lock, n)
                    return [(mut, stale, regen | {ob}, lock)]
            a = atomics.atomic_op(n)
            if a is not None and a.get('objkey', '').endswith('statesMapStale') and a['kind'] == 'store':
                v = strip(a['operand'], casts=True)
                ob = objkey(kids(strip(a['obj'], casts=True))[0] if strip(a['obj'], casts=True)['k'] == 'MemberExpr' and kids(strip(a['obj'], casts=True)) else None)
                if v['k'] == 'CXXBoolLiteralExpr' and v['val'] == 1:
                    return [(mut, stale | {ob}, regen, lock)]
                if v['k'] == 'CXXBoolLiteralExpr' and v['val'] == 0:
                    if func.name != 'genAllDisjointSetLists':
                        self.v('R1-stale-cleared-only-by-regeneration', 'statesMapStale cleared outside genAllDisjointSetLists', n)
                    elif lock != 'X':
                        self.v('R1-stale-cleared-only-by-regeneration', 'statesMapStale cleared without the exclusive lock', n)
                    return [st]
            return [st]
        if k == 'MemberExpr' and n.get('member') == 'equivalencePartition' and n.get('field') and not self.exempt:
            self.nread += 1
            ob = objkey(kids(n)[0] if kids(n) else None)
            if ob not in regen:
                self.v('R1-read-after-regeneration', 'equivalencePartition of `%s` is read on a path without a preceding genAllDisjointSetLists() '
                       '(or after a later mutation): the cached partition may be stale' % ob, n)
            return [st]
        if k in ('CXXConstructExpr', 'CXXTemporaryObjectExpr') and n.get('cn') == 'iterator' and not self.exempt and n.get('nargs', 0) == 1 \
                and CLS in n.get('ctor', ''):
            a0 = strip(kids(n)[0], casts=True) if kids(n) else None
            if a0 is not None and a0['k'] == 'CXXThisExpr':
                self.nread += 1
                if 'this' not in regen:
                    self.v('R1-read-after-regeneration', 'an iterator over the cached partition is created without a preceding genAllDisjointSetLists()', n)
        return [st]


def analyse_eqrel(rep, u):
    fs = [f for f in u.functions if f.d.get('cls') == CLS and not f.is_lambda and f.cfg is not None]
    seen = set()
    nm = nr = nl = 0
    mutators, readers = set(), set()
    for f in fs:
        key = (f.name, f.line)
        if key in seen:
            continue
        seen.add(key)
        cl = CacheClient(f)
        try:
            res = pathflow.run(f, cl)
        except facts.Broken as e:
            rep.analysis_broken(str(e))
            continue
        for (mut, stale, regen, lock), path in res.exits:
            for ob in mut - stale:
                cl.v('R1-mutators-mark-stale', 'a path mutates the union-find of `%s` but never marks its cached partition stale [path lines %s]' % (
                    ob, pathflow.path_lines(f, path)[-6:]), {'l': f.d.get('endline', f.line)})
            if lock:
                cl.v('R2-stateslock-pairing', 'function exit with statesLock held (%s) [path lines %s]' % (lock, pathflow.path_lines(f, path)[-6:]),
                     {'l': f.d.get('endline', f.line)})
        nm += cl.nmut
        nr += cl.nread
        nl += cl.nlock
        if cl.nmut:
            mutators.add(f.name)
        if cl.nread:
            readers.add(f.name)
        label = '%s::%s@%d' % (CLS, f.name, f.line)
        label = '%s::%s/%d' % (CLS, f.name, len(f.d['params']))
        for rule, active in (('R1-mutators-mark-stale', cl.nmut), ('R1-read-after-regeneration', cl.nread),
                             ('R1-stale-cleared-only-by-regeneration', f.name == 'genAllDisjointSetLists'), ('R2-stateslock-pairing', cl.nlock)):
            if not active:
                continue
            msgs = ['%s (line %s)' % (m, l) for (r, m, l) in cl.viol if r == rule]
            rep.ob(rule, label, not msgs, f.where, ' | '.join(msgs[:3]))
    # regeneration: the flag is cleared only after the rebuild loop (no partition insert reachable after the clear)
    g = [f for f in fs if f.name == 'genAllDisjointSetLists']
    if not g:
        rep.analysis_broken('genAllDisjointSetLists not found')
    else:
        f = g[0]
        clears = [a for a in atomics.atomic_ops_in(f.body) if a.get('objkey', '').endswith('statesMapStale') and a['kind'] == 'store']
        ins = [m for m in f.walk() if is_call(m, 'insert') and call_obj(m) is not None and expr_key(call_obj(m)).endswith('equivalencePartition')]
        dom, succ, pred, reach = pathflow.dominators(f)
        ok = bool(clears) and bool(ins)
        for c in clears:
            cb = pathflow.block_of(f, c['node']['id'])
            seen_b, stack = set(), [cb]
            while stack:
                x = stack.pop()
                if x in seen_b:
                    continue
                seen_b.add(x)
                stack.extend(succ.get(x, []))
            for m in ins:
                if pathflow.block_of(f, m['id']) in seen_b:
                    ok = False
        rep.ob('R1-stale-cleared-after-rebuild', CLS + '::genAllDisjointSetLists', ok, f.where,
               '' if ok else 'the stale flag is cleared before the partition is completely rebuilt')
        # rebuild is skipped only when the flag says "fresh"
        emp = [m for m in f.walk() if is_call(m, 'emptyPartition')]
        rep.ob('R1-rebuild-starts-empty', CLS + '::genAllDisjointSetLists', bool(emp), f.where, '' if emp else 'the old partition is not emptied before the rebuild')
    return nm, nr, nl, mutators, readers


def analyse_piggy(rep, u):
    """R4: block-table growth is double-checked under the spin lock; indices are reserved by an atomic fetch_add"""
    n = 0
    seen = set()
    for f in u.functions:
        if f.d.get('cls') not in ('PiggyList', 'RandomInsertPiggyList') or f.name not in ('append', 'createNode', 'insertAt') or f.cfg is None:
            continue
        key = (f.d.get('cls'), f.name)
        if key in seen:
            continue
        seen.add(key)
        n += 1
        label = '%s::%s' % key
        lockname = 'sl' if f.d.get('cls') == 'PiggyList' else 'slock'
        # writes to the block table
        writes = []
        for m in f.walk():
            if m['k'] == 'BinaryOperator' and m['op'] == '=' and expr_key(kids(m)[0]).startswith('blockLookupTable['):
                writes.append(m)
            a = atomics.atomic_op(m)
            if a is not None and a.get('objkey', '').startswith('blockLookupTable[') and a['kind'] == 'store':
                writes.append(m)
        # lockset by pathflow
        class C(pathflow.Client):
            def __init__(s):
                s.bad = []

            def initial(s, func):
                return (False, False)       # (spin lock held, re-checked under the lock)

            def transfer(s, st, node, func):
                if node.get('k') == 'CXXMemberCallExpr' and node.get('cc') == 'SpinLock' and expr_key(call_obj(node)) == lockname:
                    if node['cn'] == 'lock':
                        return [(True, False)]
                    if node['cn'] == 'unlock':
                        return [(False, False)]
                if any(node is w for w in writes):
                    if not st[0]:
                        s.bad.append(('block table written without the spin lock', node))
                    elif not st[1]:
                        s.bad.append(('block table written under the lock without re-checking that the block is still missing '
                                      '(two growers would both allocate; one block and its contents are lost)', node))
                return [st]

            def branch(s, st, cond, truth, func, tk):
                k = expr_key(cond)
                if st[0] and ('container_size' in k or 'blockLookupTable' in k):
                    return (True, True)
                return st
        c = C()
        res = pathflow.run(f, c)
        for st, path in res.exits:
            if st[0]:
                c.bad.append(('function exit with the spin lock held', {'l': f.d.get('endline', f.line)}))
        rep.ob('R4-block-table-double-checked', label, not c.bad and bool(writes), f.where,
               '; '.join('%s (line %s)' % (m, nd.get('l')) for m, nd in c.bad[:2]) if c.bad else ('' if writes else 'no block-table write found'))
        if f.name in ('append', 'createNode'):
            ops = [a for a in atomics.atomic_ops_in(f.body) if a.get('objkey') == 'm_size']
            ok = len(ops) == 1 and ops[0]['kind'] == 'rmw' and ops[0]['op'] == '+'
            rep.ob('R4-index-reserved-atomically', label, ok, f.where, '' if ok else 'm_size accessed by %s' % [(a['kind'], a['op']) for a in ops])
    return n


MUTANTS = [
    ('insertAll-forgets-stale', '''        // invalidate iterators unconditionally
        this->statesMapStale.store(true, std::memory_order_relaxed);
    }''', '''    }''', 'R1'),
    ('size-without-regeneration', '''    std::size_t size() const {
        genAllDisjointSetLists();
''', '''    std::size_t size() const {
''', 'R1'),
    ('regen-clears-flag-first', '''        // btree version
        emptyPartition();
''', '''        // btree version
        emptyPartition();
        statesMapStale.store(false, std::memory_order_release);
''', 'R1'),
    ('regen-early-return-keeps-lock', '''        if (!this->statesMapStale.load(std::memory_order_acquire)) {
            statesLock.unlock();
            return;
        }''', '''        if (!this->statesMapStale.load(std::memory_order_acquire)) {
            return;
        }''', 'R2'),
    ('size-unlock-missing', '''        statesLock.unlock_shared();
        return retVal;''', '''        return retVal;''', 'R2'),
]
MUTANTS_PIGGY = [
    ('piggy-no-recheck', '''            // check and add as many containers as required
            while (container_size < new_index + 1) {
                blockLookupTable[num_containers] = new T[allocsize];
                num_containers += 1;
                container_size += allocsize;
                // double the number elements that will be allocated next time
                allocsize <<= 1;
            }
            sl.unlock();
        }

        return new_index;''', '''            // check and add as many containers as required
            {
                blockLookupTable[num_containers] = new T[allocsize];
                num_containers += 1;
                container_size += allocsize;
                // double the number elements that will be allocated next time
                allocsize <<= 1;
            }
            sl.unlock();
        }

        return new_index;''', 'R4'),
    ('randominsert-no-lock', '''            slock.lock();
            if (blockLookupTable[blockNum].load() == nullptr) {
                blockLookupTable[blockNum].store(new T[INITIALBLOCKSIZE << blockNum]);
            }
            slock.unlock();''', '''            blockLookupTable[blockNum].store(new T[INITIALBLOCKSIZE << blockNum]);''', 'R4'),
]


def analyse(rep):
    u, = facts.extract([(TU, r'datastructure/(EquivalenceRelation|PiggyList)\.h$', r'EquivalenceRelation|PiggyList')])
    rep.add_units([u])
    nm, nr, nl, mutators, readers = analyse_eqrel(rep, u)
    rep.floor('R1-mutation-sites', nm, 5)
    rep.floor('R1-partition-reads', nr, 7)
    rep.floor('R2-lock-operations', nl, 6)
    rep.floor('R4-growth-functions', analyse_piggy(rep, u), 3)
    rep.extra['mutating_methods'] = sorted(mutators)
    # R5: the order of the sparse->dense element map, decided over the finite set of orderings
    uc, = facts.extract([comparators.JOB])
    rep.add_units([uc])
    rep.floor('R5-comparator-classes', comparators.rule_comparators(rep, uc, r'EqrelMapComparator', 'R5-comparator-order'), 1)
    rep.extra['reading_methods'] = sorted(readers)


def analyse_full(rep):
    analyse(rep)
    # R3: the union-find discipline (C29 rules) and the LambdaBTree insert path (C25 rules) this structure rests on
    C29.analyse(rep)
    ub, = facts.extract([(C25.TU, r'datastructure/(BTree|BTreeDelete|LambdaBTree)\.h$', C25.NAME_RE)])
    C25.analyse_unit(rep, ub, ('LambdaBTree',))


def run(tier='quick'):
    rep = Report('C28', tier)
    rep.explanation = ('static analysis of EquivalenceRelation.h / PiggyList.h: (R1) cache-staleness typestate over every method -- each path that '
                       'mutates the union-find also marks the cached partition stale; the partition is read (or an iterator over it created) only '
                       'after genAllDisjointSetLists() with no mutation in between; the flag is cleared only by the regeneration, under the '
                       'exclusive lock, after the rebuild; (R2) statesLock pairing (exclusive and shared) on all paths; (R3) the union-find rules of '
                       'C29 and the lock-use rules of C25 on the LambdaBTree that stores the partition; (R4) PiggyList growth: block-table writes '
                       'only under the spin lock with a re-check, indices reserved by atomic fetch_add.')
    rep.assumptions = ['closure / size / iterate-once on data are NOT decided; C08\'s finding on lower_bound is handled there',
                       'methods listed as STALING_MUTATORS are summarised as "mutates and marks stale"; each is itself verified by R1']
    try:
        analyse_full(rep)
        ms = [mutate.Mutant(n, HDR, o, w, e) for (n, o, w, e) in MUTANTS]
        ms += [mutate.Mutant(n, 'src/include/souffle/datastructure/PiggyList.h', o, w, e) for (n, o, w, e) in MUTANTS_PIGGY]
        ms += [mutate.Mutant('eqrel-map-order-by-subtraction', 'src/include/souffle/datastructure/UnionFind.h', '''        if (a.first < b.first) {
            return -1;
        } else if (b.first < a.first) {
            return 1;
        } else {
            return 0;
        }''', '        return static_cast<int>(a.first - b.first);', 'R5')]
        mutate.run_mutants(rep, 'C28', ms if tier == 'thorough' else [ms[0], ms[3], ms[-1]], analyse)
    except facts.Broken as e:
        rep.analysis_broken(str(e))
    return rep.finish()

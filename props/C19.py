"""C19 -- provenance is faithful.  Proof-tree validity relates run-time relations to rule instances and is out of reach of a
static argument.  The FIRST clause of the property -- "with provenance enabled the output relations are the same" -- has a
structural necessary condition: the two provenance columns (rule number, level) must never take part in what a relation
CONTAINS or in what is WRITTEN:

R1  AUX COLUMNS ARE DECLARED CONSISTENTLY.  provenance::UnitTranslator::createRamRelation adds K attribute names, K attribute types,
    K to the arity and K to the auxiliary arity (the same K = 2), and addAuxiliaryArity passes "auxArity" = K to the IO directives.
R2  IO EXCLUDES AUX COLUMNS.  SerialisationStream computes arity = #types - auxArity; every column loop of the writers is bounded
    by that `arity`.
R3  SET IDENTITY IGNORES AUX COLUMNS.  Interpreter: the Provenance index is a btree_set whose weak comparator compares
    Arity - AuxiliaryArity columns and whose updater is ProvenanceUpdater.  Synthesiser: for relations with auxiliary columns the
    generated index is a btree_set with comparator `t_comparator_i_aux` generated over ind.size() - auxiliaryArity columns, and
    `updater`.  (A tuple derived twice with different proofs is ONE tuple.)
R4  THE UPDATER KEEPS ONE PROOF AND NEVER TOUCHES KEY COLUMNS.  Both updaters replace exactly the level and rule columns
    (Arity-1, Arity-2), only when (level, rule) is lexicographically smaller, and report a change iff they did.

Not decided: that the recorded (rule, level) pair is a valid proof step, the explain engine, negation/constraint handling in proofs."""
import os, re
from engine import facts, tables, mutate
from engine.facts import kids, walk, strip, is_call, call_args, call_obj, expr_key
from engine.report import Report

PUT = 'src/ast2ram/provenance/UnitTranslator.cpp'
SER = 'src/include/souffle/io/SerialisationStream.h'
IUTIL = 'src/interpreter/Util.h'
REL = 'src/synthesiser/Relation.cpp'
TU_IO = os.path.join(facts.VERIF, 'tu', 'io_instances.cpp')


def const_of(e):
    e = strip(e, casts=True)
    v = e.get('cv', e.get('val'))
    try:
        return int(v)
    except (TypeError, ValueError):
        return None


def rule_declared(rep, u):
    fs = [f for f in u.functions if f.name == 'createRamRelation' and not f.is_lambda]
    ax = [f for f in u.functions if f.name == 'addAuxiliaryArity' and not f.is_lambda]
    if not fs or not ax:
        rep.analysis_broken('provenance::UnitTranslator::createRamRelation / addAuxiliaryArity not found')
        return
    f = fs[0]
    mk = [m for m in f.walk() if is_call(m, 'mk') and 'ram::Relation' in ' '.join(m.get('ta') or [])]
    if len(mk) != 1:
        rep.analysis_broken('createRamRelation: mk<ram::Relation> not found')
        return
    a = call_args(mk[0])
    adds = []
    for x in a[1:3]:
        x = strip(x, casts=True)
        adds.append(const_of(kids(x)[1]) if x['k'] == 'BinaryOperator' and x.get('op') == '+' else None)
    pushes = {}
    for m in f.walk():
        if is_call(m, 'push_back'):
            pushes[expr_key(call_obj(m))] = pushes.get(expr_key(call_obj(m)), 0) + 1
    names_t = [strip(x, casts=True).get('name') for x in a[3:5]]
    k = adds[0]
    ok = k is not None and adds == [k, k] and all(pushes.get(n) == k for n in names_t)
    rep.ob('R1-aux-columns-declared-consistently', 'createRamRelation', ok, f.where,
           '' if ok else 'arity +%s, auxiliary arity +%s, attribute names +%s, attribute types +%s: the provenance columns are not declared consistently' % (
               adds[0], adds[1], pushes.get(names_t[0]), pushes.get(names_t[1])))
    lits = [m.get('str') for m in ax[0].walk() if m['k'] == 'StringLiteral']
    ok2 = 'auxArity' in lits and str(k) in lits
    rep.ob('R1-aux-arity-passed-to-io', 'addAuxiliaryArity', ok2, ax[0].where, '' if ok2 else 'IO directives get auxArity=%s, relations have %s provenance columns' % (lits, k))


def rule_io(rep, io):
    # the path every reader/writer of a run takes: directive map -> auxiliaryArity; JSON types -> arity (source arity) + aux types appended
    ctors = [f for f in io.functions if f.d.get('ctor') and f.d.get('cls') == 'SerialisationStream' and any(p['name'] == 'rwOperation' for p in f.d['params'])]
    setup = [f for f in io.functions if f.name == 'setupFromJson' and f.d.get('cls') == 'SerialisationStream']
    if not ctors or not setup:
        rep.analysis_broken('SerialisationStream(rwOperation) / setupFromJson not found')
    else:
        f = ctors[0]
        ok = any(m['k'] == 'BinaryOperator' and m.get('op') == '=' and expr_key(strip(kids(m)[0], casts=True)).split('.')[-1] == 'auxiliaryArity'
                 and any(x['k'] == 'StringLiteral' and x.get('str') == 'auxArity' for x in walk(kids(m)[1])) for m in f.walk())
        rep.ob('R2-io-arity-excludes-aux', 'SerialisationStream/auxArity-directive-read', ok, f.where, '' if ok else 'the auxArity directive is no longer read into auxiliaryArity')
        g = setup[0]
        ar = [m for m in g.walk() if m['k'] == 'BinaryOperator' and m.get('op') == '=' and expr_key(strip(kids(m)[0], casts=True)).split('.')[-1] == 'arity']
        ok1 = len(ar) == 1 and any(x['k'] == 'StringLiteral' and x.get('str') == 'arity' for x in walk(kids(ar[0])[1])) and \
            not any(x.get('member') == 'auxiliaryArity' or x.get('name') == 'auxiliaryArity' for x in walk(kids(ar[0])[1]))
        auxloop = False
        for lp in [m for m in g.walk() if m['k'] == 'ForStmt']:
            roles = dict(zip(lp.get('roles', []), lp['c']))
            c = strip(roles.get('cond'), casts=True) if roles.get('cond') is not None else None
            if c is not None and c['k'] == 'BinaryOperator' and c.get('op') == '<' and expr_key(strip(kids(c)[1], casts=True)).split('.')[-1] == 'auxiliaryArity' \
                    and any(is_call(x, 'push_back') and expr_key(call_obj(x)).split('.')[-1] == 'typeAttributes' for x in walk(roles.get('body'))):
                auxloop = True
        rep.ob('R2-io-arity-excludes-aux', 'SerialisationStream::setupFromJson', ok1 and auxloop, g.where,
               '' if ok1 and auxloop else 'the IO arity must be the declared (source) arity, with exactly auxiliaryArity extra column types appended')
    n = 0
    for f in io.functions:
        if f.is_lambda or not re.match(r'WriteStream', f.d.get('cls') or '') or '/io/WriteStream' not in f.file:
            continue
        for lp in [m for m in f.walk() if m['k'] == 'ForStmt']:
            roles = dict(zip(lp.get('roles', []), lp['c']))
            c = strip(roles.get('cond'), casts=True) if roles.get('cond') is not None else None
            if c is None or c['k'] != 'BinaryOperator' or c.get('op') not in ('<', '<=', '!='):
                continue
            # column loops: the body indexes the tuple / typeAttributes with the loop variable
            iv = strip(kids(c)[0], casts=True).get('name')
            body = roles.get('body')
            uses = any(m['k'] in ('ArraySubscriptExpr', 'CXXOperatorCallExpr') and m.get('op', '[]') == '[]' and
                       any(x.get('name') == iv for x in walk(m)) and any(x.get('name') in ('tuple', 'typeAttributes') or x.get('member') == 'typeAttributes' for x in walk(m))
                       for m in walk(body)) if body is not None else False
            if not uses:
                continue
            n += 1
            bound = expr_key(strip(kids(c)[1], casts=True))
            ok = bound.split('.')[-1] == 'arity'
            rep.ob('R2-writer-column-loops-bounded-by-io-arity', '%s::%s/for@%s' % (f.d.get('cls'), f.name, iv), ok, f.loc(lp),
                   '' if ok else 'a writer column loop is bounded by `%s`: provenance columns would be written' % bound)
    rep.floor('R2-writer-column-loops', n, 4)


def rule_identity(rep, iu, rel):
    # interpreter: the resolved type of Provenance<4,2> (a variable of that type lives in tu/prov_instances.cpp; only its type is read)
    v = [x for x in iu.vars if x['name'] == 'provenance_index_4_2']
    ok_i, why_i = False, 'instantiation of interpreter::Provenance<4,2> not found'
    if v:
        t = re.sub(r'\s+', '', v[0].get('t', ''))
        m = re.match(r'souffle::btree_set<(.*)>\*$', t)
        args, depth, cur = [], 0, ''
        for ch in (m.group(1) if m else ''):
            if ch == ',' and depth == 0:
                args.append(cur)
                cur = ''
                continue
            depth += ch == '<'
            depth -= ch == '>'
            cur += ch
        args.append(cur)
        # btree_set<Key, Comparator, Allocator, blockSize, SearchStrategy, WeakComparator, Updater>
        ok_i = len(args) == 7 and args[1].endswith('comparator<0,1,2,3>') and args[5].endswith('comparator<0,1>') and args[6].endswith('ProvenanceUpdater<4,2>')
        why_i = '' if ok_i else 'Provenance<4,2> is %s: the weak comparator must compare the 2 non-auxiliary columns and the updater must be ProvenanceUpdater' % t[:200]
    rep.ob('R3-identity-ignores-aux-columns', 'interpreter/Provenance', ok_i, IUTIL, why_i)
    # synthesiser
    fs = [f for f in rel.functions if f.name == 'generateTypeStruct' and not f.is_lambda and 'DirectRelation' in f.qname]
    if not fs:
        rep.analysis_broken('DirectRelation::generateTypeStruct not found')
        return
    f = fs[0]
    ok_s, why_s = False, 'no index type generated for relations with auxiliary columns'
    for ifs in [m for m in f.walk() if m['k'] == 'IfStmt']:
        c = strip(kids(ifs)[0], casts=True)
        if c.get('name') != 'hasAuxiliary' and c.get('member') != 'hasAuxiliary':
            continue
        then = kids(ifs)[1]
        lits = ''.join(m.get('str', '') for m in walk(then) if m['k'] == 'StringLiteral')
        if 'btree_set<t_tuple,' not in lits.replace(' ', ''):
            continue
        gen = [m for m in walk(then) if m['k'] == 'CXXOperatorCallExpr' and m.get('op') == '()' and any(x.get('name') == 'genstruct' for x in walk(m))]
        bound_ok = False
        for g in gen:
            a = call_args(g)
            b = strip(a[-1], casts=True)
            if b['k'] == 'BinaryOperator' and b.get('op') == '-' and is_call(strip(kids(b)[0], casts=True), 'size') and \
                    expr_key(strip(kids(b)[1], casts=True)).split('.')[-1] == 'auxiliaryArity':
                bound_ok = True
        streamed = [expr_key(strip(call_args(m)[1], casts=True)) for m in walk(then) if m['k'] == 'CXXOperatorCallExpr' and m.get('op') == '<<']
        ok_s = bound_ok and ',updater>' in lits.replace(' ', '') and any(s.endswith('comparator_aux') for s in streamed)
        why_s = '' if ok_s else 'the generated provenance index does not use a weak comparator over ind.size() - auxiliaryArity columns with `updater`'
    rep.ob('R3-identity-ignores-aux-columns', 'synthesiser/t_ind', ok_s, f.where, why_s)


def rule_updater(rep, iu, rel):
    fs = [f for f in iu.functions if f.d.get('cls') == 'ProvenanceUpdater' and f.name == 'update']
    if not fs:
        rep.analysis_broken('interpreter ProvenanceUpdater::update not found (instantiate it in tu/cmp_instances.cpp)')
    else:
        f = fs[0]
        consts = {m['name']: m for m in f.walk() if m['k'] == 'VarDecl' and m.get('name') in ('level', 'rule')}

        def off(name):
            vd = consts.get(name)
            if vd is None or not kids(vd):
                return None
            e = strip(kids(vd)[0], casts=True)
            while e['k'] in ('ConstantExpr', 'ParenExpr') and kids(e):
                e = strip(kids(e)[0], casts=True)
            if e['k'] == 'BinaryOperator' and e.get('op') == '-':
                return const_of(kids(e)[1])
            return None
        ok = off('level') == 1 and off('rule') == 2
        asg = [m for m in f.walk() if m['k'] == 'BinaryOperator' and m.get('op') == '=' or (m['k'] == 'CXXOperatorCallExpr' and m.get('op') == '=')]
        idx = sorted({x.get('name') for a in asg for x in walk(a) if x['k'] == 'DeclRefExpr' and x.get('name') in ('level', 'rule')})
        ok = ok and idx == ['level', 'rule'] and len(asg) == 2
        ifs = [m for m in f.walk() if m['k'] == 'IfStmt']
        lex = False
        if len(ifs) == 1:
            c = strip(kids(ifs[0])[0], casts=True)
            k = expr_key(c).replace(' ', '')
            lex = c['k'] == 'BinaryOperator' and c.get('op') == '||' and k.count('level') >= 4 and k.count('rule') >= 2 and '<' in k and '==' in k
        rets = [bool(strip(kids(m)[0], casts=True).get('val')) for m in f.walk() if m['k'] == 'ReturnStmt' and kids(m) and strip(kids(m)[0], casts=True)['k'] == 'CXXBoolLiteralExpr']
        ok = ok and lex and sorted(rets) == [False, True]
        rep.ob('R4-updater-replaces-only-proof-columns', 'interpreter/ProvenanceUpdater::update', ok, f.where,
               '' if ok else 'the updater must replace exactly columns Arity-1 (level) and Arity-2 (rule), only when (level, rule) is lexicographically smaller, and return whether it did')
    g = [f for f in rel.functions if f.name == 'generateTypeStruct' and not f.is_lambda and 'DirectRelation' in f.qname]
    if g:
        f = g[0]
        ok = False
        why = 'generated provenance updater not found'
        for ifs in [m for m in f.walk() if m['k'] == 'IfStmt']:
            c = strip(kids(ifs)[0], casts=True)
            if c.get('name') == 'hasProvenance' or c.get('member') == 'hasProvenance':
                then = kids(ifs)[1]
                lits = ''.join(m.get('str', '') for m in walk(then) if m['k'] == 'StringLiteral').replace(' ', '')
                decl = {m['name']: m for m in walk(then) if m['k'] == 'VarDecl' and m.get('name') in ('rule', 'level')}
                offs = {}
                for n_, vd in decl.items():
                    e = strip(kids(vd)[0], casts=True) if kids(vd) else None
                    offs[n_] = const_of(kids(e)[1]) if e is not None and e['k'] == 'BinaryOperator' and e.get('op') == '-' else None
                shape = lits.count('old_t[') >= 4 and '<' in lits and '||' in lits and '==' in lits and 'changed=true' in lits
                ok = offs == {'rule': 2, 'level': 1} and shape
                why = '' if ok else 'generated updater: rule/level offsets %s, comparison shape ok=%s' % (offs, shape)
        rep.ob('R4-updater-replaces-only-proof-columns', 'synthesiser/updater', ok, f.where, why)


def rule_subproof_layout(rep, ex):
    """R5: the record the explain engine keeps for a proof node cut off by the depth limit (ExplainProvenanceImpl::subproofs) is written by
    explain() and decoded by explainSubproof(); both must agree on where the rule number and the level sit.  Reader: the arguments that
    explainSubproof hands to explain's parameters are traced to tup[arity - K]; writer: the push_backs onto the tuple that dominate the
    store into `subproofs` give each of explain's parameters its distance from the end.  The two maps (parameter -> distance) must agree."""
    fe = [f for f in ex.functions if f.name == 'explain' and f.d.get('cls') == 'ExplainProvenanceImpl' and len(f.d.get('params', [])) == 5]
    fs = [f for f in ex.functions if f.name == 'explainSubproof' and f.d.get('cls') == 'ExplainProvenanceImpl']
    if len(fe) != 1 or len(fs) != 1:
        rep.analysis_broken('ExplainProvenanceImpl::explain / explainSubproof not found (%d, %d)' % (len(fe), len(fs)))
        return
    fe, fs = fe[0], fs[0]
    pidx = {p['did']: i for i, p in enumerate(fe.d['params'])}
    # ---- writer
    stores = [m for m in fe.walk() if is_call(m, ('push_back', 'emplace_back')) and call_obj(m) is not None and expr_key(call_obj(m)) == 'subproofs']
    if len(stores) != 1:
        rep.analysis_broken('explain: expected one store into subproofs, found %d' % len(stores))
        return
    st = stores[0]
    rec = strip(call_args(st)[0], casts=True)
    if rec['k'] != 'DeclRefExpr':
        rep.analysis_broken('explain: the stored subproof record is not a variable')
        return
    anc = {a['id'] for a in fe.ancestors(st)}
    order = {m['id']: i for i, m in enumerate(fe.walk())}
    pushes = []
    for m in fe.walk():
        if is_call(m, 'push_back') and call_obj(m) is not None:
            o = strip(call_obj(m), casts=True)
            if o['k'] == 'DeclRefExpr' and o.get('did') == rec.get('did') and order[m['id']] < order[st['id']]:
                # statement-level call whose enclosing compound statement encloses the store: it is executed on every path to the store
                par = fe.parent(m)
                while par is not None and par['k'] != 'CompoundStmt':
                    par = fe.parent(par)
                if par is not None and par['id'] in anc:
                    pushes.append(m)
                elif par is None or not kids(par) or kids(par)[-1]['k'] != 'ReturnStmt':
                    # a push in a block that is left by falling through: the layout at the store depends on the path taken
                    rep.analysis_broken('explain: a conditional push_back onto the subproof record precedes its store (%s)' % fe.loc(m))
                    return
    writer = {}
    for dist, m in enumerate(reversed(pushes), 1):
        a = strip(call_args(m)[0], casts=True)
        if a['k'] == 'DeclRefExpr' and a.get('did') in pidx:
            writer[pidx[a['did']]] = dist
    # ---- reader
    calls = [m for m in fs.walk() if is_call(m, 'explain')]
    if len(calls) != 1:
        rep.analysis_broken('explainSubproof: expected one call of explain, found %d' % len(calls))
        return
    reader = {}
    args = call_args(calls[0])
    for i, a in enumerate(args):
        a = strip(a, casts=True)
        if a['k'] != 'DeclRefExpr' or a.get('dk') != 'Local':
            continue
        defs = []
        for m in fs.walk():
            if m['k'] == 'BinaryOperator' and m.get('op') == '=' and strip(kids(m)[0], casts=True).get('did') == a.get('did'):
                defs.append(kids(m)[1])
            if m['k'] == 'VarDecl' and m.get('did') == a.get('did') and kids(m):
                defs.append(kids(m)[0])
        for d in defs:
            d = strip(d, casts=True)
            if d['k'] == 'CXXOperatorCallExpr' and d.get('op') == '[]':
                ix = strip(kids(d)[2], casts=True)
                if ix['k'] == 'BinaryOperator' and ix.get('op') == '-' and 'getArity' in expr_key(kids(ix)[0]):
                    k = strip(kids(ix)[1], casts=True)
                    if k['k'] == 'IntegerLiteral':
                        reader[i] = int(k.get('val'))
    rep.floor('R5-subproof-fields-read', len(reader), 2)
    rep.floor('R5-subproof-fields-written', len(pushes), 2)
    for i, dist in sorted(reader.items()):
        nm = fe.d['params'][i]['name']
        ok = writer.get(i) == dist
        rep.ob('R5-subproof-record-layout-agrees', 'subproofs/%s' % nm, ok, fe.loc(st),
               '' if ok else 'explainSubproof reads %s from position arity-%d of a stored subproof record, explain() stores it at distance %s from the end '
               '(push order before the store: %s)' % (nm, dist, writer.get(i), [expr_key(call_args(m)[0]) for m in pushes]))


def analyse(rep):
    put, io, iu, rel, ex = facts.extract([(PUT, r'provenance/UnitTranslator\.cpp$', r'UnitTranslator::(createRamRelation|addAuxiliaryArity)$'),
                                      (TU_IO, r'souffle/io/(SerialisationStream|WriteStream[A-Za-z]*)\.h$', r'.*'),
                                      (os.path.join(facts.VERIF, 'tu', 'prov_instances.cpp'), r'interpreter/Util\.h$|prov_instances\.cpp$', r'Updater'),
                                      (REL, r'synthesiser/Relation\.cpp$', r'generateTypeStruct'),
                                      ('src/MainDriver.cpp', r'provenance/ExplainProvenanceImpl\.h$', r'ExplainProvenanceImpl::explain')])
    rep.add_units([put, io, iu, rel, ex])
    rule_declared(rep, put)
    rule_io(rep, io)
    rule_identity(rep, iu, rel)
    rule_updater(rep, iu, rel)
    rule_subproof_layout(rep, ex)


MUTANTS = [
    ('aux-arity-not-raised', PUT, 'return mk<ram::Relation>(ramRelationName, arity + 2, auxiliaryArity + 2, attributeNames,',
     'return mk<ram::Relation>(ramRelationName, arity + 2, auxiliaryArity, attributeNames,', 'R1'),
    ('weak-comparator-over-all-columns', IUTIL, '''using Provenance = btree_set<t_tuple<Arity>, comparator<Arity>, std::allocator<t_tuple<Arity>>, 256,
        typename detail::default_strategy<t_tuple<Arity>>::type, comparator<Arity - AuxiliaryArity>,
        ProvenanceUpdater<Arity, AuxiliaryArity>>;''', '''using Provenance = btree_set<t_tuple<Arity>, comparator<Arity>, std::allocator<t_tuple<Arity>>, 256,
        typename detail::default_strategy<t_tuple<Arity>>::type, comparator<Arity>,
        ProvenanceUpdater<Arity, AuxiliaryArity>>;''', 'R3'),
    ('io-arity-includes-aux', SER, '        arity = static_cast<std::size_t>(relInfo["arity"].long_value());', '        arity = static_cast<std::size_t>(relInfo["arity"].long_value()) + auxiliaryArity;', 'R2'),
    ('generated-aux-comparator-over-all-columns', REL, 'genstruct(comparator_aux, ind.size() - auxiliaryArity);', 'genstruct(comparator_aux, ind.size());', 'R3'),
    ('updater-compares-rule-first', IUTIL, '        constexpr std::size_t level = Arity - 1;\n        constexpr std::size_t rule = Arity - 2;',
     '        constexpr std::size_t level = Arity - 2;\n        constexpr std::size_t rule = Arity - 1;', 'R4'),
    ('subproof-reader-swaps-rule-and-level', 'src/include/souffle/provenance/ExplainProvenanceImpl.h',
     '        ruleNum = tup[rel->getArity() - 2];', '        ruleNum = tup[rel->getArity() - 1];', 'R5'),
]


def run(tier='quick'):
    rep = Report('C19', tier)
    rep.explanation = ('static structural clauses for "same outputs with provenance": the two provenance columns are declared consistently (arity, auxiliary '
                       'arity, names, types, IO auxArity), excluded from IO (SerialisationStream arity, writer column loops), excluded from set identity '
                       '(weak comparator over Arity - AuxiliaryArity columns in both back-ends) and only ever replaced together by the proof-minimising updater.')
    rep.assumptions = ['validity of proof trees / negation and constraints in proofs are NOT decided (run-time semantics); of the explain engine only the '
                       'layout agreement of the deferred-subproof record between its writer and its reader is decided (R5)']
    try:
        analyse(rep)
        ms = [mutate.Mutant(n, f, o, w, e) for (n, f, o, w, e) in MUTANTS]
        mutate.run_mutants(rep, 'C19', ms if tier == 'thorough' else ms[:2] + ms[-1:], analyse)
    except facts.Broken as e:
        rep.analysis_broken(str(e))
    return rep.finish()

"""C29 -- lock-free union-find: structural necessary conditions of the CAS protocol
(DESIGN.md section C29): CAS-only mutation from a value loaded from the same cell; root-only
linking; link direction by the (rank, index) order (order abstraction, all 9 orderings);
path halving preserves the rank; sameSet re-checks root-ness; block packing helpers agree."""
import os
from engine import facts, pathflow, atomics, mutate
from engine.facts import kids, walk, strip, is_call, call_args, call_obj, expr_key
from engine.report import Report
from props.parallel_guard import guarded_by, not_guarded_by

TU = os.path.join(facts.VERIF, 'tu', 'ds_instances.cpp')
HDR = 'src/include/souffle/datastructure/UnionFind.h'
ALL3 = frozenset('<=>')
FLIP = {'<': '>', '>': '<', '=': '='}


def cell_ops(f):
    """atomic accesses to union-find cells: objects reached through get(..) / a_blocks.get(..)"""
    out = []
    for a in atomics.atomic_ops_in(f.body):
        k = a.get('objkey') or ''
        if '.get(' in k or k.startswith('get('):
            out.append(a)
    return out


def rule_cas_only(rep, ds):
    n = 0
    for f in ds:
        ops = cell_ops(f)
        for a in ops:
            n += 1
            where = f.loc(a['node'])
            if a['kind'] == 'load':
                continue
            if a['kind'] == 'store':
                ok = f.name == 'makeNode'
                rep.ob('R1-cas-only-mutation', 'DisjointSet::%s/store' % f.name, ok, where,
                       '' if ok else 'plain store to a union-find cell outside makeNode (a concurrent link would be overwritten)')
                continue
            if a['kind'] == 'cas':
                exp = strip(a['expected'], casts=True)
                ok = exp['k'] == 'DeclRefExpr' and exp.get('dk') in ('Local',)
                det = 'the expected operand of the CAS is not a local snapshot'
                if ok:
                    decl = [vd for vd in walk(f.body) if vd['k'] == 'VarDecl' and vd.get('did') == exp['did']]
                    src = None
                    if decl and kids(decl[0]):
                        init = strip(kids(decl[0])[0], casts=True)
                        sa = atomics.atomic_op(init)
                        if sa is not None and sa['kind'] == 'load':
                            src = sa['objkey']
                        elif is_call(init, 'get'):
                            src = expr_key(init)
                    ok = src is not None and src.replace('this->', '') == a['objkey'].replace('this->', '')
                    det = 'the CAS on %s expects `%s`, which was loaded from %s' % (a['objkey'], exp.get('name'), src)
                rep.ob('R1-cas-expected-from-same-cell', 'DisjointSet::%s/cas' % f.name, ok, where, '' if ok else det)
                ok2 = a['op'] == 'compare_exchange_strong'
                rep.ob('R1-cas-strong', 'DisjointSet::%s/cas' % f.name, ok2, where,
                       '' if ok2 else 'compare_exchange_weak may fail spuriously; the callers treat failure as interference')
                continue
            rep.ob('R1-cas-only-mutation', 'DisjointSet::%s/%s' % (f.name, a['kind']), False, where,
                   'union-find cell modified by %s %s; only compare_exchange may change a published cell' % (a['kind'], a.get('op')))
    return n


def rule_update_root(rep, ds):
    fs = [f for f in ds if f.name == 'updateRoot']
    if not fs:
        rep.analysis_broken('DisjointSet::updateRoot not found')
        return
    f = fs[0]
    cas = [a for a in cell_ops(f) if a['kind'] == 'cas']
    if len(cas) != 1:
        rep.analysis_broken('updateRoot: expected exactly one CAS, found %d' % len(cas))
        return
    c = cas[0]['node']
    p = [x['name'] for x in f.d['params']]
    # snapshot variables
    snap = {}
    for vd in walk(f.body):
        if vd['k'] == 'VarDecl' and kids(vd):
            i = strip(kids(vd)[0], casts=True)
            if is_call(i, 'b2p'):
                snap[vd['name']] = 'parent'
            elif is_call(i, 'b2r'):
                snap[vd['name']] = 'rank'

    def cmp_of(core, what, param_idx):
        if core['k'] != 'BinaryOperator' or core.get('op') not in ('!=', '=='):
            return False
        a, b = [strip(x, casts=True) for x in kids(core)]
        names = {a.get('name'), b.get('name')}

        def is_snap(x):      # a snapshot local, or the projection call written in place
            return snap.get(x.get('name')) == what or is_call(x, 'b2p' if what == 'parent' else 'b2r')
        return (is_snap(a) or is_snap(b)) and p[param_idx] in names and core['op'] == '!='
    ok1 = not_guarded_by(f, c, lambda core: cmp_of(core, 'parent', 0))
    rep.ob('R2-link-only-roots', 'DisjointSet::updateRoot/parent-is-self', ok1, f.loc(c),
           '' if ok1 else 'the linking CAS is reachable although the snapshot does not say parent == x (a non-root would be re-linked: cycles)')
    ok2 = not_guarded_by(f, c, lambda core: cmp_of(core, 'rank', 1))
    rep.ob('R2-link-only-roots', 'DisjointSet::updateRoot/rank-unchanged', ok2, f.loc(c),
           '' if ok2 else 'the linking CAS is reachable although the snapshot rank differs from the rank the caller compared')
    # the CAS result is the function result
    par = f.parent(c)
    while par is not None and par['k'] in facts.TRANSPARENT:
        par = f.parent(par)
    ok3 = par is not None and par['k'] == 'ReturnStmt'
    rep.ob('R2-cas-result-returned', 'DisjointSet::updateRoot', ok3, f.loc(c), '' if ok3 else 'the outcome of the linking CAS is not reported to the caller')
    # new value = pr2b(y, newrank)
    newv = strip(cas[0]['operand'], casts=True)
    ok4 = False
    if newv['k'] == 'DeclRefExpr':
        d = [vd for vd in walk(f.body) if vd['k'] == 'VarDecl' and vd.get('did') == newv.get('did')]
        if d and kids(d[0]):
            i = strip(kids(d[0])[0], casts=True)
            if is_call(i, 'pr2b'):
                args = [strip(x, casts=True).get('name') for x in call_args(i)]
                ok4 = args == [p[2], p[3]]
    rep.ob('R2-new-block', 'DisjointSet::updateRoot', ok4, f.loc(c), '' if ok4 else 'the block written is not pr2b(new root, new rank)')


class OrderClient(pathflow.Client):
    """order abstraction for unionNodes: relations x?y and xrank?yrank as subsets of {<,=,>}"""

    def __init__(self, func, idx, rank):
        self.idx, self.rank = idx, rank        # (name_a, name_b) pairs
        self.calls = []                         # (node, relation-sets at the call)
        self.unknown_cond = []

    def initial(self, func):
        return (ALL3, ALL3, False)              # rel(x,y), rel(xrank,yrank), linked?

    def _pair(self, names):
        if set(names) == set(self.idx):
            return 0, names[0] == self.idx[0]
        if set(names) == set(self.rank):
            return 1, names[0] == self.rank[0]
        return None, None

    def transfer(self, st, n, func):
        k = n.get('k')
        if k is None:
            return [st]
        rx, rr, linked = st
        if is_call(n, 'swap'):
            names = [strip(a, casts=True).get('name') for a in call_args(n)]
            which, _ = self._pair(names)
            if which == 0:
                rx = frozenset(FLIP[r] for r in rx)
            elif which == 1:
                rr = frozenset(FLIP[r] for r in rr)
            return [(rx, rr, linked)]
        if k == 'BinaryOperator' and n['op'] == '=':
            l = strip(kids(n)[0], casts=True)
            if l.get('name') in self.idx:
                return [(ALL3, rr, False)]      # a new round: representatives recomputed
            if l.get('name') in self.rank:
                return [(rx, ALL3, linked)]
        if k == 'DeclStmt':
            for vd in kids(n):
                if vd.get('name') in self.rank:
                    rr = ALL3
                if vd.get('name') in self.idx:
                    rx = ALL3
            return [(rx, rr, linked)]
        if is_call(n, 'updateRoot'):
            self.calls.append((n, rx, rr, linked))
            return [(rx, rr, True)]
        return [st]

    def branch(self, st, cond, truth, func, tk):
        rx, rr, linked = st
        c = strip(cond, casts=True)
        neg = False
        while c['k'] == 'UnaryOperator' and c.get('op') == '!':
            neg = not neg
            c = strip(kids(c)[0], casts=True)
        if c['k'] == 'CXXBoolLiteralExpr':
            return st if bool(c['val']) == (truth != neg) else None
        if is_call(c, 'updateRoot'):
            return st
        if c['k'] == 'BinaryOperator' and c.get('op') in ('<', '>', '<=', '>=', '==', '!='):
            a, b = [strip(x, casts=True) for x in kids(c)]
            if a['k'] == 'DeclRefExpr' and b['k'] == 'DeclRefExpr':
                which, straight = self._pair([a['name'], b['name']])
                if which is not None:
                    sat = {'<': '<', '>': '>', '<=': '<=', '>=': '>=', '==': '=', '!=': '<>'}[c['op']]
                    allowed = frozenset(sat)
                    if not straight:
                        allowed = frozenset(FLIP[r] for r in allowed)
                    if (truth != neg) is False:
                        allowed = ALL3 - allowed
                    cur = rx if which == 0 else rr
                    new = cur & allowed
                    if not new:
                        return None
                    return (new, rr, linked) if which == 0 else (rx, new, linked)
        self.unknown_cond.append(expr_key(c))
        return st


def rule_link_direction(rep, ds):
    fs = [f for f in ds if f.name == 'unionNodes']
    if not fs:
        rep.analysis_broken('DisjointSet::unionNodes not found')
        return
    f = fs[0]
    pn = [x['name'] for x in f.d['params']]
    ranks = [vd['name'] for vd in walk(f.body) if vd['k'] == 'VarDecl' and kids(vd) and is_call(strip(kids(vd)[0], casts=True), 'b2r')]
    if len(pn) != 2 or len(ranks) != 2:
        rep.analysis_broken('unionNodes: could not identify the two indices / two ranks')
        return
    # which rank belongs to which index: b2r(get(<idx>))
    rank_of = {}
    for vd in walk(f.body):
        if vd['k'] == 'VarDecl' and vd.get('name') in ranks:
            names = [m.get('name') for m in walk(vd) if m['k'] == 'DeclRefExpr' and m.get('name') in pn]
            if names:
                rank_of[names[0]] = vd['name']
    if set(rank_of) != set(pn):
        rep.analysis_broken('unionNodes: rank variables are not b2r(get(x)) / b2r(get(y))')
        return
    cl = OrderClient(f, (pn[0], pn[1]), (rank_of[pn[0]], rank_of[pn[1]]))
    res = pathflow.run(f, cl)
    if cl.unknown_cond:
        rep.analysis_broken('unionNodes: branch conditions outside the order abstraction: %s' % sorted(set(cl.unknown_cond))[:3])
        return
    nlink = nbump = 0
    seen = set()
    for (n, rx, rr, linked) in cl.calls:
        args = [strip(a, casts=True) for a in call_args(n)]
        names = [a.get('name') if a['k'] == 'DeclRefExpr' else expr_key(a) for a in args]
        key = (n['id'], rx, rr, linked)
        if key in seen:
            continue
        seen.add(key)
        if not linked:
            nlink += 1
            # updateRoot(a, arank, b, brank): need (arank, a) < (brank, b) for every ordering reaching the call
            ok = len(names) == 4 and names[0] in pn and names[2] in pn and names[0] != names[2] and \
                names[1] == rank_of.get(names[0]) and names[3] in rank_of.values()
            det = 'updateRoot arguments %s are not (x, rank of x, y, a rank)' % names
            if ok:
                # R6: the order (rank, index) keeps links acyclic only if a rank that is COMPARED is the node's own.  updateRoot stores its 4th
                # argument as the rank field of the node that stops being a root; unionNodes may later read that field through a stale
                # index (findNode returned it as a root, another thread linked it since).  So either the child keeps its own rank, or the
                # ranks that are compared come from blocks that are checked to be roots (b2p(block) == index) before the link.
                keeps = names[3] == rank_of.get(names[0]) or rr == frozenset('=')
                validated = True
                for v, rv in rank_of.items():
                    vd = [d for d in walk(f.body) if d['k'] == 'VarDecl' and d.get('name') == rv][0]
                    src = [a for a in call_args(strip(kids(vd)[0], casts=True))]
                    blk = strip(src[0], casts=True) if src else None
                    if blk is None or blk['k'] != 'DeclRefExpr' or not any(
                            m['k'] == 'BinaryOperator' and m.get('op') in ('==', '!=') and
                            any(is_call(strip(o, casts=True), 'b2p') and any(q.get('did') == blk.get('did') for q in walk(o) if q['k'] == 'DeclRefExpr') for o in kids(m)) and
                            any(strip(o, casts=True).get('name') == v for o in kids(m))
                            for m in walk(f.body)):
                        validated = False
                ok6 = keeps or validated
                rep.ob('R6-compared-ranks-are-the-nodes-own', 'DisjointSet::unionNodes/link[%s]' % ''.join(sorted(rr)), ok6, f.loc(n),
                       '' if ok6 else 'the node linked under the new root gets the NEW ROOT\'s rank (%s) as its rank field, and unionNodes compares b2r(get(.)) of indices that '
                       'are not re-checked to be roots: a stale index shows an inflated rank, the (rank, index) order is broken and two concurrent unions '
                       'can link x under y and y under x' % names[3])
            if ok:
                straight = names[0] == pn[0]
                rxx = rx if straight else frozenset(FLIP[r] for r in rx)
                rrr = rr if straight else frozenset(FLIP[r] for r in rr)
                bad = []
                for r_rank in sorted(rrr):
                    for r_idx in sorted(rxx):
                        lex_less = r_rank == '<' or (r_rank == '=' and r_idx == '<')
                        if not lex_less:
                            bad.append('rank %s, index %s' % (r_rank, r_idx))
                ok = not bad
                det = 'the old root is linked under the new one although (rank, index) of the old root is not smaller for ordering(s): %s ' \
                      '(breaks the order that keeps parent links acyclic)' % bad
            rep.ob('R3-link-direction', 'DisjointSet::unionNodes/link[%s|%s]' % (''.join(sorted(rr)), ''.join(sorted(rx))), ok, f.loc(n), '' if ok else det)
        else:
            nbump += 1
            # rank bump: only on the equal-rank path, on the new root, by one
            ok = rr == frozenset('=')
            a3 = args[3] if len(args) == 4 else None
            bump = a3 is not None and strip(a3, casts=True)['k'] == 'BinaryOperator' and strip(a3, casts=True)['op'] == '+'
            ok = ok and len(names) == 4 and names[0] == names[2] and bump
            rep.ob('R3-rank-bump', 'DisjointSet::unionNodes/bump[%s]' % ''.join(sorted(rr)), ok, f.loc(n),
                   '' if ok else 'the rank is bumped on a path where the ranks are %s, or not on the new root, or not by +1' % sorted(rr))
    rep.floor('R3-link-direction', nlink, 1)
    rep.floor('R3-rank-bump', nbump, 1)
    # the failed link is retried: the first updateRoot's result guards `continue`
    first = [n for (n, rx, rr, l) in cl.calls if not l]
    if first:
        par = f.parent(first[0])
        while par is not None and par['k'] in facts.TRANSPARENT + ('UnaryOperator',):
            par = f.parent(par)
        ok = par is not None and par['k'] in ('IfStmt', 'WhileStmt', 'DoStmt')
        rep.ob('R2-link-retried', 'DisjointSet::unionNodes', ok, f.loc(first[0]), '' if ok else 'the result of updateRoot is ignored: a lost race would silently drop the union')
    rep.extra['order_states'] = res.nstates


def rule_find(rep, ds):
    fs = [f for f in ds if f.name == 'findNode']
    if not fs:
        rep.analysis_broken('DisjointSet::findNode not found')
        return
    f = fs[0]
    cas = [a for a in cell_ops(f) if a['kind'] == 'cas']
    for a in cas:
        newv = strip(a['operand'], casts=True)
        exp = strip(a['expected'], casts=True)
        ok = False
        det = 'the halving CAS does not write pr2b(grandparent, rank of the snapshot)'
        if newv['k'] == 'DeclRefExpr':
            d = [vd for vd in walk(f.body) if vd['k'] == 'VarDecl' and vd.get('did') == newv.get('did')]
            if d and kids(d[0]):
                i = strip(kids(d[0])[0], casts=True)
                if is_call(i, 'pr2b') and len(call_args(i)) == 2:
                    r = strip(call_args(i)[1], casts=True)
                    ok = is_call(r, 'b2r') and strip(call_args(r)[0], casts=True).get('did') == exp.get('did')
                    # parent argument: b2p(get(b2p(snapshot)))
                    pa = strip(call_args(i)[0], casts=True)
                    if ok and pa['k'] == 'DeclRefExpr':
                        pd = [vd for vd in walk(f.body) if vd['k'] == 'VarDecl' and vd.get('did') == pa.get('did')]
                        k = expr_key(kids(pd[0])[0]) if pd and kids(pd[0]) else ''
                        ok = k.startswith('b2p(') and 'b2p(' + exp.get('name', '?') + ')' in k
                        det = 'the new parent is %s, not the snapshot\'s grandparent' % k
        rep.ob('R4-halving-preserves-rank', 'DisjointSet::findNode', ok, f.loc(a['node']), '' if ok else det)
    rep.floor('R4-halving-preserves-rank', len(cas), 1)


def rule_sameset(rep, ds):
    fs = [f for f in ds if f.name == 'sameSet']
    if not fs:
        rep.analysis_broken('DisjointSet::sameSet not found')
        return
    f = fs[0]
    rets = [r for r in f.walk() if r['k'] == 'ReturnStmt' and kids(r)]
    p = [x['name'] for x in f.d['params']]
    for r in rets:
        v = strip(kids(r)[0], casts=True)
        if v['k'] == 'CXXBoolLiteralExpr' and v['val'] == 0:
            # `return false` must be guarded by a root check  b2p(get(x)) == x  after the finds
            # the representative to re-check is the one found FIRST: only it can have been linked under another root
            # while the second find was running (if it is still a root, the two finds saw different roots at one instant)
            finds = sorted([m for m in f.walk() if m['k'] == 'BinaryOperator' and m['op'] == '=' and is_call(strip(kids(m)[1], casts=True), 'findNode')],
                           key=lambda m: m['id'])
            first = strip(kids(finds[0])[0], casts=True).get('name') if finds else None

            def is_root_check(core):
                if core['k'] != 'BinaryOperator' or core['op'] != '==':
                    return False
                ks = [expr_key(x) for x in kids(core)]
                return any(k.startswith('b2p(get(%s' % first) for k in ks) and first in ks
            ok, _ = guarded_by(f, r, is_root_check)
            rep.ob('R5-sameset-rechecks-root', 'DisjointSet::sameSet/return-false', ok, f.loc(r),
                   '' if ok else '`false` is returned without re-checking that the first representative is still a root (a concurrent union '
                   'between the two finds would give a wrong negative)')
        if v['k'] == 'CXXBoolLiteralExpr' and v['val'] == 1:
            def is_eq(core):
                if core['k'] != 'BinaryOperator' or core['op'] != '==':
                    return False
                return {strip(x, casts=True).get('name') for x in kids(core)} == set(p)
            ok, _ = guarded_by(f, r, is_eq)
            rep.ob('R5-sameset-true-iff-equal-roots', 'DisjointSet::sameSet/return-true', ok, f.loc(r), '' if ok else '`true` returned without x == y')
    loops = [n for n in f.walk() if n['k'] in ('WhileStmt', 'DoStmt', 'ForStmt')]
    rep.ob('R5-sameset-retries', 'DisjointSet::sameSet', bool(loops), f.where, '' if loops else 'no retry loop')


def rule_packing(rep, ds, u):
    """b2p / b2r / pr2b agree on split_size; rank_mask = (1 << split_size) - 1"""
    byname = {f.name: f for f in ds}
    sh = {}
    for name in ('b2p', 'pr2b'):
        f = byname.get(name)
        if f is None:
            rep.analysis_broken('DisjointSet::%s not found' % name)
            return
        ops = [n for n in f.walk() if n['k'] == 'BinaryOperator' and n['op'] in ('<<', '>>')]
        vals = []
        for o in ops:
            r = kids(o)[1]
            v = [m.get('cv') for m in walk(r) if 'cv' in m] or [m.get('val') for m in walk(r) if m['k'] == 'IntegerLiteral']
            vals.append((o['op'], int(v[0]) if v else None))
        sh[name] = vals
    ok = len(sh['b2p']) == 1 and len(sh['pr2b']) == 1 and sh['b2p'][0][0] == '>>' and sh['pr2b'][0][0] == '<<' and \
        sh['b2p'][0][1] == sh['pr2b'][0][1] and sh['b2p'][0][1] is not None
    rep.ob('R5-block-packing', 'DisjointSet::b2p~pr2b', ok, byname['b2p'].where, '' if ok else 'shift amounts differ: %s' % sh)
    f = byname.get('b2r')
    if f is None:
        rep.analysis_broken('DisjointSet::b2r not found')
        return
    masks = [int(m['cv']) for n in f.walk() if n['k'] == 'BinaryOperator' and n['op'] == '&' for m in walk(n) if 'cv' in m]
    sz = sh['b2p'][0][1] if sh['b2p'] else None
    ok = bool(masks) and sz is not None and masks[0] == (1 << sz) - 1
    rep.ob('R5-block-packing', 'DisjointSet::b2r-mask', ok, f.where, '' if ok else 'rank mask %s is not (1 << %s) - 1' % (masks, sz))


MUTANTS = [
    ('union-link-direction-flipped', 'if (xrank > yrank || ((xrank == yrank) && x > y)) {', 'if (xrank > yrank || ((xrank == yrank) && x < y)) {', 'R3'),
    ('union-rank-only', 'if (xrank > yrank || ((xrank == yrank) && x > y)) {', 'if (xrank > yrank) {', 'R3'),
    ('linked-node-gets-the-new-roots-rank', 'if (!updateRoot(x, xrank, y, xrank)) {', 'if (!updateRoot(x, xrank, y, yrank)) {', 'R6'),
    ('union-no-retry', '''            if (!updateRoot(x, xrank, y, xrank)) {
                continue;
            }''', '''            updateRoot(x, xrank, y, xrank);''', 'R2'),
    ('updateRoot-skips-root-check', 'if (nextN != x || rankN != oldrank) return false;', 'if (rankN != oldrank) return false;', 'R2'),
    ('find-plain-store', 'this->get(x).compare_exchange_strong(xState, newState);', 'this->get(x).store(newState);', 'R1'),
    ('find-drops-rank', 'block_t newState = pr2b(newParent, b2r(xState));', 'block_t newState = pr2b(newParent, 0);', 'R4'),
    ('find-cas-on-stale-cell', '''            block_t xState = get(x);
            // yield x's parent's parent''', '''            block_t xState = get(b2p(get(x)));
            // yield x's parent's parent''', 'R'),
    ('sameset-no-recheck', '''            if (b2p(get(x)) == x) return false;
        }''', '''            return false;
        }''', 'R5'),
    ('sameset-rechecks-second-root', '            if (b2p(get(x)) == x) return false;', '            if (b2p(get(y)) == y) return false;', 'R5'),
    ('bump-always', '''            if (xrank == yrank) {
                updateRoot(y, yrank, y, yrank + 1);
            }''', '''            updateRoot(y, yrank, y, yrank + 1);''', 'R3'),
]


def analyse(rep):
    u, = facts.extract([(TU, r'datastructure/UnionFind\.h$', r'DisjointSet::')])
    rep.add_units([u])
    ds = [f for f in u.functions if f.d.get('cls') == 'DisjointSet' and not f.is_lambda]
    n = rule_cas_only(rep, ds)
    rep.floor('R1-cell-accesses', n, 8)
    rule_update_root(rep, ds)
    rule_link_direction(rep, ds)
    rule_find(rep, ds)
    rule_sameset(rep, ds)
    rule_packing(rep, ds, u)


def run(tier='quick'):
    rep = Report('C29', tier)
    rep.explanation = ('static analysis of DisjointSet: inventory of every atomic access to a union-find cell (CAS-only mutation, expected value '
                       'loaded from the same cell), dominance rules in updateRoot / sameSet, an order abstraction of unionNodes that enumerates '
                       'all orderings of (x,y) and (xrank,yrank) reaching the link (exhaustive: 9 orderings; the rank stored in a linked node is its own, or '
                       'compared ranks come from blocks validated to be roots), path-halving term check, and '
                       'constant-folded block packing.')
    rep.assumptions = ['linearizability over all interleavings is NOT decided (model checking, outside the family); these are the structural '
                       'necessary conditions of the CAS protocol']
    try:
        analyse(rep)
        ms = [mutate.Mutant(n, HDR, o, w, e) for (n, o, w, e) in MUTANTS]
        mutate.run_mutants(rep, 'C29', ms if tier == 'thorough' else ms[:4], analyse)
    except facts.Broken as e:
        rep.analysis_broken(str(e))
    rep.exhaustive = True
    return rep.finish()

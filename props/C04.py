"""C04 -- optional AST optimisations preserve results.  Structural clause decided here: NO RELATION WITH AN
OUTPUT (or input) DIRECTIVE IS EVER OPTIMISED AWAY.  Every place where an optional transformer eliminates a
relation (Program::removeRelation; the existential reduction, which replaces a relation by a nullary one) is
a sink; the relation reaching the sink must provably not be IO:

  protected(e @ sink)  :=  for every variable e is computed from
      - a relation enumerated from Program::getRelations():   the sink is only reachable through the FALSE edge
        of IOTypeAnalysis::isIO/isOutput(rel)  (CFG edge-removal dominance),  or through the "not a member"
        edge of a test against a collection X with  covers_io(X);
      - an element of a local collection X:  every insertion into X is itself protected (recursively);
      - the result set of RedundantRelationsAnalysis:  decided in RedundantRelationsAnalysis::run the same way.
  covers_io(X)  :=  some insertion into X happens for EVERY relation r with isIO/isOutput(r): inside the loop over
      all relations, conditional on that test alone;  or unconditionally for every element of a collection Y
      (range-for / work-list / Graph::visit closure) with covers_io(Y).

Also R0: IOTypeAnalysis itself records output and printsize directives as output, and isIO includes isOutput.
Nothing here decides that the rewrites preserve the CONTENTS of the surviving relations."""
import os, re, glob
from engine import facts, mutate, pathflow
from engine.facts import kids, walk, strip, is_call, call_args, call_obj, expr_key
from engine.report import Report
from props.parallel_guard import cond_blocks, reach_without

T = 'src/ast/transform/'
UNITS = [(T + 'MinimiseProgram.cpp', r'transform/MinimiseProgram\.cpp$', r'reduceSingletonRelations|areEquivalentRelations'),
         (T + 'RemoveEmptyRelations.cpp', r'transform/RemoveEmptyRelations\.cpp$', r'::removeEmptyRelations$'),
         (T + 'RemoveRelationCopies.cpp', r'transform/RemoveRelationCopies\.cpp$', r'::removeRelationCopies$'),
         (T + 'RemoveRedundantRelations.cpp', r'transform/RemoveRedundantRelations\.cpp$', r'::transform$'),
         (T + 'ReduceExistentials.cpp', r'transform/ReduceExistentials\.cpp$', r'ReduceExistentialsTransformer::transform$'),
         ('src/ast/analysis/RedundantRelations.cpp', r'analysis/RedundantRelations\.cpp$', r'RedundantRelationsAnalysis::run$'),
         ('src/ast/analysis/IOType.cpp', r'analysis/IOType\.(cpp|h)$', r'IOTypeAnalysis::')]
IO_PREDS = ('isIO', 'isOutput')
INSERTS = ('insert', 'emplace', 'push_back', 'emplace_back', 'insert_or_assign', 'try_emplace')
COLL_RE = re.compile(r'(unordered_map|unordered_set|std::map|std::set|std::vector|QualifiedNameMap|QualifiedNameSet|RelationSet)\b')
IRRELEVANT_T = re.compile(r'^(const )?(souffle::ast::(Program|TranslationUnit)|souffle::ast::analysis::\w+Analysis|unsigned long|std::size_t|int|unsigned int|bool|'
                          r'std::basic_stringstream<char>|std::(__cxx11::)?basic_string<char>)\b')
JUMPS = ('ContinueStmt', 'BreakStmt', 'ReturnStmt', 'GotoStmt', 'CXXThrowExpr')
CONDITIONALS = ('IfStmt', 'ConditionalOperator', 'SwitchStmt', 'WhileStmt', 'ForStmt', 'DoStmt', 'CXXForRangeStmt', 'CXXTryStmt')


class NotUnderstood(Exception):
    pass


def refs(e):
    return [m for m in walk(e) if m['k'] == 'DeclRefExpr' and m.get('dk') in ('Local', 'Parm', 'Binding')]


def is_io_call(core, did):
    core = strip(core, casts=True)
    if core.get('k') != 'CXXMemberCallExpr' or core.get('cn') not in IO_PREDS or core.get('cc') != 'IOTypeAnalysis':
        return False
    return any(r.get('did') == did for a in call_args(core) for r in refs(a))


class Flow:
    """flow-insensitive provenance of local variables inside one function (lambdas' bodies included: they are in the tree)"""

    def __init__(self, f):
        self.f = f
        self.decl = {}
        self.assigned = {}       # did -> [rhs]
        self.loopsrc = {}        # loop variable did -> (for node, range expression)
        self.unnamed_for = []    # (for node, range expr) of structured-binding loops
        self.inserts = {}        # collection key -> [(node, [inserted exprs])]
        for n in f.walk():
            k = n['k']
            if k == 'VarDecl':
                self.decl[n['did']] = n
            elif k == 'CXXForRangeStmt':
                ks = kids(n)
                rng = kids(kids(ks[0])[0])
                lv = kids(ks[5])[0]
                if lv.get('name'):
                    self.loopsrc[lv['did']] = (n, rng[0] if rng else None)
                else:
                    self.unnamed_for.append((n, rng[0] if rng else None))
            elif (k == 'BinaryOperator' and n.get('op') == '=') or (k == 'CXXOperatorCallExpr' and n.get('op') == '='):
                l, r = (kids(n) if k == 'BinaryOperator' else call_args(n))[:2]
                ls = strip(l, casts=True)
                if ls['k'] == 'CXXOperatorCallExpr' and ls.get('op') == '[]':      # X[k] = v
                    a = call_args(ls)
                    key = self.coll_key(a[0])
                    if key:
                        self.inserts.setdefault(key, []).append((n, [a[1], r]))
                        continue
                base = ls
                while base['k'] == 'MemberExpr' and kids(base):
                    base = strip(kids(base)[0], casts=True)
                if base['k'] == 'DeclRefExpr' and base.get('did') is not None:
                    self.assigned.setdefault(base['did'], []).append(r)
            elif k == 'CXXMemberCallExpr' and n.get('cn') in INSERTS:
                key = self.coll_key(call_obj(n))
                if key:
                    self.inserts.setdefault(key, []).append((n, call_args(n)))

    def coll_key(self, e):
        if e is None:
            return None
        e = strip(e, casts=True)
        if e['k'] == 'DeclRefExpr' and COLL_RE.search(e.get('t', '')):
            return ('var', e['did'], e.get('name'))
        if e['k'] == 'MemberExpr' and kids(e) and strip(kids(e)[0], casts=True)['k'] == 'CXXThisExpr' and COLL_RE.search(e.get('t', '')):
            return ('member', e.get('member'), e.get('member'))
        return None

    def range_root(self, rng, did):
        """what a range-for enumerates"""
        if rng is None:
            raise NotUnderstood('range-for without a range expression')
        r = strip(rng, casts=True)
        while r['k'] in ('ExprWithCleanups', 'MaterializeTemporaryExpr', 'CXXBindTemporaryExpr') and kids(r):
            r = strip(kids(r)[0], casts=True)
        if is_call(r, 'getRelations'):
            return [('rel', did)]
        if r['k'] == 'DeclRefExpr':
            vd = self.decl.get(r.get('did'))
            if vd is not None and kids(vd) and is_call(strip(kids(vd)[0], casts=True), 'getRelations'):
                return [('rel', did)]
        if is_call(r, 'getRedundantRelations'):
            return [('ext', 'RedundantRelationsAnalysis::redundantRelations')]
        return self.roots(r)

    def roots(self, e, seen=None):
        seen = set() if seen is None else seen
        out = []
        for d in refs(e):
            did = d.get('did')
            if ('v', did) in seen:
                continue
            seen.add(('v', did))
            t = d.get('t', '')
            if IRRELEVANT_T.match(t):
                continue
            if did in self.loopsrc:
                out += self.range_root(self.loopsrc[did][1], did)
                for r in self.assigned.get(did, []):
                    out += self.roots(r, seen)
                continue
            if d.get('dk') == 'Binding':
                encl = [fr for fr in self.unnamed_for if any(x is d for x in walk(kids(fr[0])[6]))]
                if not encl:
                    raise NotUnderstood('structured binding `%s` outside a range-for' % d.get('name'))
                out += self.range_root(encl[-1][1], did)
                continue
            key = self.coll_key(d)
            if key:
                out.append(('coll', key))
                vd = self.decl.get(did)
                if vd is not None and kids(vd):
                    init = strip(kids(vd)[0], casts=True)
                    if is_call(init, 'getRelations'):
                        out[-1] = ('allrels', did)
                    elif not (init['k'] == 'CXXConstructExpr' and not call_args(init)):
                        out += self.roots(init, seen)
                continue
            vd = self.decl.get(did)
            if vd is None:
                if d.get('dk') == 'Parm':
                    raise NotUnderstood('value flows in from parameter `%s`' % d.get('name'))
                raise NotUnderstood('no declaration for `%s`' % d.get('name'))
            for r in kids(vd)[:1] + self.assigned.get(did, []):
                out += self.roots(r, seen)
        return out


def membership(core):
    """(collection expr, tested expr, core-true-means-member) for the membership idioms"""
    core = strip(core, casts=True)
    while core.get('k') == 'ParenExpr':
        core = strip(kids(core)[0], casts=True)
    k = core.get('k')
    if k in ('BinaryOperator', 'CXXOperatorCallExpr') and core.get('op') in ('==', '!=', '>'):
        l, r = (kids(core) if k == 'BinaryOperator' else call_args(core))[:2]
        l, r = strip(l, casts=True), strip(r, casts=True)
        if is_call(l, 'count') and (r.get('cv') == 0 or str(r.get('val')) == '0'):
            return call_obj(l), call_args(l)[0], core['op'] != '=='
        if is_call(l, 'find') and is_call(r, 'end'):
            return call_obj(l), call_args(l)[0], core['op'] == '!='
    if is_call(core, 'count') and core.get('k') == 'CXXMemberCallExpr':
        return call_obj(core), call_args(core)[0], True
    if is_call(core, 'contains') and len(call_args(core)) == 2:
        return call_args(core)[0], call_args(core)[1], True
    return None


def only_via_edge(f, node, edge_pred):
    """is `node` reachable only through an edge selected by edge_pred(core) -> None | True (true edge) | False (false edge)?"""
    tb = pathflow.block_of(f, node['id'])
    if tb is None:
        raise NotUnderstood('%s: sink is not in the function\'s own CFG (inside a lambda?)' % f.loc(node))
    for b, c, core, neg in cond_blocks(f):
        want = edge_pred(core)
        if want is None:
            continue
        # the edge to KEEP is the one where core evaluates to `want`; remove it and see if the sink is still reachable
        core_true_succ, core_false_succ = (b['s'][1], b['s'][0]) if neg else (b['s'][0], b['s'][1])
        dst = core_true_succ if want else core_false_succ
        if isinstance(dst, int) and not reach_without(f, {(b['b'], dst)}, [tb]):
            return c
    return None


class Prover:
    def __init__(self, rep, f, ext_ok):
        self.rep, self.f, self.fl, self.ext_ok = rep, f, Flow(f), ext_ok
        self.trace = []

    def protected(self, exprs, node, seen=None):
        seen = set() if seen is None else seen
        roots = []
        for e in exprs:
            roots += self.fl.roots(e)
        if not roots:
            raise NotUnderstood('%s: nothing the eliminated relation is computed from was recognised' % self.f.loc(node))
        for r in roots:
            if r[0] == 'rel':
                g = only_via_edge(self.f, node, lambda core: False if is_io_call(core, r[1]) else None)
                if g is not None:
                    self.trace.append('%s: only reached when %s is false' % (self.f.loc(node), expr_key(g)[:60]))
                    continue
                # complement guard: only reached when rel is NOT in X, and X covers all IO relations
                found = False
                for b, c, core, neg in cond_blocks(self.f):
                    m = membership(core)
                    if not m or not any(x.get('did') == r[1] for x in refs(m[1])):
                        continue
                    key = self.fl.coll_key(m[0])
                    if key is None:
                        continue
                    if only_via_edge(self.f, node, lambda cc: (not m[2]) if cc is core else None) is None:
                        continue
                    why = self.covers_io(key, set())
                    if why is None:
                        self.trace.append('%s: guarded by non-membership in `%s`, which holds every IO relation' % (self.f.loc(node), key[2]))
                        found = True
                        break
                    return '%s is eliminated unless it is in `%s`, but %s' % (self.name(r[1]), key[2], why)
                if not found:
                    return 'relation `%s` reaches the elimination at %s without passing a negative isIO/isOutput test' % (self.name(r[1]), self.f.loc(node))
            elif r[0] == 'coll':
                if r[1] in seen:
                    continue
                seen.add(r[1])
                sites = self.fl.inserts.get(r[1], [])
                if r[1][0] != 'var':
                    return 'elements of member collection `%s` are eliminated (not understood)' % r[1][2]
                for n2, ex2 in sites:
                    bad = self.protected(ex2, n2, seen)
                    if bad:
                        return bad
            elif r[0] == 'allrels':
                return 'every relation of the program can reach the elimination at %s' % self.f.loc(node)
            elif r[0] == 'ext':
                if not self.ext_ok.get(r[1]):
                    return 'eliminates the members of %s, which is not shown to exclude IO relations' % r[1]
                self.trace.append('%s: enumerates %s (decided separately)' % (self.f.loc(node), r[1]))
        return None

    def name(self, did):
        vd = self.fl.decl.get(did)
        return vd.get('name') if vd else '?'

    # ---- covers_io ----------------------------------------------------------------------------------
    def between(self, node, top):
        """AST ancestors of node strictly below `top`"""
        out = []
        for a in self.f.ancestors(node):
            if a is top:
                return out
            out.append(a)
        return None

    def no_earlier_jump(self, body, upto):
        """no continue/break/return in the statements of `body` (a loop / lambda body) that precede the one containing `upto`"""
        stmts = kids(body) if body['k'] == 'CompoundStmt' else [body]
        for s in stmts:
            if any(x is upto for x in walk(s)):
                return True
            if any(x['k'] in JUMPS for x in walk(s)):
                return False
        return True

    def covers_io(self, key, seen):
        """None if X (key) provably contains every IO/output relation, else the reason it does not"""
        if key in seen:
            return 'circular'
        seen = seen | {key}
        reasons = []
        for n2, ex2 in self.fl.inserts.get(key, []):
            why = self.insert_covers(n2, ex2, seen)
            if why is None:
                return None
            reasons.append('%s: %s' % (self.f.loc(n2), why))
        return 'no insertion into `%s` is performed for every IO relation (%s)' % (key[2], '; '.join(reasons) or 'no insertions')

    def insert_covers(self, n2, ex2, seen):
        anc = list(self.f.ancestors(n2))
        used = {d.get('did') for e in ex2 for d in refs(e)}
        # (i) inside the loop over all relations, conditional on the IO test alone
        for a in anc:
            if a['k'] == 'CXXForRangeStmt':
                lv = kids(kids(a)[5])[0]
                if lv.get('did') in self.fl.loopsrc and self.is_all_relations(self.fl.loopsrc[lv['did']][1]):
                    if lv['did'] not in used:
                        return 'inserted value is not the enumerated relation'
                    bt = [x for x in self.between(n2, a) if x['k'] in CONDITIONALS]
                    if len(bt) != 1 or bt[0]['k'] != 'IfStmt':
                        return 'not conditional on exactly one test'
                    ifs = bt[0]
                    cond, then = kids(ifs)[0], kids(ifs)[1]
                    if not is_io_call(cond, lv['did']):
                        return 'the condition is not isIO/isOutput of the enumerated relation'
                    if not any(x is n2 for x in walk(then)):
                        return 'insertion is not in the then-branch'
                    if not self.no_earlier_jump(kids(a)[6], ifs) or not self.no_earlier_jump(then, n2):
                        return 'an earlier continue/break/return can skip it'
                    return None
        # (ii) unconditional for every element of a covering collection Y
        # lambda handed to Graph::visit(y, lambda)
        lam = next((a for a in anc if a['k'] == 'LambdaExpr'), None)
        inner_top, enum_node = None, None
        if lam is not None:
            call = next((a for a in self.f.ancestors(lam) if a['k'] == 'CXXMemberCallExpr' and a.get('cn') == 'visit'), None)
            if call is None:
                return 'lambda is not a Graph::visit callback'
            lf = [g for g in self.unit_funcs if g.is_lambda and g.d['did'] == lam.get('lambda_did')]
            pn = {p['name'] for g in lf for p in g.d['params']}
            if not any(d.get('name') in pn and d.get('dk') == 'Parm' for e in ex2 for d in refs(e)):
                return 'inserted value is not the visited vertex'
            if any(x['k'] in CONDITIONALS for x in self.between(n2, lam)) or not self.no_earlier_jump(kids(lam)[0], n2):
                return 'conditional inside the visit callback'
            start = call_args(call)[0]
            used = {d.get('did') for d in refs(start)}
            inner_top, enum_node = call, call
        else:
            enum_node = n2
        anc2 = list(self.f.ancestors(enum_node))
        for a in anc2:
            if a['k'] == 'CXXForRangeStmt':
                lv = kids(kids(a)[5])[0]
                if lv.get('did') not in used:
                    return 'inserted value is not the enumerated element'
                if any(x['k'] in CONDITIONALS for x in self.between(enum_node, a)) or not self.no_earlier_jump(kids(a)[6], enum_node):
                    return 'conditional inside the enumerating loop'
                src = self.fl.coll_key(self.fl.loopsrc[lv['did']][1]) if lv.get('did') in self.fl.loopsrc else None
                if src is None:
                    return 'enumerated range is not a local collection'
                return self.covers_io(src, seen)
            if a['k'] == 'WhileStmt':
                cond = strip(kids(a)[0], casts=True)
                if not (cond['k'] == 'UnaryOperator' and cond.get('op') == '!' and is_call(strip(kids(cond)[0], casts=True), 'empty')):
                    return 'while loop is not a work-list drain'
                src = self.fl.coll_key(call_obj(strip(kids(cond)[0], casts=True)))
                if src is None:
                    return 'work list is not a local collection'
                # inserted value: a local initialised from *src.begin()
                okv = False
                for did in used:
                    vd = self.fl.decl.get(did)
                    if vd is not None and kids(vd) and any(is_call(x, 'begin') and self.fl.coll_key(call_obj(x)) == src for x in walk(kids(vd)[0])):
                        okv = True
                if not okv:
                    return 'inserted value is not the element taken from the work list'
                if any(x['k'] in CONDITIONALS for x in self.between(enum_node, a)) or not self.no_earlier_jump(kids(a)[1], enum_node):
                    return 'conditional inside the work-list loop'
                return self.covers_io(src, seen)
            if a['k'] in CONDITIONALS:
                return 'conditional insertion'
        return 'not inside a loop over the relations or over a covering collection'

    def is_all_relations(self, rng):
        r = strip(rng, casts=True)
        if is_call(r, 'getRelations'):
            return True
        if r['k'] == 'DeclRefExpr':
            vd = self.fl.decl.get(r.get('did'))
            return vd is not None and bool(kids(vd)) and is_call(strip(kids(vd)[0], casts=True), 'getRelations')
        return False


def sinks_of(f):
    """[(label, node, exprs)] the places where f eliminates relations"""
    out = []
    for n in f.walk():
        if n['k'] == 'CXXMemberCallExpr' and n.get('callee') == 'souffle::ast::Program::removeRelation':
            out.append(('removeRelation', n, call_args(n)))
    # existential reduction: the relations enumerated by the loop that adds the replacement relations
    for n in f.walk():
        if n['k'] == 'CXXForRangeStmt' and any(m['k'] == 'CXXMemberCallExpr' and m.get('callee') == 'souffle::ast::Program::addRelation' for m in walk(kids(n)[6])):
            out.append(('replaced-by-existential', n, None))
    return out


def decide_function(rep, u, f, ext_ok, rule='R1-eliminated-relations-are-not-io'):
    n = 0
    for label, node, exprs in sinks_of(f):
        pr = Prover(rep, f, ext_ok)
        pr.unit_funcs = u.functions
        try:
            if exprs is None:         # collection enumerated by the replacing loop: every insertion into it is a sink
                lv = kids(kids(node)[5])[0]
                key = pr.fl.coll_key(pr.fl.loopsrc[lv['did']][1]) if lv.get('did') in pr.fl.loopsrc else None
                if key is None:
                    raise NotUnderstood('%s: replacing loop does not enumerate a local collection' % f.loc(node))
                sites = pr.fl.inserts.get(key, [])
                if not sites:
                    raise NotUnderstood('no insertion into `%s`' % key[2])
                bad = None
                for n2, ex2 in sites:
                    bad = bad or pr.protected(ex2, n2)
            else:
                bad = pr.protected(exprs, node)
        except NotUnderstood as e:
            rep.analysis_broken('C04 %s %s: %s' % (f.name, label, e))
            continue
        n += 1
        rep.ob(rule, '%s/%s@%s' % (f.qname.split('::')[-2] if '::' in f.qname else f.qname, label, f.name), bad is None, f.loc(node),
               bad or '; '.join(pr.trace))
    return n


def rule_redundant_analysis(rep, u):
    """the redundant-relation set excludes IO relations (complement of the backward closure from the outputs)"""
    fs = [f for f in u.functions if f.qname.endswith('RedundantRelationsAnalysis::run') and not f.is_lambda]
    if not fs:
        rep.analysis_broken('RedundantRelationsAnalysis::run not found')
        return False
    f = fs[0]
    pr = Prover(rep, f, {})
    pr.unit_funcs = u.functions
    sites = pr.fl.inserts.get(('member', 'redundantRelations', 'redundantRelations'), [])
    if not sites:
        rep.analysis_broken('no insertion into RedundantRelationsAnalysis::redundantRelations found')
        return False
    ok = True
    for n2, ex2 in sites:
        try:
            bad = pr.protected(ex2, n2)
        except NotUnderstood as e:
            rep.analysis_broken('C04 RedundantRelationsAnalysis::run: %s' % e)
            return False
        rep.ob('R1-eliminated-relations-are-not-io', 'RedundantRelationsAnalysis/redundant-set@run', bad is None, f.loc(n2), bad or '; '.join(pr.trace))
        ok = ok and bad is None
    return ok


def rule_iotype(rep, u):
    run = [f for f in u.functions if f.is_lambda and 'IOTypeAnalysis::run' in f.qname]
    if not run:
        rep.analysis_broken('IOTypeAnalysis::run visitor not found')
        return
    f = run[0]
    sw = [n for n in f.walk() if n['k'] == 'SwitchStmt']
    if len(sw) != 1:
        rep.analysis_broken('IOTypeAnalysis::run: expected one switch over the directive type')
        return
    cur, seen = [], {}
    for s in kids(kids(sw[0])[-1]):
        while s['k'] in ('CaseStmt', 'DefaultStmt'):
            lab = strip(kids(s)[0], casts=True) if s['k'] == 'CaseStmt' else {}
            lab = next((m.get('name') for m in walk(lab) if m.get('dk') == 'EnumConstant'), 'default')
            cur.append(lab)
            s = kids(s)[-1]
        for lab in cur:
            seen.setdefault(lab, set()).update(expr_key(call_obj(m)).split('.')[-1] for m in walk(s) if is_call(m, 'insert') and call_obj(m) is not None)
        if any(m['k'] == 'BreakStmt' for m in walk(s)) or s['k'] in ('BreakStmt', 'ReturnStmt'):
            cur = []
    for lab in ('output', 'printsize'):
        ok = 'outputRelations' in seen.get(lab, set())
        rep.ob('R0-iotype-records-outputs', 'IOTypeAnalysis::run/%s' % lab, ok, f.where,
               '' if ok else 'a .%s directive no longer marks its relation as output (got %s)' % (lab, sorted(seen.get(lab, []))))
    ok = 'inputRelations' in seen.get('input', set())
    rep.ob('R0-iotype-records-outputs', 'IOTypeAnalysis::run/input', ok, f.where, '' if ok else 'a .input directive no longer marks its relation as input')
    io = [g for g in u.functions if g.name == 'isIO' and not g.is_lambda]
    if not io:
        rep.analysis_broken('IOTypeAnalysis::isIO not found')
        return
    called = {m.get('cn') for m in io[0].walk() if is_call(m)}
    ok = {'isOutput', 'isInput'} <= called and all(m.get('op') != '&&' for m in io[0].walk() if m['k'] == 'BinaryOperator')
    rep.ob('R0-iotype-records-outputs', 'IOTypeAnalysis::isIO', ok, io[0].where, '' if ok else 'isIO is no longer the disjunction including isInput and isOutput (calls: %s)' % sorted(x for x in called if x))


def rule_inline_inventory(rep, sc):
    """R3: `inline` is only accepted where inlining preserves results.  SemanticCheckerImpl::checkInlining (with its lambdas) must report
    an error for each category the maintainers (and this verification, for choice-domains) know inlining cannot preserve."""
    main = [f for f in sc.functions if f.name == 'checkInlining' and not f.is_lambda]
    if not main:
        rep.analysis_broken('SemanticCheckerImpl::checkInlining not found')
        return
    fam = [f for f in sc.functions if f is main[0] or (f.is_lambda and '::checkInlining(' in f.qname)]

    def errs(f):
        return [m for m in f.walk() if is_call(m, 'addError')]

    def targs(f, name):
        return {t.split('::')[-1] for m in f.walk() if is_call(m, name) for t in (m.get('ta') or [])}

    def ptype(f):
        return {p['t'].replace('const ', '').strip(' &').split('::')[-1] for p in f.d['params']}
    calls = lambda f: {m.get('cn') for m in f.walk() if is_call(m)}
    own = lambda f: [m for m in f.walk()]          # lambdas nested in f are separate Funcs, but their bodies are also in f's tree
    m0 = main[0]
    cats = [
        ('I1-io-relations', any(errs(f) and 'isIO' in calls(f) for f in [m0]), 'an IO relation must not be inlined'),
        ('I2-choice-domain-relations', any(errs(f) and 'getFunctionalDependencies' in calls(f) for f in [m0]),
         'a relation with a choice-domain must not be inlined: inlining replaces it by its rule bodies and the choice is lost'),
        ('I3-inline-cycles', 'findInlineCycle' in calls(m0) and bool(errs(m0)), 'cyclically dependent inlined relations'),
        ('I4-counter-in-inlined-atom-or-clause', sum(1 for f in fam if f.is_lambda and 'Argument' in ptype(f) and 'Counter' in targs(f, 'isA') and errs(f)) >= 2,
         'the counter `$` inside inlined atoms and inside clauses of inlined relations'),
        ('I5-negated-relation-introducing-variables', any(f.is_lambda and 'Negation' in ptype(f) and errs(f) and
                                                            any(is_call(m, 'find') and 'nonNegatable' in expr_key(call_obj(m)) or
                                                                (is_call(m, 'contains') and 'nonNegatable' in expr_key(m)) for m in f.walk()) for f in fam) or
         any(f.is_lambda and 'Negation' in ptype(f) and errs(f) and any(x.get('name', '').lower().startswith('nonnegat') for x in f.walk() if x['k'] == 'DeclRefExpr') for f in fam),
         'a negated inlined relation whose body introduces new variables'),
        ('I6-inlined-atom-in-aggregator', any(f.is_lambda and 'Atom' in ptype(f) and errs(f) and 'Aggregator' in f.qname for f in fam),
         'an inlined relation used inside an aggregator'),
        ('I7-unnamed-variable-in-negated-inlined-atom', any(f.is_lambda and 'Negation' in ptype(f) and errs(f) and
                                                              any(m['k'] == 'CXXOperatorCallExpr' and m.get('op') == '()' for m in f.walk()) for f in fam) and
         any(f.is_lambda and 'UnnamedVariable' in targs(f, 'isA') for f in fam), 'an unnamed variable in a negated inlined atom'),
    ]
    for name, ok, why in cats:
        rep.ob('R3-inline-exclusion-inventory', name, bool(ok), m0.where, '' if ok else 'checkInlining no longer rejects: ' + why)
    rep.floor('R3-inline-categories', len(cats), 7)


def rule_fd_not_merged(rep, units):
    """R4: transformers that replace one relation by another (alias map + renameAtoms) never do so for relations with functional
    dependencies -- such a relation CHOOSES among its tuples and is not interchangeable with a relation of the same body"""
    n = 0
    for u in units:
        fns = {f.name: f for f in u.functions if not f.is_lambda}
        for f in u.functions:
            if f.is_lambda or not any(is_call(m, 'renameAtoms') for m in f.walk()) or not any(s_[0] == 'removeRelation' for s_ in sinks_of(f)):
                continue
            n += 1
            for what, preds, why in (('choice', ('getFunctionalDependencies',), 'a choice-domain'),
                                     ('lattice', ('getIsLattice', 'getAuxiliaryArity'), 'lattice attributes (one least-upper-bound value per key)')):
                direct = any(is_call(m) and m.get('cn') in preds for m in f.walk())
                via = [g.name for name, g in fns.items() if g is not f and any(is_call(m) and m.get('cn') in preds for m in g.walk())
                       and any(is_call(m, name) for m in f.walk())]
                ok = direct or bool(via)
                rep.ob('R4-%s-relations-never-merged' % what, '%s::%s' % (f.qname.split('::')[-2], f.name), ok, f.where,
                       '' if ok else 'this transformer replaces relations by equivalent ones without excluding relations that have %s: consumers of the '
                       'merged relation see a relation with different semantics' % why)
    rep.floor('R4-merging-transformers', n, 2)


def rule_normalisation_registers(rep, cn):
    """R5: MinimiseProgram decides clause equivalence by searching a bijection between the VARIABLE sets of two normalised clauses and
    by comparing their CONSTANT sets.  Every argument kind must therefore be registered: each return of NormalisedClause::normaliseArgument
    is preceded (in its own branch) by inserting that very name into `variables` or `constants`, or by giving up (fullyNormalised = false)."""
    fs = [f for f in cn.functions if f.name == 'normaliseArgument' and not f.is_lambda]
    if not fs:
        rep.analysis_broken('NormalisedClause::normaliseArgument not found')
        return
    f = fs[0]
    n = 0
    for r in [m for m in f.walk() if m['k'] == 'ReturnStmt' and kids(m)]:
        blk = f.parent(r)
        while blk is not None and blk['k'] != 'CompoundStmt':
            blk = f.parent(blk)
        if blk is None:
            continue
        n += 1
        rv = strip(kids(r)[0], casts=True)
        while rv['k'] in ('ExprWithCleanups', 'MaterializeTemporaryExpr', 'CXXBindTemporaryExpr', 'CXXConstructExpr') and len(kids(rv)) == 1:
            rv = strip(kids(rv)[0], casts=True)
        rkey = expr_key(rv)
        before = []
        for st in kids(blk):
            if any(x is r for x in walk(st)):
                break
            before.append(st)
        reg = None
        for st in before:
            for m in walk(st):
                if is_call(m, 'insert') and expr_key(call_obj(m)).split('.')[-1] in ('variables', 'constants'):
                    a = strip(call_args(m)[0], casts=True)
                    while a['k'] in ('ExprWithCleanups', 'MaterializeTemporaryExpr', 'CXXBindTemporaryExpr', 'CXXConstructExpr') and len(kids(a)) == 1:
                        a = strip(kids(a)[0], casts=True)
                    if expr_key(a) == rkey or (a['k'] == 'StringLiteral' and rv['k'] == 'StringLiteral' and a.get('str') == rv.get('str')):
                        reg = expr_key(call_obj(m)).split('.')[-1]
                if m['k'] == 'BinaryOperator' and m.get('op') == '=' and expr_key(strip(kids(m)[0], casts=True)).split('.')[-1] == 'fullyNormalised':
                    reg = 'gives-up'
        kind = next((t.split('::')[-1] for a in f.ancestors(r) if a['k'] == 'IfStmt' for m in walk(kids(a)[0]) if is_call(m) and m.get('cn') in ('as', 'isA')
                     for t in (m.get('ta') or [])), 'other')
        rep.ob('R5-normalised-arguments-are-registered', 'normaliseArgument/%s' % kind, reg is not None, f.loc(r),
               '' if reg else 'the normalised name of a %s argument (%s) is returned without being registered in `variables`/`constants`: '
               'MinimiseProgram\'s bijection test no longer sees it (e.g. `_` is then matched against a repeated variable)' % (kind, rkey[:40]))
    rep.floor('R5-normalised-argument-kinds', n, 7)


def analyse(rep, everything=False):
    us = facts.extract(UNITS)
    rep.add_units(us)
    by = {os.path.basename(u.src): u for u in us}
    rule_iotype(rep, by['IOType.cpp'])
    ext_ok = {'RedundantRelationsAnalysis::redundantRelations': rule_redundant_analysis(rep, by['RedundantRelations.cpp'])}
    n = 0
    for u in us[:5]:
        fs = [f for f in u.functions if not f.is_lambda and sinks_of(f)]
        if not fs:
            rep.analysis_broken('%s: no relation-eliminating site found (anchor vanished)' % u.src)
        for f in fs:
            n += decide_function(rep, u, f, ext_ok)
    rep.floor('R1-elimination-sites', n, 5)
    rule_fd_not_merged(rep, [by['MinimiseProgram.cpp'], by['RemoveRelationCopies.cpp']])
    sc, = facts.extract([('src/ast/transform/SemanticChecker.cpp', r'transform/SemanticChecker\.cpp$', r'checkInlining')])
    rep.add_units([sc])
    rule_inline_inventory(rep, sc)
    cn, = facts.extract([('src/ast/analysis/ClauseNormalisation.cpp', r'analysis/ClauseNormalisation\.cpp$', r'NormalisedClause::')])
    rep.add_units([cn])
    rule_normalisation_registers(rep, cn)
    if everything:
        # who-may-eliminate: any other transformer reaching Program::removeRelation gets the same obligation
        known = {os.path.basename(x[0]) for x in UNITS}
        others = sorted(p for p in glob.glob(os.path.join(facts.REPO, T, '*.cpp')) if os.path.basename(p) not in known)
        jobs = [(os.path.relpath(p, facts.REPO), r'transform/%s$' % re.escape(os.path.basename(p)), r'.*', None, None, r'removeRelation') for p in others]
        m = 0
        others_u = facts.extract(jobs)
        rep.add_units(others_u)
        for u in others_u:
            for f in u.functions:
                if not f.is_lambda and any(s[0] == 'removeRelation' for s in sinks_of(f)):
                    m += decide_function(rep, u, f, ext_ok, 'R2-no-other-eliminator-unprotected')
        rep.extra['other_transformer_units_scanned'] = len(jobs)
        rep.extra['other_eliminators'] = m


MUTANTS = [
    ('lattice-relations-aliased-to-source', T + 'RemoveRelationCopies.cpp', '''        if (rel->getAuxiliaryArity() > 0) {
            continue;
        }
''', '', 'R4'),
    ('unnamed-variable-not-registered', 'src/ast/analysis/ClauseNormalisation.cpp', '''        name << "@min:unnamed:" << countUnnamed++;
        variables.insert(name.str());''', '''        name << "@min:unnamed:" << countUnnamed++;''', 'R5'),
    ('choice-relations-merged-by-minimise', T + 'MinimiseProgram.cpp', '''    if (!firstRelation->getFunctionalDependencies().empty() ||
            !secondRelation->getFunctionalDependencies().empty()) {
        return false;
    }
''', '', 'R4'),
    ('choice-relations-may-be-inlined', 'src/ast/transform/SemanticChecker.cpp', '''            if (!relation->getFunctionalDependencies().empty()) {
                report.addError("Relation " + toString(relation->getQualifiedName()) +
                                        " with a choice-domain cannot be inlined",
                        relation->getSrcLoc());
            }
''', '', 'R3'),
    ('minimise-considers-io-relations', T + 'MinimiseProgram.cpp', '''        if (ioTypes.isIO(rel)) continue;

        auto clauses = program.getClauses(*rel);''', '''        auto clauses = program.getClauses(*rel);''', 'R1'),
    ('copies-of-output-relations-removed', T + 'RemoveRelationCopies.cpp', 'if (!ioType.isIO(rel) && clauses.size() == 1u) {', 'if (clauses.size() == 1u) {', 'R1'),
    ('empty-output-relation-removed', T + 'RemoveEmptyRelations.cpp', 'if (!usedInAggregate && !ioTypes.isOutput(rel)) {', 'if (!usedInAggregate) {', 'R1'),
    ('existential-io-not-irreducible', T + 'ReduceExistentials.cpp', '''        if (ioType.isIO(relation)) {
            minimalIrreducibleRelations.insert(relation->getQualifiedName());
        }''', '''        if (ioType.isIO(relation) && relation->getArity() > 1) {
            minimalIrreducibleRelations.insert(relation->getQualifiedName());
        }''', 'R1'),
    ('redundant-seeded-conditionally', 'src/ast/analysis/RedundantRelations.cpp', '''        if (ioType.isOutput(r)) {
            work.insert(r);
        }''', '''        if (ioType.isOutput(r) && !program.getClauses(*r).empty()) {
            work.insert(r);
        }''', 'R1'),
    ('printsize-not-output', 'src/ast/analysis/IOType.cpp', '''                printSizeRelations.insert(relation);
                outputRelations.insert(relation);''', '''                printSizeRelations.insert(relation);''', 'R0'),
    ('existential-test-inverted', T + 'ReduceExistentials.cpp',
     'irreducibleRelations.find(relation->getQualifiedName()) == irreducibleRelations.end()) {',
     'irreducibleRelations.find(relation->getQualifiedName()) != irreducibleRelations.end()) {', 'R1'),
]


def run(tier='quick'):
    rep = Report('C04', tier)
    rep.explanation = ('static provenance analysis of every site where an optional AST transformer eliminates a relation (Program::removeRelation in '
                       'MinimiseProgram / RemoveEmptyRelations / RemoveRelationCopies / RemoveRedundantRelations; the replacement loop of ReduceExistentials): '
                       'the relation reaching the sink is traced back through local collections to the enumeration of the program\'s relations, and the sink '
                       'must be reachable only through the false edge of IOTypeAnalysis::isIO/isOutput on that relation (CFG edge-removal dominance), or through '
                       'non-membership in a collection proved to contain every IO relation; plus R0: IOTypeAnalysis records output/printsize as output. '
                       'Thorough tier: every other transformer unit is scanned for further removeRelation callers (who-may-eliminate).')
    rep.assumptions = ['preservation of the CONTENTS of surviving relations by each rewrite is NOT decided (translation validation, outside static analysis)',
                       'Graph::visit(v, f) applies f to v itself (pre-order DFS including the start vertex)',
                       'the head of a clause returned by Program::getClauses(rel) names rel']
    try:
        analyse(rep, everything=(tier == 'thorough'))
        ms = [mutate.Mutant(n, f, o, w, e) for (n, f, o, w, e) in MUTANTS]
        mutate.run_mutants(rep, 'C04', ms if tier == 'thorough' else ms[:3], analyse)
    except facts.Broken as e:
        rep.analysis_broken(str(e))
    return rep.finish()

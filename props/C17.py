"""C17 -- writing relations and reading them back: writer and reader of every format agree, per
attribute-type character, on the value class (DESIGN.md section C17 R1); the RFC-4180 symbol
escaping is the inverse of the decoder that will see it (R2); float precision is set (R3)."""
import os, re
from engine import facts, tables, mutate
from engine.facts import kids, walk, strip, is_call, call_args, call_obj, expr_key
from engine.report import Report

TU = os.path.join(facts.VERIF, 'tu', 'io_instances.cpp')
FILES = r'souffle/io/[A-Za-z]+\.h$'

# format pairs: (label, writer (class, function), reader (class, function))
PAIRS = [
    ('csv/top-level', ('WriteStreamCSV', 'writeNextTupleElement'), ('ReadStreamCSV', 'readNextTuple')),
    ('text/record-element', ('WriteStream', 'outputRecord'), ('ReadStream', 'readRecord')),
    ('text/adt-argument', ('WriteStream', 'outputADT'), ('ReadStream', 'readADT')),
    ('json/list', ('WriteStreamJSON', 'writeNextTupleList'), ('ReadStreamJSON', 'readNextTupleList')),
    ('json/list-record-element', ('WriteStreamJSON', 'writeNextTupleList'), ('ReadStreamJSON', 'readNextElementList')),
    ('json/object', ('WriteStreamJSON', 'writeNextTupleObject'), ('ReadStreamJSON', 'readNextTupleObject')),
    ('json/object-record-element', ('WriteStreamJSON', 'writeNextTupleObject'), ('ReadStreamJSON', 'readNextElementObject')),
    ('sqlite', ('WriteStreamSQLite', 'writeNextTuple'), ('ReadStreamSQLite', 'readNextTuple')),
]
CHARS = ('s', 'i', 'u', 'f', 'r', '+')


def char_switch(f):
    for sw in tables.switches(f):
        labs = [l for g in sw.groups for l in g.labels]
        if labs and all(isinstance(l, str) and len(l) == 1 for l in labs):
            return sw
    return None


def classify_writer(stmts):
    """value class of what a writer case prints / binds"""
    calls = [m for s in stmts for m in walk(s) if is_call(m)]
    names = {m.get('cn') for m in calls}
    if names & {'outputRecord'} or any('record' in (m.get('str') or '') for s in stmts for m in walk(s) if m['k'] == 'StringLiteral') and 'unpack' in names:
        return 'rec'
    if 'unpack' in names:
        return 'rec'
    if 'outputADT' in names:
        return 'adt'
    if names & {'outputSymbol', 'decode', 'getSymbolTableID'}:
        return 'sym'
    casts = [m for m in calls if m.get('cn') == 'ramBitCast' and m.get('ta')]
    for m in casts:
        T = m['ta'][0]
        if T == 'float':
            return 'F'
        if T == 'unsigned int':
            # JSON prints (int)ramBitCast<RamUnsigned>(v): the text is the signed reading of the bits
            outer = [c for s in stmts for c in walk(s) if c['k'] in ('CStyleCastExpr', 'CXXStaticCastExpr') and c.get('t') == 'int' and any(x is m for x in walk(c))]
            return 'S' if outer else 'U'
    if not casts and (any(is_call(m) and m.get('noreturn') for m in calls) or 'throwError' in names or 'fatal' in names):
        return 'refused'
    return 'S'        # the raw RamDomain: signed reading of the bits


def classify_reader(stmts):
    calls = [m for s in stmts for m in walk(s) if is_call(m)]
    names = {m.get('cn') for m in calls}
    if names & {'readRecord', 'readNextElementList', 'readNextElementObject'}:
        return 'rec'
    if 'readADT' in names:
        return 'adt'
    if 'encode' in names:
        return 'sym'
    if names & {'RamFloatFromString'}:
        return 'F'
    if 'number_value' in names:
        # float only if the double is converted to RamFloat and then bit-cast
        for m in calls:
            if m.get('cn') == 'ramBitCast' and any(x.get('cn') == 'number_value' for x in walk(m) if is_call(x)):
                inner = [c for c in walk(m) if c['k'] in ('CXXStaticCastExpr', 'CStyleCastExpr', 'ImplicitCastExpr', 'CXXFunctionalCastExpr') and c.get('t') == 'float']
                if inner:
                    return 'F'
        return 'S-truncated-number'
    if names & {'RamUnsignedFromString', 'readRamUnsigned'}:
        return 'U'
    if names & {'RamSignedFromString', 'int_value'}:
        return 'S'
    if any(m.get('noreturn') for m in calls) or 'throwError' in names or 'fatal' in names:
        return 'refused'
    return '?'


def table_of(f, classify):
    sw = char_switch(f)
    if sw is None:
        return None, None
    tab = {}
    dflt = None
    for g in sw.groups:
        c = classify(g.stmts)
        for l in g.labels:
            tab[l] = (c, g.line)
        if g.is_default:
            dflt = (c, g.line)
    return tab, dflt


def rule_type_dispatch(rep, u):
    byname = {}
    for f in u.functions:
        if not f.is_lambda:
            byname.setdefault((f.d.get('cls'), f.name), f)
    n = 0
    for label, w, r in PAIRS:
        fw, fr = byname.get(w), byname.get(r)
        if fw is None or fr is None:
            rep.analysis_broken('IO function vanished: %s' % (w if fw is None else r,))
            continue
        tw, dw = table_of(fw, classify_writer)
        tr, dr = table_of(fr, classify_reader)
        if tw is None or tr is None:
            rep.analysis_broken('type-character switch not found in %s::%s' % (w if tw is None else r))
            continue
        n += 2
        for ch in CHARS:
            cw = tw.get(ch, dw) or ('refused', fw.line)
            cr = tr.get(ch, dr) or ('refused', fr.line)
            a, b = cw[0], cr[0]
            ok = a == b
            if a == 'refused' or b == 'refused':
                # a type a format does not support must be refused on both sides (declared limitation, e.g. JSON has no ADT)
                ok = a == b
            det = ''
            if not ok:
                det = "attribute type '%s': the writer (%s::%s line %s) emits class %s, the reader (%s::%s line %s) parses class %s" % (
                    ch, w[0], w[1], cw[1], a, r[0], r[1], cr[1], b)
            rep.ob('R1-type-dispatch-agrees', '%s/%s' % (label, ch), ok, fr.loc({'l': cr[1]}), det)
    rep.floor('R1-type-switches', n, 14)


# ---- R2: escape table of WriteStreamCSV::outputSymbol --------------------------------------------
def emitted(stmts, env, out):
    """tiny abstract interpreter over the AST: env maps predicate keys to booleans; out collects emitted tokens"""
    for s in stmts:
        k = s['k']
        if k == 'CompoundStmt':
            emitted(kids(s), env, out)
        elif k == 'IfStmt':
            parts = dict(zip(s['roles'], s['c']))
            v = truth(parts['cond'], env)
            if v is None:
                raise facts.Broken('outputSymbol: condition outside the abstraction: %s' % expr_key(parts['cond']))
            if v:
                emitted([parts['then']], env, out)
            elif parts.get('else') is not None:
                emitted([parts['else']], env, out)
        elif k == 'ForStmt':
            parts = dict(zip(s['roles'], s['c']))
            out.append('<each-char>')
            emitted([parts['body']], env, out)
            out.append('</each-char>')
        elif k == 'DeclStmt':
            continue
        else:
            e = strip(s)
            if e['k'] == 'CXXOperatorCallExpr' and e.get('op') == '<<':
                chain = []
                x = e
                while x['k'] == 'CXXOperatorCallExpr' and x.get('op') == '<<':
                    ops = kids(x)[1:]
                    chain.append(ops[1])
                    x = strip(ops[0])
                for o in reversed(chain):
                    oo = strip(o, casts=True)
                    if oo['k'] == 'CharacterLiteral':
                        out.append(chr(oo['val']))
                    elif oo['k'] == 'StringLiteral':
                        out.append(oo.get('str', ''))
                    elif oo['k'] == 'DeclRefExpr':
                        out.append('<%s>' % oo['name'])
                    else:
                        out.append('<?%s>' % expr_key(oo))
            elif e['k'] in ('ReturnStmt', 'NullStmt'):
                continue
            else:
                raise facts.Broken('outputSymbol: statement outside the abstraction: %s' % e['k'])


def truth(c, env):
    c = strip(c, casts=True)
    if c['k'] == 'UnaryOperator' and c['op'] == '!':
        v = truth(kids(c)[0], env)
        return None if v is None else not v
    if c['k'] in ('DeclRefExpr', 'MemberExpr'):
        return env.get(expr_key(c))
    if c['k'] == 'BinaryOperator' and c['op'] in ('==', '!='):
        a, b = [strip(x, casts=True) for x in kids(c)]
        for x, y in ((a, b), (b, a)):
            if x['k'] == 'DeclRefExpr' and y['k'] == 'CharacterLiteral':
                v = env.get('%s==%s' % (x['name'], chr(y['val'])))
                if v is None:
                    return None
                return v if c['op'] == '==' else not v
    if c['k'] == 'BinaryOperator' and c['op'] in ('&&', '||'):
        a, b = truth(kids(c)[0], env), truth(kids(c)[1], env)
        if a is None or b is None:
            return None
        return (a and b) if c['op'] == '&&' else (a or b)
    return None


def rule_escape_table(rep, u):
    fs = [f for f in u.functions if f.d.get('cls') == 'WriteStreamCSV' and f.name == 'outputSymbol' and len(f.d['params']) == 3]
    if not fs:
        rep.analysis_broken('WriteStreamCSV::outputSymbol(destination, value, fieldValue) not found')
        return
    f = fs[0]
    fv = f.d['params'][2]['name']
    loops = [s for s in f.walk() if s['k'] == 'ForStmt']
    chvar = None
    for vd in f.walk():
        if vd['k'] == 'VarDecl' and vd.get('t') == 'char':
            chvar = vd['name']
    if not loops or chvar is None:
        rep.analysis_broken('outputSymbol: per-character loop not found')
        return
    # oracle: what each decoder undoes.  top-level RFC-4180 field: surrounding quotes, "" -> " .
    # record-nested symbol: the field is quoted once more by the record writer ("" -> ") and then
    # readQuotedSymbol undoes a backslash escape ( \" -> " ).
    cases = [
        (True, 'quote', ['"', '"'], 'a top-level RFC-4180 field decodes only quote doubling: a quote must be written as ""'),
        (True, 'other', ['<%s>' % chvar], 'ordinary characters are written verbatim'),
        (False, 'quote', ['\\', '"', '"'], 'a record-nested symbol is decoded twice (RFC-4180 doubling, then backslash escape): a quote must be written as \\""'),
        (False, 'other', ['<%s>' % chvar], 'ordinary characters are written verbatim'),
    ]
    for fieldValue, cls, want, why in cases:
        env = {'rfc4180': True, fv: fieldValue, '%s=="' % chvar: cls == 'quote'}
        out = []
        parts = dict(zip(loops[0]['roles'], loops[0]['c']))
        emitted([parts['body']], env, out)
        if cls == 'quote':
            out = ['"' if x == '<%s>' % chvar else x for x in out]     # the character itself is the quote
        ok = out == want
        rep.ob('R2-escape-table', 'WriteStreamCSV::outputSymbol/rfc4180/%s/%s' % ('top-level' if fieldValue else 'nested', cls), ok, f.where,
               '' if ok else 'emits %s for a %s character; %s (expected %s)' % (out, cls, why, want))
    # surrounding quotes: top-level one pair, nested two pairs (doubled)
    for fieldValue, want in ((True, 1), (False, 2)):
        env = {'rfc4180': True, fv: fieldValue, '%s=="' % chvar: False}
        out = []
        emitted(kids(f.body), env, out)
        i, j = out.index('<each-char>'), out.index('</each-char>')
        pre, post = out[:i], out[j + 1:]
        ok = pre == ['"'] * want and post == ['"'] * want
        rep.ob('R2-escape-table', 'WriteStreamCSV::outputSymbol/rfc4180/%s/delimiters' % ('top-level' if fieldValue else 'nested'), ok, f.where,
               '' if ok else 'opening %s / closing %s quotes, expected %d each' % (pre, post, want))
    env = {'rfc4180': False, fv: True, '%s=="' % chvar: False}
    out = []
    emitted(kids(f.body), env, out)
    ok = out == ['<%s>' % f.d['params'][1]['name']]
    rep.ob('R2-escape-table', 'WriteStreamCSV::outputSymbol/plain', ok, f.where, '' if ok else 'plain mode emits %s' % out)


# ---- R3: float precision -------------------------------------------------------------------------
def rule_precision(rep, u):
    """every WriteStream subclass that owns a text stream sets max_digits10 before the first tuple"""
    owners = ('WriteFileCSV', 'WriteGZipFileCSV', 'WriteCoutCSV', 'WriteFileJSON', 'WriteCoutJSON')
    n = 0
    for cls in owners:
        ctors = [f for f in u.functions if f.d.get('cls') == cls and f.d.get('ctor')]
        if not ctors:
            rep.analysis_broken('constructor of %s not found' % cls)
            continue
        n += 1
        ok = False
        for f in ctors:
            for m in f.walk():
                if is_call(m, 'setprecision'):
                    a = call_args(m)[0]
                    v = [x.get('cv') for x in walk(a) if 'cv' in x] + [x.get('val') for x in walk(a) if x['k'] == 'IntegerLiteral']
                    if v and int(v[0]) >= 9:
                        ok = True
        rep.ob('R3-float-precision', cls, ok, ctors[0].where,
               '' if ok else '%s never sets std::setprecision(max_digits10) on its stream: floats are printed with 6 significant digits and do not read back exactly' % cls)
    return n


# ---- R4: cooperating sites of the SQLite symbol table and the gzip stream buffer ---------------------
def rule_sqlite_symbol_ids(rep, u):
    """getSymbolTableID tells a new symbol from an existing one by the result of stepping the INSERT: the prepared
    statement must therefore FAIL on a duplicate (plain INSERT into a UNIQUE column), and last_insert_rowid may only be
    trusted on the success branch"""
    fs = {f.name: f for f in u.functions if f.d.get('cls') == 'WriteStreamSQLite' and not f.is_lambda}
    need = ('prepareSymbolInsertStatement', 'getSymbolTableID', 'createTables')
    if any(n not in fs for n in need):
        for n in need:
            if n not in fs:
                rep.analysis_broken('WriteStreamSQLite::%s not found' % n)
        return
    ins = ''.join(m.get('str', '') for m in fs['prepareSymbolInsertStatement'].walk() if m['k'] == 'StringLiteral').upper()
    ok = 'INSERT INTO' in ins.replace('  ', ' ') and ' OR ' not in ins.split('VALUES')[0]
    rep.ob('R4-sqlite-symbol-insert-fails-on-duplicate', 'WriteStreamSQLite::prepareSymbolInsertStatement', ok, fs['prepareSymbolInsertStatement'].where,
           '' if ok else 'the symbol INSERT carries a conflict clause (%r): a duplicate no longer fails, but getSymbolTableID trusts '
           'sqlite3_last_insert_rowid() whenever the step succeeds -> wrong symbol ids' % ins[:40])
    cr = ''.join(m.get('str', '') for f_ in fs.values() for m in f_.walk() if m['k'] == 'StringLiteral').upper()
    cr = cr[cr.find('SYMBOL TEXT'):][:40] if 'SYMBOL TEXT' in cr else ''
    rep.ob('R4-sqlite-symbol-unique', 'WriteStreamSQLite::createTables', 'UNIQUE' in cr, fs['createTables'].where,
           '' if 'UNIQUE' in cr else 'the symbol column is not UNIQUE: every write inserts a fresh row, equal symbols get different ids')
    g = fs['getSymbolTableID']
    from props.parallel_guard import guarded_by, not_guarded_by
    last = [m for m in g.walk() if is_call(m, 'sqlite3_last_insert_rowid')]
    sel = [m for m in g.walk() if is_call(m, 'getSymbolTableIDFromDB')]
    is_step = lambda core: core['k'] == 'BinaryOperator' and core['op'] in ('!=', '==') and any(is_call(x, 'sqlite3_step') for x in walk(core))
    ok = bool(last) and bool(sel) and all(guarded_by(g, m, is_step)[0] or not_guarded_by(g, m, is_step) for m in last + sel)
    rep.ob('R4-sqlite-rowid-only-after-successful-insert', 'WriteStreamSQLite::getSymbolTableID', ok, g.where,
           '' if ok else 'the row id of a symbol is not chosen by the outcome of the INSERT step (new: last_insert_rowid, existing: SELECT)')


def rule_gzip_overflow(rep, u):
    fs = [f for f in u.functions if f.d.get('cls') == 'gzfstreambuf' and f.name == 'overflow' and f.cfg]
    if not fs:
        rep.analysis_broken('gzfstreambuf::overflow not found')
        return
    f = fs[0]
    from engine import pathflow
    stores = [m for m in f.walk() if m['k'] == 'BinaryOperator' and m['op'] == '=' and strip(kids(m)[0], casts=True)['k'] == 'UnaryOperator'
              and any(is_call(x, 'pptr') for x in walk(kids(m)[0]))]
    lens = [m for m in f.walk() if m['k'] == 'BinaryOperator' and m['op'] == '-' and any(is_call(x, 'pptr') for x in walk(m)) and any(is_call(x, 'pbase') for x in walk(m))]
    bumps = [m for m in f.walk() if is_call(m, 'pbump')]
    ok = bool(stores) and bool(lens)
    det = 'overflow(): store of the overflowing character / flush length not found'
    if ok:
        # the pbump(1) that accounts for the stored character precedes the computation of the flush length
        b1 = [m for m in bumps if strip(call_args(m)[0], casts=True).get('val') == '1']
        ok = bool(b1) and all(_before_or_exclusive(f, b1[0], l) for l in lens)
        det = 'the number of bytes to flush is computed before the overflowing character is stored: that character is dropped from every full buffer'
    rep.ob('R4-gzip-overflow-stores-before-flush', 'gzfstreambuf::overflow', ok, f.where, '' if ok else det)


def _before_or_exclusive(f, a, b):
    """a is executed before b on every path that executes both (a may be conditional: c != EOF)"""
    from engine import pathflow
    dom, succ, pred, reach = pathflow.dominators(f)
    ba, bb = pathflow.block_of(f, a['id']), pathflow.block_of(f, b['id'])
    if ba is None or bb is None:
        return False
    if ba == bb:
        return pathflow.executes_before(f, a['id'], b['id'], dom)
    # b must not be able to reach a
    seen, stack = set(), [bb]
    while stack:
        x = stack.pop()
        if x in seen:
            continue
        seen.add(x)
        stack.extend(succ.get(x, []))
    return ba not in seen


MUTANTS = [
    ('csv-reader-unsigned-as-signed', 'src/include/souffle/io/ReadStreamCSV.h',
     'tuple[inputMap[column]] = ramBitCast(readRamUnsigned(element, charactersRead));', 'tuple[inputMap[column]] = RamSignedFromString(element, &charactersRead);', 'R1'),
    ('record-writer-float-raw', 'src/include/souffle/io/WriteStream.h',
     "case 'f': destination << ramBitCast<RamFloat>(recordValue); break;", "case 'f': destination << recordValue; break;", 'R1'),
    ('nested-symbol-no-backslash', 'src/include/souffle/io/WriteStreamCSV.h',
     '''                if (ch == '"') {
                    destination << '\\\\';
                    destination << '"';
                }''', '''                if (ch == '"') {
                    destination << '"';
                }''', 'R2'),
    ('gzip-no-precision', 'src/include/souffle/io/WriteStreamCSV.h',
     '''        file << std::setprecision(std::numeric_limits<RamFloat>::max_digits10);
    }

    ~WriteGZipFileCSV()''', '''    }

    ~WriteGZipFileCSV()''', 'R3'),
]


def analyse(rep):
    u, = facts.extract([(TU, FILES, r'.*')])
    rep.add_units([u])
    rule_type_dispatch(rep, u)
    rule_escape_table(rep, u)
    rep.floor('R3-stream-owners', rule_precision(rep, u), 5)
    rule_sqlite_symbol_ids(rep, u)
    rule_gzip_overflow(rep, u)


def run(tier='quick'):
    rep = Report('C17', tier)
    rep.explanation = ('static sibling-agreement analysis of the fact IO layer: for every format pair the switch over the attribute-type character is '
                       'extracted from the writer and from the reader and each character must map to the same value class (signed / unsigned / float '
                       'text, symbol, record, ADT, refused); WriteStreamCSV::outputSymbol is abstractly interpreted over {quote, other} x {top-level, '
                       'nested} and the emitted sequence must be the inverse of the decoder(s) that will see it; every text stream owner sets '
                       'max_digits10. Exhaustive over the 8 format pairs x 6 type characters.')
    rep.assumptions = ['gzip framing, SQLite column typing and "symbols within the characters the format can represent" are NOT decided',
                       'the decoder oracle of R2 (RFC-4180 undoes quote doubling; readQuotedSymbol undoes a backslash escape) was read from ReadStreamCSV::nextElement / ReadStream::readQuotedSymbol']
    try:
        analyse(rep)
        ms = [mutate.Mutant(n, f, o, w, e) for (n, f, o, w, e) in MUTANTS]
        mutate.run_mutants(rep, 'C17', ms if tier == 'thorough' else ms[:2], analyse)
    except facts.Broken as e:
        rep.analysis_broken(str(e))
    rep.exhaustive = True
    return rep.finish()

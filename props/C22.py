"""C22 -- auto-increment values are unique within a run: the counter is touched only by an atomic
read-modify-write whose returned value is the functor's result (interpreter), and the synthesiser's
emitter / field / subroutine parameter agree on an atomic counter passed by reference."""
import re
from engine import facts, atomics, tables, mutate
from engine.facts import kids, walk, strip, is_call, call_args, call_obj, expr_key
from engine.report import Report

ENGINE_H = 'src/interpreter/Engine.h'


def analyse(rep):
    eng, syn = facts.extract([
        ('src/interpreter/Engine.cpp', r'interpreter/Engine\.(cpp|h)$', r'Engine::', None, r'ram::AutoIncrement &', r'^(counter|incCounter)$'),
        ('src/synthesiser/Synthesiser.cpp', r'synthesiser/Synthesiser\.cpp$', r'CodeEmitter::visit_|Synthesiser::generateCode$')])
    rep.add_units([eng, syn])
    # ---- interpreter
    rec = eng.record('Engine')
    fld = [x for x in (rec['fields'] if rec else []) if x['name'] == 'counter']
    if not fld:
        rep.analysis_broken('interpreter::Engine::counter not found')
    else:
        ok = fld[0]['t'].startswith('std::atomic<') and fld[0]['t'] in ('std::atomic<int>', 'std::atomic<unsigned int>', 'std::atomic<long>')
        rep.ob('I1-counter-atomic', 'Engine::counter', ok, '%s:%s' % (ENGINE_H, fld[0]['l']),
               '' if ok else 'the auto-increment counter has type %s; concurrent increments need std::atomic' % fld[0]['t'])
    naccess = 0
    for f in eng.functions:
        parent_of = None
        # the other correct idiom: a compare-exchange RETRY loop (the CAS is the condition of a loop, so a failed exchange is retried and
        # only the value that was actually replaced is handed out).  A CAS outside a loop condition is not: its failure is not retried.
        cas_nodes = [m for m in f.walk() if (atomics.atomic_op(m) or {}).get('kind') == 'cas' and any(x.get('member') == 'counter' for x in walk(m))]

        def in_loop_cond(m):
            for a in f.ancestors(m):
                if a['k'] in ('WhileStmt', 'DoStmt', 'ForStmt'):
                    roles = dict(zip(a.get('roles', []), a['c'])) if a.get('roles') else {}
                    cond = roles.get('cond')
                    if cond is None and a['k'] == 'WhileStmt' and kids(a):
                        cond = kids(a)[0]
                    if cond is None and a['k'] == 'DoStmt' and kids(a):
                        cond = kids(a)[-1]
                    if cond is not None and any(x is m for x in walk(cond)):
                        return True
            return False
        retry_idiom = bool(cas_nodes) and all(in_loop_cond(m) for m in cas_nodes)
        for n in f.walk():
            if n['k'] == 'MemberExpr' and n.get('member') == 'counter' and n.get('mcls') == 'Engine':
                naccess += 1
                if retry_idiom:
                    rep.ob('I2-counter-rmw-only', 'Engine::counter@%s' % f.name, True, f.loc(n), 'compare-exchange retry loop')
                    continue
                # the access must be the object of an atomic RMW increment whose value is used as the result
                p = f.parent(n)
                while p is not None and p['k'] in facts.TRANSPARENT + ('MemberExpr',):
                    p = f.parent(p)
                a = atomics.atomic_op(p) if p is not None else None
                ok = a is not None and a['kind'] == 'rmw' and a['op'] == '+' and (a.get('unit') or (
                    a.get('operand') is not None and strip(a['operand'], casts=True).get('val') == '1'))
                det = ''
                if not ok:
                    det = 'Engine::counter is accessed by %s; every access must be an atomic increment (operator++ / fetch_add(1))' % (
                        (a['kind'] + (':' + str(a['op']) if a.get('op') else '')) if a else 'a non-atomic expression')
                else:
                    # value used: the RMW is (wrapped in) the operand of a return statement
                    q = f.parent(p)
                    while q is not None and q['k'] in facts.TRANSPARENT:
                        q = f.parent(q)
                    ok = q is not None and q['k'] == 'ReturnStmt'
                    det = '' if ok else 'the value returned by the atomic increment is not what the function returns (a separate read would race)'
                rep.ob('I2-counter-rmw-only', 'Engine::counter@%s' % f.name, ok, f.loc(n), det)
    rep.floor('I2-counter-rmw-only', naccess, 1)
    lam = [f for f in eng.functions if f.is_lambda and any(
        vd.get('name') == 'cur' and 'ram::AutoIncrement' in vd.get('t', '') for s in kids(f.body)[:3] if s['k'] == 'DeclStmt' for vd in kids(s))]
    if len(lam) != 1:
        rep.analysis_broken('interpreter AutoIncrement case not found (%d)' % len(lam))
    else:
        rets = [r for r in lam[0].walk() if r['k'] == 'ReturnStmt']
        ok = len(rets) == 1 and kids(rets[0]) and is_call(strip(kids(rets[0])[0], casts=True), 'incCounter')
        rep.ob('I3-autoincrement-returns-rmw', 'Engine::execute/AutoIncrement', ok, lam[0].loc(rets[0]) if rets else lam[0].where,
               '' if ok else 'the AutoIncrement case must return incCounter() directly')
    # ---- synthesiser
    vs = [f for f in syn.funcs(name='visit_') if len(f.d['params']) > 1 and 'ram::AutoIncrement' in f.d['params'][1]['t']]
    name = None
    if len(vs) != 1:
        rep.analysis_broken('synthesiser visit_(AutoIncrement) not found')
    else:
        em = tables.Emit(lambda n: None)
        ev = [e for e in em.events(kids(vs[0].body)) if e[0] == 'lit']
        sk = ''.join(e[1] for e in ev)
        m = re.fullmatch(r'\s*\(?\s*(?:(\w+)\s*\+\+|\+\+\s*(\w+)|(\w+)\.fetch_add\(1[^)]*\))\s*\)?\s*', sk)
        ok = m is not None
        name = next((g for g in (m.groups() if m else ()) if g), None)
        rep.ob('S1-emits-atomic-rmw', 'Synthesiser/visit_(AutoIncrement)', ok, vs[0].where,
               '' if ok else 'emitted code %r is not a single read-modify-write on the counter' % sk)
    gens = syn.funcs(name='generateCode')
    if not gens:
        rep.analysis_broken('Synthesiser::generateCode not found')
        return
    g = gens[0]
    nfield = nargs = 0
    for n in g.walk():
        if is_call(n, 'addField'):
            lits = []
            for x in call_args(n):
                sl = [m.get('str') for m in walk(x) if m['k'] == 'StringLiteral']
                if sl:
                    lits.append(sl[0])
            if name and len(lits) >= 2 and lits[1] == name:
                nfield += 1
                ok = lits[0].replace(' ', '') in ('std::atomic<RamDomain>', 'std::atomic<RamSigned>')
                rep.ob('S2-field-atomic', 'Synthesiser/mainClass.%s' % name, ok, g.loc(n),
                       '' if ok else 'generated field %s has type %r, not an atomic' % (name, lits[0]))
        if is_call(n, 'make_tuple'):
            a = [strip(x, casts=True) for x in call_args(n)]
            lits = [x.get('str') for x in a if x['k'] == 'StringLiteral']
            if name and len(lits) == 2 and lits[0] == name:
                nargs += 1
                kind = a[0].get('name')
                ok = lits[1].replace(' ', '') in ('std::atomic<RamDomain>', 'std::atomic<RamSigned>') and kind == 'Reference'
                rep.ob('S3-subroutine-shares-counter', 'Synthesiser/stratum-arg.%s' % name, ok, g.loc(n),
                       '' if ok else 'stratum classes receive %s as (%s, %r): must be a Reference to the atomic' % (name, kind, lits[1]))
    rep.floor('S2-field-atomic', nfield, 1)
    rep.floor('S3-subroutine-shares-counter', nargs, 1)
    # Reference-kind arguments become `ty&` constructor parameters and `ty&` fields
    amp = [n for n in g.walk() if is_call(n, ('setNextArg',))]
    ok = False
    for n in amp:
        ok = ok or any(m['k'] == 'StringLiteral' and m.get('str') == '&' for m in walk(n))
    rep.ob('S3-reference-parameters', 'Synthesiser/stratum-constructor', ok, g.loc(amp[0]) if amp else g.where,
           '' if ok else 'stratum constructor parameters are no longer declared as references')


MUTANTS = [
    ('engine-counter-plain', 'src/interpreter/Engine.h', 'std::atomic<RamDomain> counter{0};', 'RamDomain counter{0};', 'I'),
    ('engine-load-then-store', 'src/interpreter/Engine.cpp', 'return counter++;', 'RamDomain c = counter; counter = c + 1; return c;', 'I2'),
    ('synth-stratum-by-value', 'src/synthesiser/Synthesiser.cpp', 'args.push_back(std::make_tuple(Reference, "ctr", "std::atomic<RamDomain>"));',
     'args.push_back(std::make_tuple(Reference, "ctr", "RamDomain"));', 'S3'),
    ('synth-field-plain', 'src/synthesiser/Synthesiser.cpp', 'mainClass.addField("std::atomic<RamDomain>", "ctr", Visibility::Private, "{}");',
     'mainClass.addField("RamDomain", "ctr", Visibility::Private, "{}");', 'S2'),
    ('synth-emits-read-then-write', 'src/synthesiser/Synthesiser.cpp', 'out << "(ctr++)";', 'out << "(ctr = ctr + 1, ctr - 1)";', 'S1'),
]


def run(tier='quick'):
    rep = Report('C22', tier)
    rep.explanation = ('static who-may-access / atomic-operation inventory: the interpreter counter is a std::atomic touched only by an '
                       'increment RMW whose result is the functor value; the synthesiser emitter, the generated field and the stratum '
                       'constructor parameter agree on one atomic counter shared by reference. Uniqueness under concurrency follows from, '
                       'and needs, exactly this.')
    rep.assumptions = ['std::atomic increments are atomic read-modify-writes (C++ memory model)',
                       'wrap-around after 2^32 increments is outside the claim']
    try:
        analyse(rep)
        ms = [mutate.Mutant(n, f, o, w, e) for (n, f, o, w, e) in MUTANTS]
        mutate.run_mutants(rep, 'C22', ms if tier == 'thorough' else ms[2:4], analyse)
    except facts.Broken as e:
        rep.analysis_broken(str(e))
    rep.exhaustive = True
    return rep.finish()

"""C16 -- component instantiation equals textual expansion.  Name qualification and override resolution are recursive functions of
the component tree; their equivalence with hand expansion is semantic.  One necessary condition is visible in the code's shape:
NOTHING A COMPONENT DECLARES IS DROPPED BY INSTANTIATION.

R1  Every content list of ast::Component (the getters returning the declared types, lattices, relations, clauses, directives, nested
    instantiations, base components and the overridden set -- enumerated from the class itself, so a new kind of member shows up as
    a new obligation) is consumed by the instantiation code (collectContent / getInstantiatedContent).  Frozen exception:
    getComponents (nested component DECLARATIONS are resolved through ComponentLookupAnalysis, which must consume it).
R2  Every list of ComponentContent (the instantiated result; enumerated from the struct) is handed to the program by
    ComponentInstantiationTransformer::transform through the matching Program::add*; orphan clauses are added too.

Not decided: that names are qualified / type parameters bound / overrides resolved as hand expansion would."""
import re
from engine import facts, mutate
from engine.facts import kids, walk, strip, is_call, call_args, call_obj, expr_key
from engine.report import Report

CI = 'src/ast/transform/ComponentInstantiation.cpp'
CL = 'src/ast/analysis/ComponentLookup.cpp'
EXCEPT = {'getComponents': 'nested component declarations are resolved through ComponentLookupAnalysis',
          'getChildren': 'generic node traversal, not a content list', 'getComponentType': 'the component\'s own name/type parameters, not content'}


def rule_members(rep, ci, cl, cm):
    comp = ci.record('souffle::ast::Component') or ci.record('Component')
    if comp is None:
        rep.analysis_broken('record ast::Component not found')
        return
    fields = [fl['name'] for fl in comp.get('fields', []) if re.search(r'std::(vector|set)<', fl.get('t', ''))]
    if len(fields) < 8:
        rep.analysis_broken('ast::Component: only %d list fields found (%s)' % (len(fields), fields))
        return
    # which read accessor exposes which field (from the accessors' own bodies)
    expose = {}
    for u in (cm, ci):
        for f in u.functions:
            if f.d.get('cls') == 'Component' and f.name.startswith('get') and not f.d['params'] and f.name != 'getChildren':
                for m in f.walk():
                    if m['k'] == 'MemberExpr' and m.get('member') in fields:
                        expose.setdefault(m['member'], set()).add(f.name)
    inst_calls = {m.get('cn') for f in ci.functions for m in f.walk() if is_call(m) and m.get('cc') in ('Component', 'ComponentScope')}
    look_calls = {m.get('cn') for f in cl.functions for m in f.walk() if is_call(m) and m.get('cc') in ('Component', 'ComponentScope', 'Program')}
    for fld in fields:
        acc = expose.get(fld, set())
        if not acc:
            rep.analysis_broken('ast::Component::%s has no read accessor (not understood)' % fld)
            continue
        if fld == 'components':
            ok = bool(acc & look_calls)
            rep.ob('R1-every-component-member-instantiated', 'Component::%s (via ComponentLookup)' % fld, ok, CL,
                   '' if ok else 'ComponentLookupAnalysis no longer enumerates nested component declarations')
            continue
        ok = bool(acc & inst_calls)
        rep.ob('R1-every-component-member-instantiated', 'Component::%s' % fld, ok, CI,
               '' if ok else 'the instantiation never reads Component::%s (accessors %s): what a component declares there is silently dropped' % (fld, sorted(acc)))
    rep.floor('R1-component-list-fields', len(fields), 9)


def rule_content(rep, ci):
    cc = ci.record('ComponentContent')
    tr = [f for f in ci.functions if f.name == 'transform' and not f.is_lambda]
    if cc is None or not tr:
        rep.analysis_broken('ComponentContent / ComponentInstantiationTransformer::transform not found')
        return
    f = tr[0]
    fields = [fl['name'] for fl in cc.get('fields', []) if 'vector' in fl.get('t', '')]
    if len(fields) < 5:
        rep.analysis_broken('ComponentContent: only %d list fields found' % len(fields))
        return
    want = {'types': 'addType', 'lattices': 'addLattice', 'relations': 'addRelation', 'clauses': 'addClause', 'directives': 'addDirective'}
    loops = []
    for lp in [m for m in f.walk() if m['k'] == 'CXXForRangeStmt']:
        rng = kids(kids(kids(lp)[0])[0])
        src = expr_key(strip(rng[0], casts=True)) if rng else ''
        adds = {m.get('cn') for m in walk(kids(lp)[6]) if is_call(m) and m.get('cc') == 'Program'}
        loops.append((src, adds))
    for fld in fields:
        hit = [adds for src, adds in loops if src.split('.')[-1] == fld and src.split('.')[0] == 'content']
        ok = bool(hit) and bool(hit[0]) and (want.get(fld) in hit[0] if fld in want else True)
        rep.ob('R2-instantiated-content-added-to-program', 'ComponentContent::%s' % fld, ok, f.where,
               '' if ok else 'the instantiated %s are never handed to the program (%s)' % (fld, [sorted(a) for s_, a in loops if s_.endswith(fld)]))
    ok = any(src == 'orphans' and 'addClause' in adds for src, adds in loops)
    rep.ob('R2-instantiated-content-added-to-program', 'orphan-clauses', ok, f.where, '' if ok else 'orphan clauses (rules for relations of enclosing scopes) are not added to the program')


def rule_type_binding(rep, cl):
    """R3: binding the type parameters of a referenced component is a SIMULTANEOUS substitution, as in textual expansion: every actual
    parameter is resolved in the binding of the referencing scope (this), never in the binding under construction.  In TypeBinding::extend
    the object being written (X in 'X.binding[formal] = ...') must be a local that is write-only: its only other use is being returned.
    (Whether it starts empty or as a copy of the enclosing binding is a scoping decision the rule does not take sides on.)  (`.comp Flip<K,V> : Pair<V,K>` binds Pair's K to V's type and V to K's type only then.)"""
    fs = [f for f in cl.functions if f.name == 'extend' and f.d.get('cls') == 'TypeBinding']
    if len(fs) != 1:
        rep.analysis_broken('TypeBinding::extend not found (%d)' % len(fs))
        return
    f = fs[0]
    writes, written = [], {}
    for m in f.walk():
        if m['k'] in ('CXXOperatorCallExpr', 'BinaryOperator') and m.get('op') == '=':
            lhs = strip(kids(m)[1] if m['k'] == 'CXXOperatorCallExpr' else kids(m)[0], casts=True)
            if lhs['k'] == 'CXXOperatorCallExpr' and lhs.get('op') == '[]':
                cont = strip(kids(lhs)[1], casts=True)
                if cont['k'] == 'MemberExpr' and cont.get('member') == 'binding' and kids(cont):
                    base = strip(kids(cont)[0], casts=True)
                    writes.append((m, base))
                    if base['k'] == 'DeclRefExpr':
                        written[base['did']] = base.get('name')
    rep.floor('R3-binding-writes', len(writes), 1)
    if not writes:
        return
    problems = []
    for m, base in writes:
        if base['k'] != 'DeclRefExpr' or base.get('dk') != 'Local':
            problems.append('a binding is written into %s, which is not a local result object' % expr_key(base))
    allowed = set()
    for m, base in writes:
        allowed.add(base['id'])
    for r in f.walk():
        if r['k'] == 'ReturnStmt' and kids(r):
            v = strip(kids(r)[0], casts=True)
            if v['k'] == 'DeclRefExpr':
                allowed.add(v['id'])
    for did, nm in written.items():
        other = [m for m in f.walk() if m['k'] == 'DeclRefExpr' and m.get('did') == did and m['id'] not in allowed]
        if other:
            problems.append('the binding under construction (%s) is read while it is being written (%s): an actual parameter named like an earlier '
                            'formal parameter is resolved to the value just bound' % (nm, f.loc(other[0])))
    reads = [m for m in f.walk() if is_call(m, 'find') and (call_obj(m) is None or expr_key(call_obj(m)) in ('binding', 'this', '*this'))]
    if not reads:
        problems.append('no lookup of the actual parameters in the referencing scope\'s binding (this->binding / this->find)')
    rep.ob('R3-type-parameters-substituted-simultaneously', 'TypeBinding::extend', not problems, f.where, '; '.join(problems))


def analyse(rep):
    ci, cl, cm = facts.extract([(CI, r'transform/ComponentInstantiation\.cpp$|src/ast/Component\.h$', r'.*'),
                                (CL, r'analysis/ComponentLookup\.(cpp|h)$', r'.*'),
                                ('src/ast/Component.cpp', r'src/ast/Component\.(cpp|h)$', r'Component::get')])
    rep.add_units([ci, cl, cm])
    rule_members(rep, ci, cl, cm)
    rule_content(rep, ci)
    rule_type_binding(rep, cl)


MUTANTS = [
    ('lattices-of-components-dropped', CI, '''        for (auto& lattice : content.lattices) {
            program.addLattice(std::move(lattice));
        }
''', '', 'R2'),
    ('directives-of-components-not-collected', CI, '    for (const auto& directive : component.getDirectives()) {', '    for (const auto& directive : std::vector<Directive*>{}) {', 'R1'),
    ('orphans-dropped', CI, '''        for (auto& orphan : orphans) {
            program.addClause(std::move(orphan));
        }
''', '', 'R2'),
    ('type-binding-resolved-in-place', 'src/ast/analysis/ComponentLookup.h', '''            auto pos = binding.find(actualParams[i]);
            if (pos != binding.end()) {''', '''            auto pos = result.binding.find(actualParams[i]);
            if (pos != result.binding.end()) {''', 'R3'),
]


def run(tier='quick'):
    rep = Report('C16', tier)
    rep.explanation = ('static inventory: every content list of ast::Component (enumerated from the class) is consumed by the instantiation code, and every '
                       'list of the instantiated ComponentContent (enumerated from the struct) is handed to the program by the matching Program::add*.')
    rep.assumptions = ['qualification of names and override resolution are NOT decided (semantic equivalence with hand expansion); of the binding of type parameters only the '
                       'simultaneous-substitution shape of TypeBinding::extend is decided (R3)']
    try:
        analyse(rep)
        ms = [mutate.Mutant(n, f, o, w, e) for (n, f, o, w, e) in MUTANTS]
        mutate.run_mutants(rep, 'C16', ms if tier == 'thorough' else [ms[0], ms[1], ms[3]], analyse)
    except facts.Broken as e:
        rep.analysis_broken(str(e))
    return rep.finish()

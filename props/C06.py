"""C06 -- RAM-level optimisations preserve results: two structural clauses.  R1: the constraint-
operator algebra that MakeIndex's strict->weak split relies on; R2: the index-eligibility guards of
MakeIndexTransformer::getLowerUpperExpression."""
from engine import facts, tables, mutate
from engine.facts import kids, walk, strip, is_call, call_args, call_obj, expr_key
from engine.report import Report

TA = {'Signed': 'S', 'Unsigned': 'U', 'Float': 'F', 'Symbol': 'sym', 'Record': 'rec', 'ADT': 'adt'}
HDR = 'src/include/souffle/BinaryConstraintOps.h'


def enum_map(f):
    """switch over BinaryConstraintOp -> {label: returned enumerator / bool literal}; default/fallthrough -> None"""
    sw = tables.switches(f, enum='BinaryConstraintOp')
    if not sw:
        return None, None
    out = {}
    for g in sw[0].groups:
        val = None
        for s in g.stmts:
            for m in walk(s):
                if m['k'] == 'ReturnStmt' and kids(m):
                    v = strip(kids(m)[0], casts=True)
                    if v['k'] == 'DeclRefExpr' and v.get('dk') == 'EnumConstant':
                        val = v['name']
                    elif v['k'] == 'CXXBoolLiteralExpr':
                        val = bool(v['val'])
        for l in g.labels:
            out[l] = val
    return out, sw[0]


def char_map(f):
    for sw in tables.switches(f):
        labs = [l for g in sw.groups for l in g.labels]
        if labs and all(isinstance(l, str) and len(l) == 1 for l in labs):
            out = {}
            for g in sw.groups:
                v = [m['name'] for s in g.stmts for m in walk(s) if m['k'] == 'DeclRefExpr' and m.get('dk') == 'EnumConstant']
                for l in g.labels:
                    out[l] = v[0] if v else None
                if g.is_default:
                    out['default'] = v[0] if v else None
            return out
    return None


def rule_algebra(rep, u):
    fn = {f.name: f for f in u.functions if not f.is_lambda and f.file.endswith('BinaryConstraintOps.h')}
    need = ('getBinaryConstraintTypes', 'convertStrictToWeakIneqConstraint', 'convertStrictToNotEqualConstraint', 'negatedConstraintOp',
            'isStrictIneqConstraint', 'isWeakIneqConstraint', 'isLessThan', 'isGreaterThan', 'isLessEqual', 'isGreaterEqual', 'isEqConstraint',
            'isSignedInequalityConstraint', 'getEqConstraint', 'getLessEqualConstraint', 'getGreaterEqualConstraint', 'getLessThanConstraint', 'getGreaterThanConstraint')
    missing = [n for n in need if n not in fn]
    if missing:
        rep.analysis_broken('BinaryConstraintOps.h: functions not found: %s' % missing)
        return
    enum = u.enum('BinaryConstraintOp')
    ops = [e['name'] for e in enum['enumerators']] if enum else []
    rep.floor('R1-constraint-ops', len(ops), 24)
    # operand types of every op
    sw = tables.switches(fn['getBinaryConstraintTypes'], enum='BinaryConstraintOp')[0]
    types = {}
    for g in sw.groups:
        tys = frozenset(TA[m['name']] for s in g.stmts for m in walk(s) if m['k'] == 'DeclRefExpr' and m.get('dk') == 'EnumConstant' and m['enum'].endswith('TypeAttribute'))
        for l in g.labels:
            types[l] = tys
    truth = {n: {k for k, v in (enum_map(fn[n])[0] or {}).items() if v is True} for n in
             ('isStrictIneqConstraint', 'isWeakIneqConstraint', 'isLessThan', 'isGreaterThan', 'isLessEqual', 'isGreaterEqual', 'isEqConstraint', 'isSignedInequalityConstraint')}
    strict = truth['isStrictIneqConstraint']
    rep.ob('R1-strict-set', 'isStrictIneqConstraint', len(strict) == 6 and all(len(types.get(o, ())) == 1 for o in strict), fn['isStrictIneqConstraint'].where,
           '' if len(strict) == 6 else 'strict inequalities are %s' % sorted(strict))
    fam = {}
    for name, famname in (('isLessThan', 'LT'), ('isGreaterThan', 'GT'), ('isLessEqual', 'LE'), ('isGreaterEqual', 'GE')):
        for o in truth[name]:
            if o in fam:
                rep.ob('R1-order-partitions-disjoint', o, False, fn[name].where, '%s is both %s and %s' % (o, fam[o], famname))
            fam[o] = famname
    ordered = [o for o in ops if o[-2:] in ('LT', 'GT', 'LE', 'GE') and not o.startswith('S')]
    for o in ordered:
        ok = fam.get(o) == o[-2:]
        rep.ob('R1-order-partitions-cover', o, ok, HDR, '' if ok else '%s is classified as %s' % (o, fam.get(o)))

    def best(target_family_ops, op):
        """the member of the target family whose type set contains op's operand type and is smallest"""
        t = next(iter(types[op]))
        cands = [c for c in target_family_ops if t in types.get(c, ())]
        return min(cands, key=lambda c: len(types[c])) if cands else None
    weak_of = {'LT': 'LE', 'GT': 'GE'}
    m_weak, _ = enum_map(fn['convertStrictToWeakIneqConstraint'])
    m_ne, _ = enum_map(fn['convertStrictToNotEqualConstraint'])
    for o in sorted(strict):
        want = best([c for c in ops if fam.get(c) == weak_of[fam[o]]], o)
        got = m_weak.get(o)
        rep.ob('R1-strict-to-weak', o, got == want, fn['convertStrictToWeakIneqConstraint'].where,
               '' if got == want else '%s is weakened to %s; the weak inequality of the same operand type is %s' % (o, got, want))
        want = best([c for c in ops if c in ('NE', 'FNE')], o)
        got = m_ne.get(o)
        rep.ob('R1-strict-to-not-equal', o, got == want, fn['convertStrictToNotEqualConstraint'].where,
               '' if got == want else '%s is complemented by %s; the disequality at operand type %s is %s (NE compares bit patterns: -0.0 != 0.0, NaN == NaN)' % (
                   o, got, sorted(types[o]), want))
    for name, m in (('convertStrictToWeakIneqConstraint', m_weak), ('convertStrictToNotEqualConstraint', m_ne)):
        extra = set(k for k, v in m.items() if v is not None) - strict
        rep.ob('R1-conversions-defined-on-strict-only', name, not extra, fn[name].where, '' if not extra else 'also converts %s' % sorted(extra))
    neg, _ = enum_map(fn['negatedConstraintOp'])
    for o in ops:
        n1 = neg.get(o)
        ok = n1 is not None and neg.get(n1) == o and types.get(n1) == types.get(o)
        rep.ob('R1-negation-involution', o, ok, fn['negatedConstraintOp'].where,
               '' if ok else 'negated(%s) = %s, negated twice = %s, operand types %s vs %s' % (o, n1, neg.get(n1), sorted(types.get(o, ())), sorted(types.get(n1, ()))))
        if ok and o in fam:
            comp = {'LT': 'GE', 'GE': 'LT', 'GT': 'LE', 'LE': 'GT'}
            okc = fam.get(n1) == comp[fam[o]]
            rep.ob('R1-negation-complement', o, okc, fn['negatedConstraintOp'].where, '' if okc else 'the negation of %s (%s) is %s (%s)' % (o, fam[o], n1, fam.get(n1)))
    for name, famname in (('getLessEqualConstraint', 'LE'), ('getGreaterEqualConstraint', 'GE'), ('getLessThanConstraint', 'LT'), ('getGreaterThanConstraint', 'GT'), ('getEqConstraint', 'EQ')):
        cm = char_map(fn[name])
        if cm is None:
            rep.analysis_broken('%s: type-character switch not found' % name)
            continue
        for ch, T in (('f', 'F'), ('u', 'U'), ('i', 'S'), ('default', 'S')):
            got = cm.get(ch, cm.get('default'))
            if famname == 'EQ':
                ok = got == ('FEQ' if T == 'F' else 'EQ')
            else:
                ok = got is not None and fam.get(got) == famname and T in types.get(got, ())
            rep.ob('R1-typed-constraint-constructors', '%s/%s' % (name, ch), ok, fn[name].where, '' if ok else "type '%s' yields %s" % (ch, got))
    signed = truth['isSignedInequalityConstraint']
    ok = signed == {o for o in ordered if types.get(o) == frozenset({'S'})}
    rep.ob('R1-signed-inequalities', 'isSignedInequalityConstraint', ok, fn['isSignedInequalityConstraint'].where, '' if ok else 'signed inequalities are %s' % sorted(signed))


def rule_guards(rep, mi):
    fs = [f for f in mi.functions if f.name == 'getLowerUpperExpression' and not f.is_lambda]
    if not fs:
        rep.analysis_broken('MakeIndexTransformer::getLowerUpperExpression not found')
        return
    f = fs[0]
    outer = [s for s in kids(f.body) if s['k'] == 'IfStmt']
    if not outer:
        rep.analysis_broken('getLowerUpperExpression: outer `if (auto* binRelOp = as<Constraint>(c))` not found')
        return
    parts = dict(zip(outer[0]['roles'], outer[0]['c']))
    stmts = kids(parts['then'])

    def is_undef_return(s):
        rets = [r for r in walk(s) if r['k'] == 'ReturnStmt']
        return bool(rets) and all(len([m for m in walk(r) if is_call(m, 'mk') and (m.get('ta') or [''])[0].endswith('UndefValue')]) == 2 for r in rets)

    def productive(s):
        return any(r['k'] == 'ReturnStmt' and not is_undef_return(r) for r in walk(s))
    first_prod = next((i for i, s in enumerate(stmts) if productive(s)), None)
    if first_prod is None:
        rep.analysis_broken('getLowerUpperExpression: no productive return found')
        return
    # local predicate variables
    defs = {}
    for s in stmts:
        if s['k'] == 'DeclStmt':
            for vd in kids(s):
                if vd['k'] == 'VarDecl' and kids(vd):
                    defs[vd['name']] = expr_key(kids(vd)[0])
    guards = {
        'no-FEQ-index-in-interpreter': lambda k: 'FEQ' in k and 'interpreter' in k and '!interpreter' not in k,
        'no-unsigned/float-inequality-index-in-interpreter': lambda k: 'isIneqConstraint' in k and '!isSignedInequalityConstraint' in k and 'interpreter' in k,
        'no-inequality-index-for-provenance': lambda k: 'isIneqConstraint' in k and 'provenance' in k and '!provenance' not in k,
        'no-inequality-index-without-btree': lambda k: 'isIneqConstraint' in k and '!btree' in k,
    }
    for name, pred in guards.items():
        ok = False
        for i, s in enumerate(stmts[:first_prod]):
            if s['k'] == 'IfStmt':
                p2 = dict(zip(s['roles'], s['c']))
                k = expr_key(p2['cond']).replace(' ', '')
                if pred(k) and is_undef_return(p2['then']) and 'else' not in p2:
                    ok = True
        rep.ob('R2-index-eligibility-guard', name, ok, f.where, '' if ok else 'the guard `%s` (early return of an undefined bound pair before any bound is produced) is missing' % name)
    want_defs = {'interpreter': ('compile', 'has'), 'provenance': ('getAuxiliaryArity', '>0'), 'btree': ('BTREE', 'DEFAULT')}
    for v, needles in want_defs.items():
        d = defs.get(v, '').replace(' ', '')
        ok = all(n in d for n in needles)
        rep.ob('R2-guard-predicate-definition', v, ok, f.where, '' if ok else '`%s` is defined as %s' % (v, d[:100]))


def rule_out_param(rep, mi):
    """R3: in constructPattern the column index `element` is an out-parameter of getLowerUpperExpression; every other read of it
    (attribute-type lookup, bound slot selection) must come after that call -- before it the variable is only a placeholder"""
    fs = [f for f in mi.functions if f.name == 'constructPattern' and not f.is_lambda and f.cfg]
    if not fs:
        rep.analysis_broken('MakeIndexTransformer::constructPattern not found')
        return
    f = fs[0]
    from engine import pathflow
    dom = pathflow.dominators(f)[0]
    calls = [m for m in f.walk() if is_call(m, 'getLowerUpperExpression')]
    if not calls:
        rep.analysis_broken('constructPattern: call of getLowerUpperExpression not found')
        return
    c = calls[0]
    outs = [strip(a, casts=True) for a in call_args(c)]
    outv = [a for a in outs if a['k'] == 'DeclRefExpr' and a.get('dk') == 'Local' and 'unsigned long' in a.get('t', '')]
    if not outv:
        rep.analysis_broken('constructPattern: out-parameter of getLowerUpperExpression not identified')
        return
    did = outv[0]['did']
    argids = {x['id'] for x in walk(c)}
    n = 0
    bad = []
    for m in f.walk():
        if m['k'] == 'DeclRefExpr' and m.get('did') == did and m['id'] not in argids:
            n += 1
            if not pathflow.executes_before(f, c['id'], m['id'], dom):
                bad.append(m)
    rep.ob('R3-column-index-read-after-it-is-set', 'constructPattern/%s' % outv[0]['name'], not bad and n > 0, f.loc(bad[0]) if bad else f.where,
           '' if not bad else '`%s` is read (line %s) before getLowerUpperExpression has set it: the attribute type / bound slot of column 0 is used '
           'for every constraint' % (outv[0]['name'], bad[0].get('l')))
    rep.floor('R3-reads-of-column-index', n, 3)


def rule_bound_folding(rep, fo, mi):
    """R4: two bounds on one column are folded into max(lower bounds) / min(upper bounds) with the functor OF THE COLUMN'S TYPE
    (getMaxOp/getMinOp type tables agree with FUNCTOR_INTRINSICS), and lower<->max, upper<->min"""
    from props import C24
    decl = C24.declared_functors(fo, rep)
    legacy = {}
    for f in fo.funcs(name='functorOpNameLegacy'):
        for sw in tables.switches(f, enum='FunctorOp'):
            for g in sw.groups:
                lit = [m.get('str') for s_ in g.stmts for m in walk(s_) if m['k'] == 'StringLiteral']
                for l in g.labels:
                    legacy[l] = lit[0] if lit else None
    if not legacy:
        rep.analysis_broken('functorOpNameLegacy table not found')
    n = 0
    for fn, want in (('getMinOp', 'min'), ('getMaxOp', 'max')):
        fs = fo.funcs(name=fn)
        cm = char_map(fs[0]) if fs else None
        if not cm:
            rep.analysis_broken('%s: type switch not found' % fn)
            continue
        for lab, T in (('f', 'F'), ('u', 'U'), ('i', 'S'), ('default', 'S')):
            op = cm.get(lab, cm.get('default'))
            rows = decl.get(op) or [{}]
            ok = rows[0].get('params', [None])[0] == T and legacy.get(op) == want
            n += 1
            rep.ob('R4-bound-folding-functor-type', '%s/%s' % (fn, lab), ok, fs[0].where,
                   '' if ok else "%s('%s') returns %s, which is the `%s` functor over %s operands; two %s bounds on a column of type '%s' would be folded "
                   'with the wrong order' % (fn, lab, op, legacy.get(op), rows[0].get('params'), 'lower' if want == 'max' else 'upper', lab))
    rep.floor('R4-functor-type-rows', n, 8)
    m_ = 0
    for f in mi.functions:
        if f.is_lambda:
            continue
        decls = {d['did']: d for d in f.walk() if d['k'] == 'VarDecl'}
        for c in f.walk():
            if not (is_call(c, 'getMaxOp') or is_call(c, 'getMinOp')):
                continue
            asg = next((a for a in f.ancestors(c) if a['k'] in ('BinaryOperator', 'CXXOperatorCallExpr') and a.get('op') == '='), None)
            side = None
            if asg is not None:
                tgt = strip((kids(asg) if asg['k'] == 'BinaryOperator' else call_args(asg))[0], casts=True)
                vd = decls.get(tgt.get('did'))
                if vd is not None and kids(vd):
                    mem = [x.get('member') for x in walk(kids(vd)[0]) if x['k'] == 'MemberExpr' and x.get('member') in ('first', 'second')]
                    side = mem[0] if mem else None
            want_side = 'first' if c['cn'] == 'getMaxOp' else 'second'
            m_ += 1
            rep.ob('R4-bound-folding-direction', '%s/%s' % (f.name, c['cn']), side == want_side, f.loc(c),
                   '' if side == want_side else '%s folds into the %s bound of the pattern (lower bounds tighten by max, upper bounds by min)' % (
                       c['cn'], {'first': 'lower', 'second': 'upper'}.get(side, 'unknown')))
    rep.floor('R4-fold-sites', m_, 2)


MUTANTS = [
    ('float-strict-to-raw-ne', HDR, 'case BinaryConstraintOp::FLT: return BinaryConstraintOp::FNE;', 'case BinaryConstraintOp::FLT: return BinaryConstraintOp::NE;', 'R1'),
    ('unsigned-strict-to-signed-weak', HDR, 'case BinaryConstraintOp::ULT: return BinaryConstraintOp::ULE;', 'case BinaryConstraintOp::ULT: return BinaryConstraintOp::LE;', 'R1'),
    ('negation-not-involutive', HDR, 'case BinaryConstraintOp::ULE: return BinaryConstraintOp::UGT;', 'case BinaryConstraintOp::ULE: return BinaryConstraintOp::GT;', 'R1'),
    ('interpreter-indexes-unsigned-inequalities', 'src/ram/transform/MakeIndex.cpp', '''        if (isIneqConstraint(op) && !isSignedInequalityConstraint(op) && interpreter) {
            return {mk<UndefValue>(), mk<UndefValue>()};
        }
''', '', 'R2'),
    ('type-looked-up-before-column-known', 'src/ram/transform/MakeIndex.cpp', '''        std::size_t element = 0;
        Own<Expression> lowerExpression;''', '''        std::size_t element = 0;
        const auto& earlyType = rel.getAttributeTypes()[element];
        (void)earlyType;
        Own<Expression> lowerExpression;''', 'R3'),
    ('unsigned-lower-bounds-folded-by-signed-max', 'src/FunctorOps.cpp', "        case 'u': return FunctorOp::UMAX;", "        case 'u': return FunctorOp::MAX;", 'R4'),
    ('lower-bounds-folded-by-min', 'src/ram/transform/MakeIndex.cpp', 'lowerBound = mk<IntrinsicOperator>(getMaxOp(type), std::move(maxArguments));',
     'lowerBound = mk<IntrinsicOperator>(getMinOp(type), std::move(maxArguments));', 'R4'),
    ('provenance-guard-dropped', 'src/ram/transform/MakeIndex.cpp', '''        if (isIneqConstraint(op) && provenance) {
            return {mk<UndefValue>(), mk<UndefValue>()};
        }
''', '', 'R2'),
]


def analyse(rep):
    u, mi, fo = facts.extract([('src/ram/transform/MakeIndex.cpp', r'BinaryConstraintOps\.h$', r'.*'),
                               ('src/ram/transform/MakeIndex.cpp', r'ram/transform/MakeIndex\.cpp$', r'MakeIndexTransformer::'),
                               ('src/FunctorOps.cpp', r'src/FunctorOps\.cpp$', r'getMinOp|getMaxOp|functorOpNameLegacy')])
    rep.add_units([u, mi, fo])
    rule_bound_folding(rep, fo, mi)
    rule_algebra(rep, u)
    rule_guards(rep, mi)
    rule_out_param(rep, mi)


def run(tier='quick'):
    rep = Report('C06', tier)
    rep.explanation = ('static analysis of two structural clauses: R1 the constraint-operator algebra of BinaryConstraintOps.h extracted as tables and '
                       'checked exhaustively over the 24 operators (strict->weak and strict->not-equal conversions are defined on exactly the strict '
                       'inequalities and keep the operand type -- FLT must be complemented by FNE, not by the bit-pattern NE; negation is an involution '
                       'that preserves the operand types and maps each order class to its complement; typed constructors return an operator of the '
                       'requested type and family; the order classes are disjoint and cover the ordered operators); R2 the four index-eligibility '
                       'guards of MakeIndexTransformer::getLowerUpperExpression precede every produced bound.')
    rep.assumptions = ['hoisting, reordering, if-conversion, tuple renumbering and the other RAM passes are NOT decided (semantic preservation over all programs is translation validation)']
    try:
        analyse(rep)
        ms = [mutate.Mutant(n, f, o, w, e) for (n, f, o, w, e) in MUTANTS]
        mutate.run_mutants(rep, 'C06', ms if tier == 'thorough' else [ms[0], ms[3]], analyse)
    except facts.Broken as e:
        rep.analysis_broken(str(e))
    rep.exhaustive = True
    return rep.finish()

"""C27 -- Brie: publish-by-CAS of child pointers, atomic test-and-set of leaf bits, the
version-pointer seqlock of root / first-node information (DESIGN.md section C27)."""
import os
from engine import facts, pathflow, atomics, mutate
from engine.facts import kids, walk, strip, is_call, call_args, call_obj, expr_key
from engine.report import Report
from props.parallel_guard import guarded_by, not_guarded_by

TU = os.path.join(facts.VERIF, 'tu', 'ds_instances.cpp')
HDR = 'src/include/souffle/datastructure/Brie.h'
NAMES = r'::(getLeaf|set|insert|tryUpdateRootInfo|tryUpdateFirstInfo|getRootInfo|getFirstInfo|raiseLevel|getAtomic)$'


def tag(f):
    ca = f.d.get('clsargs') or ['']
    return '%s<%s>::%s@%d' % (f.d.get('cls'), ca[0][:20], f.name, len(f.d['params']))


def atomic_ref_source(f, key):
    """`std::atomic<..>& aNext = node->cell[x].aptr` -> the expression the reference is bound to"""
    for vd in walk(f.body):
        if vd['k'] == 'VarDecl' and vd.get('name') == key and kids(vd):
            return expr_key(kids(vd)[0])
    return key


def rule_publish_by_cas(rep, fs):
    """R1: child pointers are published by CAS from the previously loaded (null) value; the loser frees its node"""
    n = 0
    for f in fs:
        if not ((f.d.get('cls') == 'SparseArray' and f.name == 'getLeaf') or (f.d.get('cls') == 'Trie' and f.name == 'insert')):
            continue
        ops = atomics.atomic_ops_in(f.body)
        if not ops:
            continue
        label = tag(f)
        cas = [a for a in ops if a['kind'] == 'cas']
        other = [a for a in ops if a['kind'] not in ('cas', 'load')]
        rep.ob('R1-child-published-by-cas', label, bool(cas) and not other, f.where,
               '' if (cas and not other) else 'shared child cells are written by %s (must be compare_exchange only)' % [a['kind'] + ':' + str(a.get('op')) for a in other])
        # plain (non-atomic) stores into a shared cell's pointer view
        plain = []
        for m in f.walk():
            if m['k'] == 'BinaryOperator' and m['op'] == '=':
                l = strip(kids(m)[0], casts=True)
                if l['k'] == 'MemberExpr' and l.get('member') in ('ptr', 'aptr', 'value', 'avalue') and l.get('mcls') == 'Cell':
                    plain.append(m)
        rep.ob('R1-no-plain-cell-store', label, not plain, f.loc(plain[0]) if plain else f.where,
               '' if not plain else 'plain store into a shared cell on the concurrent insertion path')
        for c in cas:
            n += 1
            exp = strip(c['expected'], casts=True)
            ok = exp['k'] == 'DeclRefExpr' and exp.get('dk') == 'Local'
            det = 'expected operand is not a local snapshot'
            if ok:
                d = [vd for vd in walk(f.body) if vd['k'] == 'VarDecl' and vd.get('did') == exp['did']]
                src = None
                if d and kids(d[0]):
                    a = atomics.atomic_op(strip(kids(d[0])[0], casts=True))
                    if a is not None and a['kind'] == 'load':
                        src = a['objkey']
                ok = src == c['objkey']
                det = 'the CAS on `%s` expects `%s`, loaded from `%s`' % (c['objkey'], exp.get('name'), src)
            rep.ob('R1-cas-expected-from-same-cell', label, ok, f.loc(c['node']), '' if ok else det)
            # the CAS is only attempted when the snapshot is null
            okn, _ = guarded_by(f, c['node'], lambda core: False) if False else (None, None)
            okn = not_guarded_by(f, c['node'], lambda core, e=exp: core['k'] == 'DeclRefExpr' and core.get('did') == e.get('did'))
            rep.ob('R1-cas-from-null', label, okn, f.loc(c['node']),
                   '' if okn else 'the publishing CAS is reachable although the observed child is not null (an existing sub-tree would be replaced)')
            # result used
            p = f.parent(c['node'])
            while p is not None and p['k'] in facts.TRANSPARENT + ('UnaryOperator',):
                p = f.parent(p)
            okr = p is not None and p['k'] in ('IfStmt', 'WhileStmt', 'DoStmt')
            rep.ob('R1-cas-result-checked', label, okr, f.loc(c['node']), '' if okr else 'result of the publishing CAS ignored: the loser would keep using its private node')
            # after the CAS the child actually used must be the winner: on failure the updated `expected`, on success the new node
            if f.name == 'getLeaf':
                des = strip(c['operand'], casts=True)
                dels = [m for m in f.walk() if m['k'] == 'CXXDeleteExpr' and strip(kids(m)[0], casts=True).get('did') == des.get('did')]
                okd = any(not_guarded_by(f, m, lambda core, cn=c['node']: core is cn or core.get('id') == cn['id']) for m in dels)
                rep.ob('R1-loser-frees-node', label, okd, f.loc(c['node']), '' if okd else 'the node allocated by the losing thread is not deleted on the failure edge')
                assigns = [m for m in f.walk() if m['k'] == 'BinaryOperator' and m['op'] == '=' and strip(kids(m)[0], casts=True).get('did') == exp.get('did')
                           and strip(kids(m)[1], casts=True).get('did') == des.get('did')]
                oka = any(guarded_by(f, m, lambda core, cn=c['node']: core.get('id') == cn['id'])[0] for m in assigns)
                rep.ob('R1-winner-used', label, oka, f.loc(c['node']), '' if oka else 'after a successful CAS the new node is not adopted as the child')
    return n


def rule_test_and_set(rep, fs):
    """R2: SparseBitMap::set reports 'newly set' only from the atomic operation that set the bit"""
    n = 0
    for f in fs:
        if f.d.get('cls') != 'SparseBitMap' or f.name != 'set' or len(f.d['params']) != 2:
            continue
        n += 1
        label = tag(f)
        ops = atomics.atomic_ops_in(f.body)
        reach = _reachable_nodes(f)
        live = [a for a in ops if a['node']['id'] in reach]
        bad = [a for a in live if not (a['kind'] in ('load', 'cas') or (a['kind'] == 'rmw' and a['op'] == '|'))]
        rep.ob('R2-bit-word-ops', label, not bad, f.where, '' if not bad else 'leaf word modified by %s' % [(a['kind'], a['op']) for a in bad])
        rets = [r for r in f.walk() if r['k'] == 'ReturnStmt' and r['id'] in reach and kids(r)]
        for r in rets:
            v = strip(kids(r)[0], casts=True)
            if v['k'] == 'CXXBoolLiteralExpr' and v['val'] == 1:
                cas = [a for a in live if a['kind'] == 'cas']
                ok = False
                det = '`return true` is not guarded by the success of a compare_exchange on the leaf word'
                for c in cas:
                    g, _ = guarded_by(f, r, lambda core, cn=c['node']: core.get('id') == cn['id'])
                    if not g:
                        continue
                    exp = strip(c['expected'], casts=True)
                    des = strip(c['operand'], casts=True)
                    d = [vd for vd in walk(f.body) if vd['k'] == 'VarDecl' and vd.get('did') == exp.get('did')]
                    src = atomics.atomic_op(strip(kids(d[0])[0], casts=True)) if d and kids(d[0]) else None
                    ok = src is not None and src['kind'] == 'load' and src['objkey'] == c['objkey']
                    det = 'the CAS expects a value not loaded from the same word'
                    if ok:
                        ok = des['k'] == 'BinaryOperator' and des['op'] == '|' and any(strip(x, casts=True).get('did') == exp.get('did') for x in kids(des))
                        det = 'the CAS does not write `expected | bit`'
                    if ok:
                        # the bit is known absent from the expected value on the path to the CAS
                        ok = not_guarded_by(f, c['node'], lambda core, e=exp: core['k'] == 'BinaryOperator' and core['op'] == '&' and
                                            any(strip(x, casts=True).get('did') == e.get('did') for x in kids(core)))
                        det = 'the CAS is attempted although the expected value may already contain the bit (two threads could both report success)'
                    if ok:
                        # a failed CAS refreshes `expected`: before the next attempt the bit must be checked again
                        from props.parallel_guard import cond_blocks, reach_without
                        is_bitcheck = lambda core, e=exp: core['k'] == 'BinaryOperator' and core['op'] == '&' and \
                            any(strip(x, casts=True).get('did') == e.get('did') for x in kids(core))
                        absent_edges = set()
                        for b, cnode, core, neg in cond_blocks(f):
                            if is_bitcheck(core):
                                dst = b['s'][0] if neg else b['s'][1]
                                if isinstance(dst, int):
                                    absent_edges.add((b['b'], dst))
                        casb = pathflow.block_of(f, c['node']['id'])
                        for b, cnode, core, neg in cond_blocks(f):
                            if core.get('id') == c['node']['id']:
                                fail = b['s'][0] if neg else b['s'][1]
                                if isinstance(fail, int):
                                    succ_ = {x['b']: [y for y in x['s'] if isinstance(y, int)] for x in f.cfg['blocks']}
                                    seen_, stack_ = set(), [fail]
                                    while stack_:
                                        x = stack_.pop()
                                        if x in seen_:
                                            continue
                                        seen_.add(x)
                                        for y in succ_[x]:
                                            if (x, y) not in absent_edges:
                                                stack_.append(y)
                                    if casb in seen_:
                                        ok = False
                                        det = 'after a failed CAS (which refreshes the expected value) the exchange is retried without re-checking the bit: ' \
                                              'if another thread set it meanwhile, CAS(old, old | bit) succeeds trivially and both threads report success'
                    if ok:
                        break
                rep.ob('R2-true-only-from-setting-op', label + '/return-true', ok, f.loc(r), '' if ok else det)
            elif v['k'] == 'CXXBoolLiteralExpr' and v['val'] == 0:
                ok, _ = guarded_by(f, r, lambda core: core['k'] == 'BinaryOperator' and core['op'] == '&')
                rep.ob('R2-false-only-if-bit-seen', label + '/return-false', ok, f.loc(r), '' if ok else '`return false` without having observed the bit set')
            else:
                # fetch_or idiom: return (old & bit) == 0 with old = val.fetch_or(bit)
                ok = v['k'] == 'BinaryOperator' and v['op'] == '=='
                if ok:
                    names = [m for m in walk(v) if m['k'] == 'DeclRefExpr' and m.get('dk') == 'Local']
                    srcs = []
                    for m in names:
                        d = [vd for vd in walk(f.body) if vd['k'] == 'VarDecl' and vd.get('did') == m['did'] and kids(vd)]
                        if d:
                            a = atomics.atomic_op(strip(kids(d[0])[0], casts=True))
                            if a is not None and a['kind'] == 'rmw' and a['op'] == '|':
                                srcs.append(a)
                    ok = bool(srcs)
                rep.ob('R2-true-only-from-setting-op', label + '/return-expr', ok, f.loc(r),
                       '' if ok else 'the result is not derived from the value returned by the atomic fetch_or')
    return n


def _reachable_nodes(f):
    dom, succ, pred, reach = pathflow.dominators(f)
    ids = set()
    for b in f.cfg['blocks']:
        if b['b'] in reach:
            for e in b['e']:
                if isinstance(e, int):
                    ids.add(e)
    return ids


def _events(f):
    """linear event list of a seqlock publisher: top-level statements in order"""
    ev = []
    body = kids(f.body)
    for s in body:
        if s['k'] == 'IfStmt':
            parts = dict(zip(s['roles'], s['c']))
            c = strip(parts['cond'], casts=True)
            neg = False
            while c['k'] == 'UnaryOperator' and c['op'] == '!':
                neg = not neg
                c = strip(kids(c)[0], casts=True)
            if is_call(c) and (c.get('cn') or '').startswith('__sync_bool_compare_and_swap'):
                a = call_args(c)
                tgt = expr_key(a[0]).lstrip('&')
                then_ret = [r for r in walk(parts['then']) if r['k'] == 'ReturnStmt']
                rv = strip(kids(then_ret[0])[0], casts=True).get('val') if then_ret and kids(then_ret[0]) else None
                ev.append(('cas', tgt, neg, rv, expr_key(a[1]), expr_key(a[2]), s))
                continue
            ev.append(('other-if', s))
            continue
        e = strip(s, casts=True)
        if e['k'] == 'BinaryOperator' and e['op'] == '=':
            ev.append(('write', expr_key(kids(e)[0]), expr_key(kids(e)[1]), s))
        elif is_call(e) and e.get('cn') == '__sync_synchronize':
            ev.append(('sync', s))
        elif e['k'] == 'ReturnStmt':
            v = strip(kids(e)[0], casts=True) if kids(e) else None
            ev.append(('ret', v.get('val') if v else None, s))
        elif e['k'] == 'DeclStmt':
            ev.append(('decl', s))
        else:
            ev.append(('other', e['k'], s))
    return ev


def rule_seqlock(rep, fs):
    n = 0
    for f in fs:
        if f.d.get('cls') != 'SparseArray':
            continue
        label = tag(f)
        if f.name in ('tryUpdateRootInfo', 'tryUpdateFirstInfo'):
            n += 1
            ev = _events(f)
            kinds = [e[0] for e in ev if e[0] != 'decl']
            cas = [e for e in ev if e[0] == 'cas']
            ok = len(cas) == 1 and kinds and kinds[0] == 'cas'
            det = 'the version CAS is not the first action' if not ok else ''
            if ok:
                c = cas[0]
                field = c[1]
                ok = c[2] is True and c[3] == 0
                det = 'a failed version CAS does not return false'
                if ok:
                    # desired = expected + 1  (even -> odd)
                    ok = c[5].replace(' ', '') in ('(%s+1)' % c[4], '(1+%s)' % c[4])
                    det = 'the version CAS does not move the version from v to v+1 (%s -> %s)' % (c[4], c[5])
                if ok:
                    seq = [e for e in ev if e[0] in ('write', 'sync', 'ret', 'other', 'other-if')]
                    seq = seq[:]  # after the cas (cas is first)
                    idx_sync = [i for i, e in enumerate(seq) if e[0] == 'sync']
                    writes_f = [i for i, e in enumerate(seq) if e[0] == 'write' and e[1] == field]
                    writes_o = [i for i, e in enumerate(seq) if e[0] == 'write' and e[1] != field]
                    rets = [i for i, e in enumerate(seq) if e[0] == 'ret']
                    ok = len(idx_sync) == 1 and len(writes_f) == 1 and all(i < idx_sync[0] for i in writes_o) and writes_f[0] > idx_sync[0] \
                        and rets and rets[-1] == writes_f[0] + 1 and seq[rets[-1]][1] == 1 and not [e for e in seq if e[0] in ('other', 'other-if')]
                    det = 'publisher order must be: version CAS; plain field writes; __sync_synchronize(); final store of %s; return true -- found %s' % (
                        field, [e[0] + (':' + e[1] if e[0] == 'write' else '') for e in seq])
                    if ok:
                        ok = all(seq[i][1].split('.')[0] == field.split('.')[0] for i in writes_o)
                        det = 'writes to something other than the synchronised record between CAS and barrier'
            rep.ob('R3-seqlock-publisher', label, ok, f.where, '' if ok else det)
        if f.name in ('getRootInfo', 'getFirstInfo'):
            n += 1
            dos = [s for s in f.walk() if s['k'] == 'DoStmt']
            ok = len(dos) == 2
            det = 'expected the two nested do-while loops of the seqlock reader'
            if ok:
                outer, inner = dos[0], dos[1]
                oc, ic = expr_key(kids(outer)[-1]), expr_key(kids(inner)[-1])
                ok = '%2' in ic.replace(' ', '') and 'version' in ic
                det = 'the inner loop does not spin while the version is odd (%s)' % ic
                if ok:
                    ok = '!=' in oc and 'version' in oc and ('Version()' in oc)
                    det = 'the outer loop does not re-check the version after copying (%s)' % oc
                if ok:
                    # field copies happen after the inner loop and inside the outer loop
                    body = kids(kids(outer)[0]) if kids(outer)[0]['k'] == 'CompoundStmt' else []
                    pos_inner = [i for i, s in enumerate(body) if s is inner or inner in list(walk(s))]
                    copies = [i for i, s in enumerate(body) if strip(s, casts=True)['k'] == 'BinaryOperator' and 'synced.' in expr_key(kids(strip(s, casts=True))[1])]
                    ok = bool(pos_inner) and bool(copies) and all(i > pos_inner[0] for i in copies)
                    det = 'the copies of the synchronised fields are not between the version read and the version re-check'
            rep.ob('R3-seqlock-reader', label, ok, f.where, '' if ok else det)
        if f.name == 'raiseLevel' and len(f.d['params']) == 1:
            n += 1
            writes = [m for m in f.walk() if m['k'] == 'BinaryOperator' and m['op'] == '=' and expr_key(kids(m)[0]).startswith(('synced.', 'unsynced.'))]
            calls = [m for m in f.walk() if is_call(m, 'tryUpdateRootInfo')]
            ok = not writes and len(calls) == 1
            rep.ob('R4-root-published-only-via-tryUpdate', label, ok, f.where,
                   '' if ok else 'raiseLevel(info) writes the shared root record directly (%d writes) or does not go through tryUpdateRootInfo' % len(writes))
            if calls:
                dels = [m for m in f.walk() if m['k'] == 'CXXDeleteExpr']
                okd = any(not_guarded_by(f, m, lambda core, cn=calls[0]: core.get('id') == cn['id']) for m in dels)
                rep.ob('R4-failed-raise-frees-node', label, okd, f.where, '' if okd else 'the new root is not deleted when the update lost the race')
                par = [m for m in f.walk() if m['k'] == 'BinaryOperator' and m['op'] == '=' and expr_key(kids(m)[0]).endswith('->parent')
                       and 'oldRoot' in expr_key(kids(m)[0])]
                okp = all(guarded_by(f, m, lambda core, cn=calls[0]: core.get('id') == cn['id'])[0] for m in par) and bool(par)
                rep.ob('R4-old-root-reparented-on-success-only', label, okp, f.where,
                       '' if okp else 'the old root\'s parent pointer is rewired although the new root was not published')
    return n


def rule_first_update_rechecks(rep, fs):
    """R5: the 'first leaf' record is lowered optimistically: read a snapshot, and while the own offset is smaller than the snapshot's, try to
    publish; a failed attempt means another thread changed the record, so the WHOLE snapshot has to be read again and the minimality test
    repeated -- a thread that only refreshes the version would overwrite a smaller first leaf installed concurrently (iteration and size()
    would skip the smallest keys).  Per call site of tryUpdateFirstInfo(X): it sits in a loop whose condition tests X.offset and does not
    contain the attempt itself, and inside that loop X is re-assigned as a whole from getFirstInfo()."""
    n = 0
    for f in fs:
        if f.d.get('cls') != 'SparseArray' or f.name in ('tryUpdateFirstInfo',):
            continue
        for c in f.calls('tryUpdateFirstInfo'):
            n += 1
            x = strip(call_args(c)[0], casts=True)
            det = ''
            if x['k'] != 'DeclRefExpr':
                det = 'the published snapshot is not a local variable'
            loop = None
            if not det:
                for a in f.ancestors(c):
                    if a['k'] in ('WhileStmt', 'DoStmt', 'ForStmt'):
                        loop = a
                        break
                if loop is None:
                    det = 'a failed attempt to lower the first-leaf record is not retried'
            if not det:
                if loop['k'] == 'WhileStmt':
                    cond = kids(loop)[0] if len(kids(loop)) == 2 else kids(loop)[-2]
                elif loop['k'] == 'DoStmt':
                    cond = kids(loop)[-1]
                else:
                    cond = kids(loop)[2] if len(kids(loop)) > 2 else None
                cond_nodes = list(walk(cond)) if cond is not None else []
                if any(m is c or m.get('id') == c['id'] for m in cond_nodes):
                    det = 'the attempt is retried without repeating the minimality test (the loop condition is the attempt itself)'
                elif not any(m['k'] == 'MemberExpr' and m.get('member') == 'offset' and kids(m) and strip(kids(m)[0], casts=True).get('did') == x.get('did')
                             for m in cond_nodes):
                    det = 'the retry loop does not test the snapshot\'s offset again'
            if not det:
                re = []
                for m in walk(loop):
                    if (m['k'] == 'BinaryOperator' and m.get('op') == '=') or (m['k'] == 'CXXOperatorCallExpr' and m.get('op') == '='):
                        ops = kids(m)[1:] if m['k'] == 'CXXOperatorCallExpr' else kids(m)
                        lhs, rhs = strip(ops[0], casts=True), strip(ops[1], casts=True)
                        if lhs['k'] == 'DeclRefExpr' and lhs.get('did') == x.get('did') and is_call(rhs, 'getFirstInfo'):
                            re.append(m)
                if not re:
                    det = 'after a failed attempt the snapshot is not read again as a whole (node, offset and version) from getFirstInfo()'
            rep.ob('R5-first-leaf-update-rechecks-after-failure', '%s#%d' % (tag(f), len([1 for o in rep.obligations if o['rule'] == 'R5-first-leaf-update-rechecks-after-failure' and o['instance'].startswith(tag(f) + '#')])),
                   not det, f.loc(c), det)
    return n


MUTANTS = [
    ('bitmap-load-decides', '''            if (!val.compare_exchange_strong(old, old | bit, order, order)) continue;

            // it worked, new bit added
            return true;''', '''            val.fetch_or(bit, order);

            // it worked, new bit added
            return true;''', 'R2'),
    ('bitmap-no-seen-check', '''            // if bit is already set => we are done
            if (old & bit) return false;
''', '', 'R2'),
    ('child-plain-store', '''                if (!aNext.compare_exchange_strong(next, newNext)) {
                    // some other thread was faster => use updated next
                    delete newNext;
                } else {''', '''                if (aNext.load() != nullptr) {
                    // some other thread was faster => use updated next
                    delete newNext;
                    next = aNext;
                } else {
                    aNext.store(newNext);''', 'R1'),
    ('root-publish-before-fields', '''        // conduct update
        synced.levels = info.levels;
        synced.offset = info.offset;

        // update root (and thus the version to enable future retrievals)
        __sync_synchronize();
        synced.root = info.root;
''', '''        // conduct update
        synced.levels = info.levels;

        // update root (and thus the version to enable future retrievals)
        __sync_synchronize();
        synced.root = info.root;
        synced.offset = info.offset;
''', 'R3'),
    ('first-publish-no-barrier', '''        // update node pointer (and thus the version number)
        __sync_synchronize();
        synced.first = info.node;  // must be last (and atomic)''', '''        // update node pointer (and thus the version number)
        synced.first = info.node;  // must be last (and atomic)''', 'R3'),
    ('reader-no-recheck', '''            // check consistency of obtained data (optimistic locking)
        } while (res.version != getRootVersion());''', '''            // check consistency of obtained data (optimistic locking)
        } while (false);''', 'R3'),
    ('raise-reparents-always', '''        if (tryUpdateRootInfo(info)) {
            // success => final step, update parent of old root
            oldRoot->parent = info.root;
        } else {''', '''        oldRoot->parent = info.root;
        if (tryUpdateRootInfo(info)) {
        } else {''', 'R4'),
    ('loser-leaks-and-uses-own-node', '''                    // some other thread was faster => use updated next
                    delete newNext;
                } else {''', '''                    // some other thread was faster => use updated next
                    next = newNext;
                } else {''', 'R1'),
    ('first-update-refreshes-version-only', '''                    if (!tryUpdateFirstInfo(firstInfo)) {
                        // there was some concurrent update => check again
                        firstInfo = getFirstInfo();
                    }''', '''                    if (!tryUpdateFirstInfo(firstInfo)) {
                        // there was some concurrent update => check again
                        firstInfo.version = getFirstInfo().version;
                    }''', 'R5'),
]


def analyse(rep):
    u, = facts.extract([(TU, r'datastructure/Brie\.h$', NAMES)])
    rep.add_units([u])
    fs = [f for f in u.functions if not f.is_lambda and f.cfg is not None]
    rep.floor('R1-cas-sites', rule_publish_by_cas(rep, fs), 3)
    rep.floor('R2-set-instances', rule_test_and_set(rep, fs), 1)
    rep.floor('R3R4-functions', rule_seqlock(rep, fs), 5)
    rep.floor('R5-first-update-sites', rule_first_update_rechecks(rep, fs), 2)


def run(tier='quick'):
    rep = Report('C27', tier)
    rep.explanation = ('static analysis of Brie.h (SparseArray, SparseBitMap, Trie): atomic-access inventory and CFG dominance rules for the '
                       'lazy publication of child nodes (CAS from the loaded null value, loser frees, winner adopted), the atomic test-and-set of '
                       'leaf bits (true only from the operation that set the bit; both source idioms accepted), the statement order of the '
                       'version-pointer seqlock publishers/readers, raiseLevel publishing only through tryUpdateRootInfo, and the retry discipline of the '
                       'first-leaf record (whole snapshot re-read and minimality re-tested after a failed attempt).')
    rep.assumptions = ['64-bit loads/stores of the volatile synced record are atomic (the source\'s own assumption); memory-order obligations for the '
                       '__sync seqlock are checked as statement order only',
                       'Trie::insert uses compare_exchange_weak outside a loop: recorded as cross-reference, not armed (no spurious failure on x86-64)',
                       'set semantics, iteration, getBoundaries and partitioning are NOT decided']
    try:
        analyse(rep)
        ms = [mutate.Mutant(n, HDR, o, w, e) for (n, o, w, e) in MUTANTS]
        mutate.run_mutants(rep, 'C27', ms if tier == 'thorough' else ms[:2] + ms[-1:], analyse)
    except facts.Broken as e:
        rep.analysis_broken(str(e))
    return rep.finish()

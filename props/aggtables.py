"""Aggregate tables of both back-ends (shared by C01-R1, C02-R3, C03-R3): for each AggregateOp the
initial value, the combine step, the operand type and the empty-input rule are extracted from
interpreter/Engine.cpp and synthesiser/Synthesiser.cpp and normalised to
   init    = ('limit', 'MAX'|'MIN', T) | ('zero', T)
   combine = ('min'|'max'|'+'|'count'|'mean', T)
   nested  = bool   (run the nested operation on empty input?)"""
import re
from engine import facts, tables, terms
from engine.facts import kids, walk, strip, is_call, call_args, call_obj, expr_key

TNAME = {'RamSigned': 'S', 'RamUnsigned': 'U', 'RamFloat': 'F', 'RamDomain': 'S'}
LIMIT = re.compile(r'^(MAX|MIN)_RAM_(SIGNED|UNSIGNED|FLOAT)$')
LT = {'SIGNED': 'S', 'UNSIGNED': 'U', 'FLOAT': 'F'}
TA = {'Signed': 'S', 'Unsigned': 'U', 'Float': 'F'}

ENGINE_JOB = ('src/interpreter/Engine.cpp', r'interpreter/Engine\.cpp$|src/AggregateOp\.h$', r'Engine::initValue|interpreter::runNested|Engine::evalAggregate|getTypeAttributeAggregate',
              None, None, None, True)
SYNTH_JOB = ('src/synthesiser/Synthesiser.cpp', r'synthesiser/Synthesiser\.cpp$|src/AggregateOp\.h$',
             r'CodeEmitter::(initValue|updateRes|shouldRunNested|getType|reductionOperation|visit_)|getTypeAttributeAggregate')


def _switch(f, rep, what):
    sw = tables.switches(f, enum='AggregateOp')
    if len(sw) != 1:
        rep.analysis_broken('%s: expected one switch over AggregateOp, found %d' % (what, len(sw)))
        return None
    return sw[0]


def declared_types(unit, rep):
    fs = unit.funcs(name='getTypeAttributeAggregate')
    if not fs:
        rep.analysis_broken('getTypeAttributeAggregate not found')
        return {}
    sw = _switch(fs[0], rep, 'getTypeAttributeAggregate')
    out = {}
    if sw:
        for g in sw.groups:
            t = [m['name'] for s in g.stmts for m in walk(s) if m['k'] == 'DeclRefExpr' and m.get('dk') == 'EnumConstant' and m['enum'].endswith('TypeAttribute')]
            for l in g.labels:
                out[l] = TA.get(t[0]) if t else None
    return out


def _init_term(n):
    """ramBitCast(MAX_RAM_SIGNED) / ramBitCast(static_cast<RamFloat>(0)) / 0  ->  normal form"""
    x = strip(n, casts=False)
    names = [m.get('name') for m in walk(n) if m['k'] == 'DeclRefExpr' and LIMIT.match(m.get('name', ''))]
    if names:
        m = LIMIT.match(names[0])
        return ('limit', m.group(1), LT[m.group(2)])
    lits = [m for m in walk(n) if m['k'] in ('IntegerLiteral', 'FloatingLiteral')]
    if lits and all(str(l['val']) in ('0', '0.0', '0E+0', '0.0E+0') or float(l['val']) == 0 for l in lits):
        # type: the explicit cast target, if any
        casts = [m for m in walk(n) if m['k'] in ('CXXStaticCastExpr', 'CStyleCastExpr', 'CXXFunctionalCastExpr')]
        T = terms.canon_type(casts[0]['t']) if casts else 'S'
        return ('zero', T)
    return ('?', expr_key(n))


def interpreter_tables(eng, rep):
    out = {'init': {}, 'combine': {}, 'nested': {}, 'where': {}}
    fi = [f for f in eng.functions if f.name == 'initValue' and not f.is_lambda]
    fr = [f for f in eng.functions if f.name == 'runNested' and not f.is_lambda and f.d.get('cls') is None]
    fe = [f for f in eng.functions if f.name == 'evalAggregate' and not f.is_lambda]
    if not fi or not fr or not fe:
        rep.analysis_broken('interpreter aggregate helpers not found (initValue %d, runNested %d, evalAggregate %d)' % (len(fi), len(fr), len(fe)))
        return None
    sw = _switch(fi[0], rep, 'Engine::initValue')
    if sw is None:
        return None
    out['init_has_default'] = sw.has_default
    for g in sw.groups:
        rets = [s for s in g.flat() if s['k'] == 'ReturnStmt']
        for l in g.labels:
            out['init'][l] = _init_term(kids(rets[0])[0]) if rets and kids(rets[0]) else ('?', 'no return')
            out['where'][('init', l)] = fi[0].loc({'l': g.line})
    sw = _switch(fr[0], rep, 'interpreter::runNested')
    if sw is None:
        return None
    dflt = None
    for g in sw.groups:
        rets = [s for s in g.flat() if s['k'] == 'ReturnStmt']
        v = strip(kids(rets[0])[0], casts=True).get('val') if rets and kids(rets[0]) else None
        if g.is_default:
            dflt = bool(v)
        for l in g.labels:
            out['nested'][l] = bool(v)
    out['nested_default'] = dflt
    out['where'][('nested', '*')] = fr[0].where
    # combine: one instantiation is enough (the body does not depend on the template arguments)
    f = fe[0]
    sw = _switch(f, rep, 'Engine::evalAggregate')
    if sw is None:
        return None
    out['combine_has_default'] = sw.has_default

    def arg_of(n):
        return None
    for g in sw.groups:
        st = [s for s in g.flat() if s['k'] not in ('BreakStmt',)]
        comb = ('?', 'unrecognised')
        if st:
            e = strip(st[0])
            if is_call(e) and e.get('noreturn'):
                comb = ('fatal', None)
            elif e['k'] in ('BinaryOperator', 'CompoundAssignOperator'):
                lhs = expr_key(kids(e)[0])
                rhs = kids(e)[1]
                calls = [m.get('callee') for m in walk(rhs) if is_call(m) and m.get('callee') in ('std::min', 'std::max')]
                casts = [terms.canon_type((m.get('ta') or ['?'])[0]) for m in walk(rhs) if is_call(m, 'ramBitCast') and m.get('ta') and
                         strip(call_args(m)[0], casts=True).get('name') in ('res', 'val')]
                T = casts[0] if casts else 'S'
                if lhs == 'res' and e['op'] == '=' and calls:
                    comb = (calls[0].split('::')[1], T)
                elif lhs == 'res' and (e['op'] == '+=' or (e['op'] == '=' and any(m['k'] == 'BinaryOperator' and m['op'] == '+' for m in walk(rhs)))):
                    comb = ('+', T)
                elif lhs.startswith('accumulateMean') and e['op'] == '+=':
                    cnt = any(expr_key(strip(s2)).startswith('++accumulateMean') or 'accumulateMean.second' in expr_key(strip(s2)) for s2 in st[1:])
                    comb = ('mean', T) if cnt else ('?', 'mean without count')
        for l in g.labels:
            out['combine'][l] = comb
            out['where'][('combine', l)] = f.loc({'l': g.line})
    # COUNT is handled before the switch: `if (isCount) { ++res; continue; }`
    incs = [m for m in f.walk() if m['k'] == 'UnaryOperator' and m.get('op') == '++' and expr_key(kids(m)[0]) == 'res']
    if incs and out['combine'].get('COUNT', ('?',))[0] in ('fatal', '?'):
        out['combine']['COUNT'] = ('count', 'S')
    # MEAN: final division guarded by count != 0
    div = [m for m in f.walk() if m['k'] == 'BinaryOperator' and m['op'] == '/' and 'accumulateMean' in expr_key(m)]
    # the guard lives in a lambda (ifIntrinsic(..., MEAN, [&]{ if (second != 0) res = first/second; }))
    guarded = False
    for lam in eng.functions:
        if lam.is_lambda and 'evalAggregate' in lam.qname:
            for m in lam.walk():
                if m['k'] == 'IfStmt':
                    parts = dict(zip(m['roles'], m['c']))
                    ck = expr_key(parts['cond'])
                    if 'accumulateMean.second' in ck and '!=' in ck and any(x['k'] == 'BinaryOperator' and x['op'] == '/' for x in walk(parts['then'])):
                        guarded = True
    out['mean_division_guarded'] = guarded
    return out


def synthesiser_tables(syn, rep):
    out = {'init': {}, 'combine': {}, 'nested': {}, 'reduction': {}, 'where': {}, 'type': {}}
    byname = {}
    for f in syn.functions:
        if not f.is_lambda and f.d.get('cls') == 'CodeEmitter' and f.name in ('initValue', 'updateRes', 'shouldRunNested', 'getType', 'reductionOperation'):
            byname[f.name] = f
    missing = [n for n in ('initValue', 'updateRes', 'shouldRunNested', 'getType', 'reductionOperation') if n not in byname]
    if missing:
        rep.analysis_broken('synthesiser aggregate helpers not found: %s' % missing)
        return None
    decl = declared_types(syn, rep)
    # str lambda in getType: TypeAttribute -> "RamSigned"...
    tmap = {}
    for lam in syn.functions:
        if lam.is_lambda and 'getType' in lam.qname:
            for sw in tables.switches(lam, enum='TypeAttribute'):
                for g in sw.groups:
                    lit = [m.get('str') for s in g.stmts for m in walk(s) if m['k'] == 'StringLiteral']
                    for l in g.labels:
                        tmap[l] = TNAME.get(lit[0]) if lit else None
    gt = byname['getType']
    uses_decl = any(is_call(m, 'getTypeAttributeAggregate') for m in gt.walk())
    if not tmap or not uses_decl:
        rep.analysis_broken('synthesiser getType: TypeAttribute->type-name table or getTypeAttributeAggregate use not found')
        return None
    inv = {'S': 'Signed', 'U': 'Unsigned', 'F': 'Float'}
    for op, T in decl.items():
        out['type'][op] = tmap.get(inv.get(T))
    sw = _switch(byname['initValue'], rep, 'CodeEmitter::initValue')
    if sw is None:
        return None
    out['init_has_default'] = sw.has_default
    for g in sw.groups:
        lit = [m.get('str') for s in g.stmts for m in walk(s) if m['k'] == 'StringLiteral']
        for l in g.labels:
            v = ('?', lit)
            if lit:
                m = LIMIT.match(lit[0])
                if m:
                    v = ('limit', m.group(1), LT[m.group(2)])
                elif lit[0].strip() in ('0', '0.0'):
                    v = ('zero', out['type'].get(l))     # `type res0 = 0;`
            out['init'][l] = v
            out['where'][('init', l)] = byname['initValue'].loc({'l': g.line})
    sw = _switch(byname['shouldRunNested'], rep, 'CodeEmitter::shouldRunNested')
    if sw is None:
        return None
    for g in sw.groups:
        rets = [s for s in g.flat() if s['k'] == 'ReturnStmt']
        v = strip(kids(rets[0])[0], casts=True).get('val') if rets and kids(rets[0]) else None
        if g.is_default:
            out['nested_default'] = bool(v)
        for l in g.labels:
            out['nested'][l] = bool(v)
    out['where'][('nested', '*')] = byname['shouldRunNested'].where
    sw = _switch(byname['updateRes'], rep, 'CodeEmitter::updateRes')
    if sw is None:
        return None
    out['combine_has_default'] = sw.has_default
    em = tables.Emit(lambda n: 'x' if is_call(n, 'dispatch') else None)
    for g in sw.groups:
        ev = em.events(g.flat())
        sk = ''
        for e in ev:
            if e[0] == 'lit':
                sk += e[1]
            elif e[0] == 'hole':
                sk += '⟨x⟩'
            elif e[0] == 'dyn':
                sk += '⟨%s⟩' % e[1]
        s = sk.replace(' ', '').replace('\n', '')
        for l in g.labels:
            T = out['type'].get(l)
            comb = ('?', sk)
            m = re.match(r'^res0=std::(min|max)\(res0,ramBitCast<⟨type⟩>\(⟨x⟩\)\);$', s)
            if m:
                comb = (m.group(1), T)
            elif re.match(r'^res0\+=ramBitCast<⟨type⟩>\(⟨x⟩\);$', s):
                comb = ('+', T)
            elif re.match(r'^\+\+res0;$', s):
                comb = ('count', T)
            elif re.match(r'^res0\+=ramBitCast<RamFloat>\(⟨x⟩\);\+\+res1;$', s):
                comb = ('mean', 'F')
            out['combine'][l] = comb
            out['where'][('combine', l)] = byname['updateRes'].loc({'l': g.line})
    sw = _switch(byname['reductionOperation'], rep, 'CodeEmitter::reductionOperation')
    if sw is None:
        return None
    for g in sw.groups:
        lit = [m.get('str') for s in g.stmts for m in walk(s) if m['k'] == 'StringLiteral']
        for l in g.labels:
            out['reduction'][l] = lit[0] if lit else None
            out['where'][('reduction', l)] = byname['reductionOperation'].loc({'l': g.line})
    # MEAN division guard in the emitters: "if (res1 != 0) {" precedes "res0 = res0 / res1;"
    guards = 0
    emitters = 0
    for f in syn.functions:
        if f.is_lambda and 'Aggregate' in f.qname and 'visit_' in f.qname:
            lits = [m.get('str', '') for m in f.walk() if m['k'] == 'StringLiteral']
            j = ''.join(lits).replace(' ', '')
            if 'res0=res0/res1' in j:
                emitters += 1
                if j.find('if(res1!=0)') != -1 and j.find('if(res1!=0)') < j.find('res0=res0/res1'):
                    guards += 1
    out['mean_division_guarded'] = emitters > 0 and guards == emitters
    out['mean_emitters'] = emitters
    return out


def ops_of(unit):
    e = unit.enum('AggregateOp')
    return [x['name'] for x in e['enumerators']] if e else []


def family_of(op):
    base = op[1:] if op[0] in 'UF' and op[1:] in ('MIN', 'MAX', 'SUM') else op
    return base


def check_semantics(rep, side, tab, decl, ops, rule='R1-aggregate-semantics'):
    """oracle: the aggregate semantics of the property statement + the declared result type"""
    for op in ops:
        fam = family_of(op)
        T = decl.get(op)
        init, comb, nested = tab['init'].get(op), tab['combine'].get(op), tab['nested'].get(op, tab.get('nested_default'))
        w = tab['where'].get(('combine', op)) or tab['where'].get(('init', op), '')
        want_init = {'MIN': ('limit', 'MAX', T), 'MAX': ('limit', 'MIN', T), 'SUM': ('zero', T), 'COUNT': ('zero', 'S'), 'MEAN': ('zero', None)}[fam]
        ok = init == want_init or (fam in ('MEAN',) and init is not None and init[0] == 'zero') or (
            fam in ('SUM', 'COUNT') and init is not None and init[0] == 'zero' and init[1] in (T, 'S', None))
        rep.ob(rule, '%s/%s/identity' % (side, op), ok, tab['where'].get(('init', op), w),
               '' if ok else 'initial value %s is not the identity of %s at the declared type %s (expected %s)' % (init, fam.lower(), T, want_init))
        want_comb = {'MIN': ('min', T), 'MAX': ('max', T), 'SUM': ('+', T), 'COUNT': ('count',), 'MEAN': ('mean', 'F')}[fam]
        ok = comb is not None and comb[:len(want_comb)] == want_comb
        rep.ob(rule, '%s/%s/combine' % (side, op), ok, w,
               '' if ok else 'combine step %s; the declared semantics is %s' % (comb, want_comb))
        want_nested = fam in ('SUM', 'COUNT')
        ok = nested == want_nested
        rep.ob(rule, '%s/%s/empty-input' % (side, op), ok, tab['where'].get(('nested', '*'), w),
               '' if ok else 'nested operation %s on empty input; %s over the empty set is %s' % (
                   'runs' if nested else 'does not run', fam.lower(), 'defined (0)' if want_nested else 'undefined (no result tuple)'))
    # note: a guard on the final mean division is NOT required -- over an empty input the (float) 0/0 is never
    # observed because the nested operation does not run (checked above by the empty-input rule)

"""C31 -- symbol / record interning: lane-lock pairing, guarded-by discipline of the growable
storage, the bucket-head CAS protocol, the slot protocol and the nil-record reservation
(DESIGN.md section C31)."""
import os, re
from engine import facts, pathflow, atomics, mutate
from engine.facts import kids, walk, strip, is_call, call_args, call_obj, expr_key
from engine.report import Report

TU = os.path.join(facts.VERIF, 'tu', 'ds_instances.cpp')
FILES = r'datastructure/(ConcurrentInsertOnlyHashMap|ConcurrentFlyweight|RecordTableImpl|SymbolTableImpl)\.h$|utility/ParallelUtil\.h$'
NAMES = r'ConcurrentInsertOnlyHashMap|ConcurrentFlyweight|RecordMap|RecordTable|SymbolTableImpl|ConcurrentLanes|OmpFlyweight'
LANE_CLS = ('MutexConcurrentLanes', 'ConcurrentLanes', 'SeqConcurrentLanes')
LANE_OPS = ('lock', 'unlock', 'guard', 'beforeLockAllBut', 'beforeUnlockAllBut', 'lockAllBut', 'unlockAllBut')

# helper functions whose documented contract is "called while owning a lane" (confirmed by reading; the
# caller side is checked by rule R1-helper-called-with-lane)
REQUIRES_LANE = {('ConcurrentInsertOnlyHashMap', 'tryGrow'), ('ConcurrentFlyweight', 'tryGrow'),
                 ('SpecializedRecordTable', 'createMap'), ('SpecializedRecordTable', 'lookupMap'),
                 ('MutexConcurrentLanes', 'beforeLockAllBut')}
# functions documented as single-threaded set-up / tear-down: exempt from guarded-by
SINGLE_THREADED = ('setNumLanes', 'CreateSpecializedMaps')   # CreateSpecializedMaps: constructor-only (checked: R2-setup-helper-callers)

# guarded-by table: class -> field -> (read needs, whole-object write needs, element write needs)
GUARDED = {
    'ConcurrentInsertOnlyHashMap': {'Buckets': ('lane', 'all', 'cas'), 'BucketCount': ('lane', 'all', None),
                                    'MaxSizeBeforeGrow': ('lane', 'all', None)},
    'ConcurrentFlyweight': {'Slots': ('lane', 'all', 'lane'), 'Handles': ('lane', 'single', 'lane'), 'SlotCount': (None, 'all', None)},
    'SpecializedRecordTable': {'Maps': ('lane', 'all', 'all'), 'Size': ('lane', 'all', None)},
}
MUTATING_MEMBERS = ('resize', 'reserve', 'swap', 'reset', 'push_back', 'emplace_back', 'clear', 'store')


class LaneState(tuple):
    explicit = property(lambda s: s[0])
    guards = property(lambda s: s[1])
    cap = property(lambda s: s[2])
    allheld = property(lambda s: s[3])

    rechecked = property(lambda s: s[4])

    def rep(self, **kw):
        names = ('explicit', 'guards', 'cap', 'allheld', 'rechecked')
        return LaneState(tuple(kw.get(n, self[i]) for i, n in enumerate(names)))

    @property
    def lane(self):
        return bool(self.explicit) or bool(self.guards)


class LaneClient(pathflow.Client):
    def __init__(self, func, contract_lane):
        self.func = func
        self.contract = contract_lane
        self.viol = []
        self.nops = 0
        self.cls = func.d.get('cls')
        self.exempt = bool(func.d.get('ctor') or func.d.get('dtor') or func.name in SINGLE_THREADED)
        self.guard_hits = 0

    def v(self, rule, msg, n):
        x = (rule, msg, n.get('l', 0))
        if x not in self.viol:
            self.viol.append(x)

    def initial(self, func):
        return LaneState((frozenset({'<caller>'}) if self.contract else frozenset(), frozenset(), False, False, False))

    def _lane_call(self, n):
        if n.get('k') == 'CXXMemberCallExpr' and n.get('cc') in LANE_CLS and n.get('cn') in LANE_OPS:
            a = call_args(n)
            return n['cn'], (expr_key(a[0]) if a and a[0]['k'] != 'CXXDefaultArgExpr' else '')
        return None, None

    def transfer(self, st, n, func):
        k = n.get('k')
        if k is None:
            if 'dtor' in n:
                if n['dtor'] in st.guards:
                    return [st.rep(guards=st.guards - {n['dtor']})]
            return [st]
        if k == 'DeclStmt':
            for vd in kids(n):
                if vd['k'] == 'VarDecl' and kids(vd):
                    i = strip(kids(vd)[0], casts=True)
                    if is_call(i) and i.get('cn') == 'guard' and i.get('cc') in LANE_CLS:
                        self.nops += 1
                        st = st.rep(guards=st.guards | {vd['did']})
            return [st]
        op, key = self._lane_call(n)
        if op is not None and op != 'guard':
            self.nops += 1
            if op == 'lock':
                if key in st.explicit:
                    self.v('R1-lane-pairing', 'lane `%s` locked twice on a path (std::mutex self-deadlock)' % key, n)
                if '<dropped>' in st.explicit:       # re-acquisition of the caller's lane after dropping it
                    return [st.rep(explicit=(st.explicit - {'<dropped>'}) | {'<caller>'})]
                return [st.rep(explicit=st.explicit | {key})]
            if op == 'unlock':
                if key in st.explicit:
                    return [st.rep(explicit=st.explicit - {key})]
                if '<caller>' in st.explicit:      # dropping the caller's lane (beforeLockAllBut idiom)
                    return [st.rep(explicit=(st.explicit - {'<caller>'}) | {'<dropped>'})]
                self.v('R1-lane-pairing', 'unlock(%s) on a path where this lane is not held' % key, n)
                return [st]
            if op == 'beforeLockAllBut':
                if not st.lane:
                    self.v('R1-lane-pairing', 'beforeLockAllBut() without owning a lane', n)
                if st.cap:
                    self.v('R1-lane-pairing', 'beforeLockAllBut() twice (self-deadlock on the grow mutex)', n)
                return [st.rep(cap=True, rechecked=False)]
            if op == 'beforeUnlockAllBut':
                if not st.cap:
                    self.v('R1-lane-pairing', 'beforeUnlockAllBut() without the lock-all capability', n)
                return [st.rep(cap=False)]
            if op == 'lockAllBut':
                if not st.cap:
                    self.v('R1-lane-pairing', 'lockAllBut() without the lock-all capability (two growers could deadlock)', n)
                elif not st.rechecked:
                    self.v('R1-recheck-under-capability', 'the decision to grow/create is not re-checked after beforeLockAllBut(): acquiring the capability may '
                           'block (and drop the lane) while another lane performs the very same growth, whose result would then be overwritten', n)
                return [st.rep(allheld=True)]
            if op == 'unlockAllBut':
                if not st.allheld:
                    self.v('R1-lane-pairing', 'unlockAllBut() although the other lanes are not held', n)
                return [st.rep(allheld=False)]
        # re-acquisition of the caller's lane after dropping it
        if op == 'lock' and False:
            pass
        # helper calls
        if is_call(n) and (n.get('cc'), n.get('cn')) in REQUIRES_LANE and n.get('cc') not in LANE_CLS:
            if not st.lane:
                self.v('R1-helper-called-with-lane', '%s() requires the caller to own a lane; none is held on this path' % n['cn'], n)
        # guarded-by
        if not self.exempt and k == 'MemberExpr' and n.get('field'):
            tab = GUARDED.get(n.get('mcls'))
            if tab and n['member'] in tab:
                self._guarded(st, n, tab[n['member']])
        return [st]

    def branch(self, st, cond, truth, func, tk):
        if st.cap and not st.allheld and not st.rechecked:
            return st.rep(rechecked=True)
        return st

    def _guarded(self, st, n, needs):
        f = self.func
        read_need, write_need, elem_need = needs
        # classify the access by its syntactic context
        p = f.parent(n)
        child = n
        while p is not None and p['k'] in facts.TRANSPARENT:
            child, p = p, f.parent(p)
        kind = 'read'
        if p is not None:
            pk = p['k']
            if pk in ('BinaryOperator', 'CompoundAssignOperator') and p.get('op', '').endswith('=') and p['op'] not in ('==', '!=', '<=', '>=') \
                    and kids(p)[0] is child:
                kind = 'write'
            elif pk == 'CXXOperatorCallExpr' and p.get('op') == '=' and len(kids(p)) > 1 and kids(p)[1] is child:
                kind = 'write'
            elif pk == 'UnaryOperator' and p.get('op') in ('++', '--'):
                kind = 'write'
            elif pk == 'MemberExpr' and f.parent(p) is not None and is_call(f.parent(p)) and p.get('member') in MUTATING_MEMBERS:
                kind = 'write'
            elif (pk == 'CXXOperatorCallExpr' and p.get('op') == '[]') or pk == 'ArraySubscriptExpr' or (
                    pk == 'MemberExpr' and p.get('member') in ('get',)):
                # element access: is the element assigned?
                q, c2 = f.parent(p), p
                while q is not None and q['k'] in facts.TRANSPARENT:
                    c2, q = q, f.parent(q)
                if q is not None and q['k'] in ('BinaryOperator',) and q.get('op') == '=' and kids(q)[0] is c2:
                    kind = 'elemwrite'
                elif q is not None and q['k'] == 'CXXOperatorCallExpr' and q.get('op') == '=' and kids(q)[1] is c2:
                    kind = 'elemwrite'
        need = {'read': read_need, 'write': write_need, 'elemwrite': elem_need}[kind]
        self.guard_hits += 1
        if need is None or need == 'cas':
            return
        ok = {'lane': st.lane or st.allheld, 'all': st.allheld, 'single': False}[need]
        if not ok:
            what = {'lane': 'a lane is held', 'all': 'ALL lanes are held (lockAllBut section)', 'single': 'set-up code (constructor / setNumLanes)'}[need]
            self.v('R2-guarded-by', '%s of `%s::%s` outside %s' % (
                {'read': 'read', 'write': 'replacement/resize', 'elemwrite': 'element write'}[kind], n.get('mcls'), n['member'], what), n)


def analyse_lanes(rep, u):
    nfun = nops = nguard = 0
    seen = set()
    # set-up helpers may only be called from constructors (or themselves)
    for f in u.functions:
        for n in f.walk():
            if is_call(n, 'CreateSpecializedMaps'):
                ok = bool(f.d.get('ctor')) or f.name == 'CreateSpecializedMaps'
                rep.ob('R2-setup-helper-callers', 'CreateSpecializedMaps<-%s' % f.name, ok, f.loc(n),
                       '' if ok else 'constructor-only helper called from %s (it writes Maps/Size without any lane)' % f.name)
    for f in u.functions:
        if f.is_lambda or f.cfg is None:
            continue
        cls = f.d.get('cls')
        has_lane = any(n.get('k') == 'CXXMemberCallExpr' and n.get('cc') in LANE_CLS and n.get('cn') in LANE_OPS for n in f.walk())
        touches = any(n.get('k') == 'MemberExpr' and n.get('field') and n.get('member') in GUARDED.get(n.get('mcls'), {}) for n in f.walk())
        if not has_lane and not touches:
            continue
        if cls in ('ConcurrentLanes', 'SeqConcurrentLanes') or (cls == 'MutexConcurrentLanes' and f.name != 'beforeLockAllBut'):
            continue          # thin forwarding wrappers / primitive definitions
        key = (cls, f.name, f.line, tuple(f.d.get('clsargs') or ()))
        if key in seen:
            continue
        seen.add(key)
        # iterator members reach the owner's fields through `This`: same discipline
        owner_cls = cls
        contract = (cls, f.name) in REQUIRES_LANE
        cl = LaneClient(f, contract)
        try:
            res = pathflow.run(f, cl)
        except facts.Broken as e:
            rep.analysis_broken(str(e))
            continue
        nfun += 1
        nops += cl.nops
        nguard += cl.guard_hits
        want = frozenset({'<caller>'}) if contract else frozenset()
        for st, path in res.exits:
            exp = st.explicit
            if exp != want or st.cap or st.allheld or st.guards:
                cl.v('R1-lane-pairing', 'function exit with lane state explicit=%s capability=%s all-lanes=%s (expected %s, no capability, '
                     'no other lanes) [path lines %s]' % (sorted(exp), st.cap, st.allheld, sorted(want), pathflow.path_lines(f, path)[-6:]),
                     {'l': f.d.get('endline', f.line)})
        ca = f.d.get('clsargs') or []
        label = '%s%s::%s@%s' % (cls, '<%s>' % ca[1][:24] if len(ca) > 1 else '', f.name, len(f.d['params']))
        for rule in ('R1-lane-pairing', 'R1-helper-called-with-lane', 'R1-recheck-under-capability', 'R2-guarded-by'):
            msgs = ['%s (line %s)' % (m, l) for (r, m, l) in cl.viol if r == rule]
            if rule == 'R2-guarded-by' and not cl.guard_hits:
                continue
            if rule != 'R2-guarded-by' and not has_lane:
                continue
            if rule == 'R1-recheck-under-capability' and not any(x.get('cn') == 'lockAllBut' for x in f.walk() if x.get('k') == 'CXXMemberCallExpr'):
                continue
            rep.ob(rule, label, not msgs, f.where, ' | '.join(msgs[:3]), nontrivial=bool(cl.nops or cl.guard_hits))
    return nfun, nops, nguard


def cas_protocol(rep, u):
    """R3: the bucket-head insertion protocol of ConcurrentInsertOnlyHashMap::get"""
    n_inst = 0
    done = set()
    for f in u.functions:
        if f.d.get('cls') != 'ConcurrentInsertOnlyHashMap' or f.name != 'get' or f.cfg is None:
            continue
        ca = tuple(f.d.get('clsargs') or ())
        if ca in done:
            continue
        done.add(ca)
        n_inst += 1
        label = 'ConcurrentInsertOnlyHashMap<%s>::get' % (ca[1][:24] if len(ca) > 1 else '?')
        ops = [a for a in atomics.atomic_ops_in(f.body) if a['objkey'] and a['objkey'].startswith('Buckets')]
        cas = [a for a in ops if a['kind'] == 'cas']
        stores = [a for a in ops if a['kind'] in ('store', 'rmw')]
        loads = [a for a in ops if a['kind'] == 'load']
        rep.ob('R3-head-written-only-by-cas', label, len(cas) >= 1 and not stores, f.where,
               '' if (cas and not stores) else 'bucket heads are written by %s; outside the all-lanes section the only write may be a compare_exchange' % (
                   [a['kind'] for a in stores] or 'nothing'))
        for a in loads:
            ok = a['order'] in atomics.ACQUIRE_OK
            rep.ob('R3-head-load-acquire', label, ok, f.loc(a['node']), '' if ok else 'bucket head loaded with memory_order_%s; the list behind it is then dereferenced' % a['order'])
        dom, succ, pred, reach = pathflow.dominators(f)
        for c in cas:
            ok = c['order'] in atomics.RELEASE_OK
            rep.ob('R3-cas-release', label, ok, f.loc(c['node']), '' if ok else 'publishing CAS uses memory_order_%s on success; the node contents need release' % c['order'])
            ok = c['op'] == 'compare_exchange_strong' or _in_retry_loop(f, c['node'], dom, succ)
            rep.ob('R3-cas-retry', label, ok, f.loc(c['node']), '' if ok else 'compare_exchange_weak outside a retry loop')
            exp = strip(c['expected'], casts=True)
            des = strip(c['operand'], casts=True)
            ok = exp['k'] == 'DeclRefExpr' and exp.get('dk') == 'Local'
            if not ok:
                rep.ob('R3-expected-is-searched-head', label, False, f.loc(c['node']), 'the expected operand is not a local variable')
                continue
            # the expected variable was loaded from the same cell
            inits = [vd for vd in walk(f.body) if vd['k'] == 'VarDecl' and vd.get('did') == exp['did']]
            src = atomics.atomic_op(strip(kids(inits[0])[0], casts=True)) if inits and kids(inits[0]) else None
            ok = src is not None and src['kind'] == 'load' and src['objkey'] == c['objkey']
            rep.ob('R3-expected-is-searched-head', label, ok, f.loc(c['node']),
                   '' if ok else 'the CAS expects `%s`, which is not the value loaded from the same bucket head %s' % (exp.get('name'), c['objkey']))
            # Node->Next = expected dominates the CAS, with no other assignment to expected in between
            cb = pathflow.block_of(f, c['node']['id'])
            link_ok = False
            for n in f.walk():
                if n['k'] == 'BinaryOperator' and n['op'] == '=':
                    l, r = strip(kids(n)[0], casts=True), strip(kids(n)[1], casts=True)
                    if l['k'] == 'MemberExpr' and l.get('member') == 'Next' and r['k'] == 'DeclRefExpr' and r.get('did') == exp['did']:
                        base = strip(kids(l)[0], casts=True)
                        if base['k'] == 'DeclRefExpr' and des['k'] == 'DeclRefExpr' and base.get('did') == des.get('did'):
                            b = pathflow.block_of(f, n['id'])
                            if b is not None and cb is not None and b in dom[cb]:
                                link_ok = True
            rep.ob('R3-node-linked-before-publish', label, link_ok, f.loc(c['node']),
                   '' if link_ok else 'the inserted node\'s Next is not set to the expected head on every path to the CAS (the bucket tail would be lost)')
            # other assignments to the expected variable (apart from its declaration and the CAS itself)
            others = [n for n in f.walk() if n['k'] == 'BinaryOperator' and n['op'] == '=' and strip(kids(n)[0], casts=True).get('did') == exp['did']
                      and strip(kids(n)[0], casts=True)['k'] == 'DeclRefExpr']
            bad = []
            for n in others:
                a = atomics.atomic_op(strip(kids(n)[1], casts=True))
                if not (a and a['kind'] == 'load' and a['objkey'] == c['objkey']):
                    bad.append(n)
            rep.ob('R3-expected-not-overwritten', label, not bad, f.loc(bad[0]) if bad else f.loc(c['node']),
                   '' if not bad else 'the expected head is overwritten by something other than a reload of the same cell')
            # the search limit (`while (L != SearchedFrom)`) may only be advanced to the head the search started from,
            # i.e. BEFORE the CAS refreshes the expected variable on failure
            limits = set()
            for w in f.walk():
                if w['k'] == 'WhileStmt':
                    cnd = strip(kids(w)[-2], casts=True)
                    if cnd['k'] == 'BinaryOperator' and cnd['op'] == '!=':
                        for o in kids(cnd):
                            oo = strip(o, casts=True)
                            if oo['k'] == 'DeclRefExpr' and oo.get('did') != exp.get('did'):
                                limits.add(oo.get('did'))
            for n in f.walk():
                if n['k'] == 'BinaryOperator' and n['op'] == '=':
                    l, r = strip(kids(n)[0], casts=True), strip(kids(n)[1], casts=True)
                    if l['k'] == 'DeclRefExpr' and l.get('did') in limits and r['k'] == 'DeclRefExpr' and r.get('did') == exp['did']:
                        okm = pathflow.executes_before(f, n['id'], c['node']['id'], dom)
                        rep.ob('R3-search-limit-before-cas', label, okm, f.loc(n),
                               '' if okm else 'the search limit `%s` is advanced from `%s` after the CAS may have refreshed it: nodes published by the '
                               'winning lane are never searched, the same key can be inserted twice' % (l.get('name'), exp.get('name')))
            # on CAS failure the search restarts: the CAS result guards the success exit
            p = f.parent(c['node'])
            while p is not None and p['k'] in facts.TRANSPARENT:
                p = f.parent(p)
            ok = p is not None and p['k'] in ('IfStmt', 'WhileStmt', 'UnaryOperator', 'DoStmt')
            rep.ob('R3-cas-result-checked', label, ok, f.loc(c['node']), '' if ok else 'the result of the publishing CAS is ignored')
    return n_inst


def _in_retry_loop(f, node, dom, succ):
    b = pathflow.block_of(f, node['id'])
    for x in succ:
        for h in succ[x]:
            if h in dom[x] and b is not None and h in dom[b]:
                return True
    return False


def slot_protocol(rep, u):
    """R4: ConcurrentFlyweight::findOrInsert"""
    done = set()
    n = 0
    for f in u.functions:
        if f.d.get('cls') != 'ConcurrentFlyweight' or f.name != 'findOrInsert' or f.cfg is None:
            continue
        ca = tuple(f.d.get('clsargs') or ())
        if ca in done:
            continue
        done.add(ca)
        n += 1
        label = 'ConcurrentFlyweight<%s>::findOrInsert' % (ca[1][:24] if len(ca) > 1 else '?')
        dom, succ, pred, reach = pathflow.dominators(f)
        # slot reservation is an atomic RMW on NextSlot
        ops = [a for a in atomics.atomic_ops_in(f.body) if a['objkey'] == 'NextSlot']
        ok = bool(ops) and all(a['kind'] == 'rmw' and a['op'] == '+' for a in ops)
        rep.ob('R4-slot-reserved-atomically', label, ok, f.where, '' if ok else 'NextSlot is accessed by %s' % [a['kind'] for a in ops])
        gets = [m for m in f.walk() if is_call(m, 'get') and m.get('cc') == 'ConcurrentInsertOnlyHashMap']
        writes = []
        for m in f.walk():
            if m['k'] == 'BinaryOperator' and m['op'] == '=':
                l = strip(kids(m)[0], casts=True)
                if expr_key(l).startswith('Slots['):
                    r = strip(kids(m)[1], casts=True)
                    writes.append((m, r['k'] == 'CXXNullPtrLiteralExpr'))
        ok = False
        if gets:
            gb = pathflow.block_of(f, gets[0]['id'])
            for (m, isnull) in writes:
                if not isnull:
                    b = pathflow.block_of(f, m['id'])
                    if b is not None and gb is not None and (b in dom[gb]):
                        ok = True
        rep.ob('R4-slot-filled-before-publish', label, ok, f.loc(gets[0]) if gets else f.where,
               '' if ok else 'Slots[Slot] is not written on every path before Mapping.get publishes the node (a concurrent fetch would read an empty slot)')
        # Handles[H].clear() only where the insertion succeeded (Res.second true)
        clears = [m for m in f.walk() if is_call(m, 'clear') and m.get('cc') == 'Handle']
        from props.parallel_guard import guarded_by
        for c in clears:
            okc, _ = guarded_by(f, c, lambda core: core['k'] == 'MemberExpr' and core.get('member') == 'second')
            rep.ob('R4-reservation-cleared-only-when-consumed', label, okc, f.loc(c),
                   '' if okc else 'the lane\'s reserved slot/node are cleared on a path where the node was not inserted (or kept where it was): '
                   'the next insertion on this lane would reuse or leak it')
        rep.floor('R4-reservation-cleared-only-when-consumed', len(clears), 1)
    return n


def reserve_first(rep, u):
    """R5: nil is never a record -- record maps construct their flyweight with ReserveFirst == true, the symbol table with false"""
    n = 0
    seen = set()
    for f in u.functions:
        if not f.d.get('ctor'):
            continue
        cls = f.d.get('cls')
        if cls not in ('GenericRecordMap', 'SpecializedRecordMap', 'SymbolTableImpl'):
            continue
        for ini in f.d.get('inits', []):
            if not ini['member'].startswith('base:'):
                continue
            init = ini['init']
            cons = [c for c in walk(init) if c['k'] == 'CXXConstructExpr' and c.get('cn') in ('OmpFlyweight', 'SeqFlyweight', 'ConcurrentFlyweight')]
            if not cons:
                continue
            args = kids(cons[0])
            # OmpFlyweight(LaneCount, InitialCapacity, ReserveFirst, ...)
            val = None
            if len(args) >= 3:
                a = args[2]
                if a['k'] == 'CXXDefaultArgExpr':
                    val = 0
                else:
                    x = strip(a, casts=True)
                    if x['k'] == 'CXXBoolLiteralExpr':
                        val = x['val']
                    elif 'cv' in a:
                        val = int(a['cv'])
            key = (cls, f.line)
            if key in seen:
                continue
            seen.add(key)
            n += 1
            want = 0 if cls == 'SymbolTableImpl' else 1
            ok = val == want
            rep.ob('R5-nil-reserved', '%s@%s-params' % (cls, len(f.d['params'])), ok, f.where,
                   '' if ok else '%s constructs its flyweight with ReserveFirst=%s (expected %s): %s' % (
                       cls, val, bool(want), 'index 0 (nil) could be handed out for a real record' if want else 'symbol 0 would be skipped'))
    # the arity-0 map never returns 0 either
    for f in u.functions:
        if f.d.get('cls') == 'SpecializedRecordMap' and f.name == 'pack' and (f.d.get('clsargs') or [''])[0] in ('0', '0UL'):
            vals = []
            for r in f.walk():
                if r['k'] == 'ReturnStmt' and kids(r):
                    x = kids(r)[0]
                    v = None
                    for m in walk(x):
                        if 'cv' in m:
                            v = int(m['cv'])
                            break
                        if m['k'] == 'IntegerLiteral':
                            v = int(m['val'])
                            break
                    vals.append(v)
            ok = bool(vals) and all(v is not None and v != 0 for v in vals)
            key = ('arity0', f.line)
            if key not in seen:
                seen.add(key)
                rep.ob('R5-nil-reserved', 'SpecializedRecordMap<0>::pack', ok, f.where, '' if ok else 'the empty record packs to %s; 0 is nil' % vals)
                n += 1
    return n


MUTANTS = [
    ('get-goto-skips-unlock', 'src/include/souffle/datastructure/ConcurrentInsertOnlyHashMap.h',
     '''    Done:

        Lanes.unlock(H);
''', '''        Lanes.unlock(H);

    Done:
''', 'R1'),
    ('cas-relaxed-publish', 'src/include/souffle/datastructure/ConcurrentInsertOnlyHashMap.h',
     'LastKnownHead, Node, std::memory_order_release, std::memory_order_relaxed)', 'LastKnownHead, Node, std::memory_order_relaxed, std::memory_order_relaxed)', 'R3'),
    ('node-not-linked', 'src/include/souffle/datastructure/ConcurrentInsertOnlyHashMap.h',
     '            Node->Next = LastKnownHead;\n            // The factory step', '            // The factory step', 'R3'),
    ('grow-without-all-lanes', 'src/include/souffle/datastructure/ConcurrentInsertOnlyHashMap.h',
     '''            return false;
        }

        Lanes.lockAllBut(H);

        {  // safe section

            // Compute the new number of buckets:''', '''            return false;
        }

        {  // safe section

            // Compute the new number of buckets:''', 'R'),
    ('flyweight-slot-after-publish', 'src/include/souffle/datastructure/ConcurrentFlyweight.h',
     '''        Slots[Slot] = &Node->value();

        auto Res = Mapping.get(H, Node, std::forward<Args>(Xs)...);
        if (Res.second) {''', '''        auto Res = Mapping.get(H, Node, std::forward<Args>(Xs)...);
        if (Res.second) {
            Slots[Slot] = &Node->value();''', 'R4'),
    ('flyweight-clear-on-loss', 'src/include/souffle/datastructure/ConcurrentFlyweight.h',
     '''            Slots[Slot] = nullptr;
            return std::make_pair(Res.first->second, false);''', '''            Slots[Slot] = nullptr;
            Handles[H].clear();
            return std::make_pair(Res.first->second, false);''', 'R4'),
    ('record-map-no-reserve', 'src/include/souffle/datastructure/RecordTableImpl.h',
     ': Base(LaneCount, 8, true, RecordHash(), RecordEqual(), RecordFactory()) {}', ': Base(LaneCount, 8, false, RecordHash(), RecordEqual(), RecordFactory()) {}', 'R5'),
    ('createMap-early-return-keeps-capability', 'src/include/souffle/datastructure/RecordTableImpl.h',
     '''            // Map of required arity has been created concurrently
            Lanes.beforeUnlockAllBut();
            return;''', '''            // Map of required arity has been created concurrently
            return;''', 'R1'),
    ('fetch-without-guard', 'src/include/souffle/datastructure/ConcurrentFlyweight.h',
     '''    const Key& fetch(const lane_id H, const index_type Idx) const {
        const auto Lane = Lanes.guard(H);''', '''    const Key& fetch(const lane_id H, const index_type Idx) const {''', 'R2'),
]


def analyse(rep):
    u, = facts.extract([(TU, FILES, NAMES)])
    rep.add_units([u])
    nfun, nops, nguard = analyse_lanes(rep, u)
    rep.floor('R1-lane-operations', nops, 25, '(lane lock/guard/grow operations on analysed paths)')
    rep.floor('R2-guarded-accesses', nguard, 30)
    rep.floor('R3-instances', cas_protocol(rep, u), 2)
    rep.floor('R4-instances', slot_protocol(rep, u), 2)
    rep.floor('R5-instances', reserve_first(rep, u), 3)
    rep.extra['lane_functions'] = nfun
    rep.extra['lane_operations'] = nops
    rep.extra['guarded_accesses'] = nguard


def run(tier='quick'):
    rep = Report('C31', tier)
    rep.explanation = ('static analysis of the interning tables: (R1) path-sensitive lane-lock typestate over every function that locks a lane '
                       'or grows the storage (lock/unlock incl. goto exits, RAII guards, lock-all capability and section); (R2) guarded-by: the '
                       'growable storage (Buckets, BucketCount, MaxSizeBeforeGrow, Slots, Handles, Maps, Size) is read only with a lane held and '
                       'replaced/resized only with all lanes held; (R3) the bucket-head CAS protocol of get(); (R4) the slot protocol of '
                       'findOrInsert; (R5) record maps reserve index 0 (nil), the symbol table does not.')
    rep.assumptions = ['helpers listed in REQUIRES_LANE are only entered with a lane held (their call sites are checked)',
                       'constructors, destructors and setNumLanes run single-threaded (documented in the source)',
                       'the CAS failure order (relaxed today) is recorded as a cross-reference note, not constrained (no failing history on x86-64)',
                       'the bijection itself on concurrent histories and iterator completeness across growth are NOT decided']
    try:
        analyse(rep)
        ms = [mutate.Mutant(n, f, o, w, e) for (n, f, o, w, e) in MUTANTS]
        mutate.run_mutants(rep, 'C31', ms if tier == 'thorough' else ms[:2], analyse)
    except facts.Broken as e:
        rep.analysis_broken(str(e))
    return rep.finish()

"""C15 -- printing a parsed program and re-parsing it is lossless.  Decided statically, per AST node class:

R1  PRINT SKELETON IS DERIVABLE.  The text a print() function emits is reconstructed from its AST as a skeleton: string literals,
    typed holes for sub-terms (a streamed ast::Argument is the nonterminal `arg`, an Atom `atom`, a Literal `term`/`atom`, a name IDENT,
    a quoted string STRING ...), enum holes (every enumerator's printed keyword, from the enum's own operator<< table), both branches
    of every `if`, 0/1/2 rounds of every loop / join.  The skeleton is tokenised with the scanner's literal table
    (parser/scanner.ll) and must be derivable from the node's nonterminal in the grammar (parser/parser.yy) by an Earley recogniser
    for sentential forms.  Obligation per printed FEATURE (each branch, each loop body, each enumerator): some variant containing it
    is derivable -- text that can never be re-parsed is a defect wherever it is printed.
R2  OPERATOR TABLES ROUND-TRIP.  For every BinaryConstraintOp the printed form derives from `constraint` (after an optional `!`) through
    a production whose action builds the same operator (up to overload resolution: same printed symbol; negation via
    negatedConstraintOp).  For every FUNCTOR_INTRINSICS row the printed operator/keyword is the token of a production of `arg`
    (or an alternative of `functor_built_in`) whose action names the same internal symbol.
R3  STRINGS ARE ESCAPED.  Every std::string streamed between two double-quote literals passes through a function that escapes
    at least the characters the scanner un-escapes (quote, backslash, newline, tab): checked on that function's switch table.

Not decided: operator precedence beyond the printer's own parentheses, names invented by the parser (`@var0`), the duplicate
directive an `output` qualifier produces, component bodies (printed by lambdas over seven member lists)."""
import os, re, glob, itertools
from engine import facts, tables, mutate, grammar
from engine.facts import kids, walk, strip, is_call, call_args, call_obj, expr_key
from engine.report import Report

ARG_CLASSES = ('Argument', 'Variable', 'UnnamedVariable', 'Constant', 'StringConstant', 'NumericConstant', 'NilConstant', 'Counter',
               'IterationCounter', 'Term', 'Functor', 'IntrinsicFunctor', 'UserDefinedFunctor', 'RecordInit', 'BranchInit', 'TypeCast',
               'Aggregator', 'IntrinsicAggregator', 'UserDefinedAggregator')
# C++ class of a streamed sub-term -> acceptable grammar symbols (a set: the value's dynamic class decides)
HOLE = {c: ('arg',) for c in ARG_CLASSES}
HOLE['Variable'] = ('arg', 'IDENT')     # a variable prints the identifier it was parsed from
HOLE.update({'Atom': ('atom',), 'Literal': ('term', 'atom'), 'Negation': ('term',), 'Constraint': ('constraint', 'term'),
             'BinaryConstraint': ('constraint', 'term'), 'Attribute': ('attribute', 'functor_attribute'), 'QualifiedName': ('IDENT', 'qualified_name'),
             'ExecutionPlan': ('query_plan',), 'ExecutionOrder': ('plan_order',), 'FunctionalConstraint': ('dependency',),
             'BranchType': ('adt_branch',), 'ComponentType': ('component_type',), 'Clause': ('rule', 'fact')})
# node class -> the nonterminal(s) its printed form must be derivable from
START = {
    'Atom': ('atom',), 'Negation': ('term',), 'BooleanConstraint': ('constraint',), 'Clause': ('fact', 'rule'), 'SubsumptiveClause': ('rule',),
    'Relation': ('relation_decl',), 'Attribute': ('attribute', 'functor_attribute'), 'Directive': ('directive_head',), 'Pragma': ('pragma',),
    'Lattice': ('lattice_decl',), 'FunctorDeclaration': ('functor_decl',), 'ComponentInit': ('component_init',), 'ComponentType': ('component_type',),
    'AliasType': ('type_decl',), 'SubsetType': ('type_decl',), 'UnionType': ('type_decl',), 'RecordType': ('type_decl',),
    'AlgebraicDataType': ('type_decl',), 'BranchType': ('adt_branch',),
    'RecordInit': ('arg',), 'BranchInit': ('arg',), 'TypeCast': ('arg',), 'Counter': ('arg',), 'IterationCounter': ('arg',),
    'UnnamedVariable': ('arg',), 'StringConstant': ('arg',), 'NilConstant': ('arg',), 'IntrinsicAggregator': ('arg',),
    'UserDefinedAggregator': ('arg',), 'UserDefinedFunctor': ('arg',), 'ExecutionPlan': ('query_plan',), 'ExecutionOrder': ('plan_order',),
    'FunctionalConstraint': ('dependency',),
}
# printed by dedicated rules (R2) or outside the claim (reason)
SPECIAL = {'BinaryConstraint': 'R2', 'IntrinsicFunctor': 'R2', 'QualifiedName': 'prints its segments joined by dots',
           'Component': 'body printed by lambdas over seven member lists (not decided)', 'Program': 'top-level order only (not decided)',
           'Annotation': 'free token stream (not decided)', 'Node': 'annotations helper', 'NumericConstant': 'prints the lexeme it was parsed from',
           'Variable': 'prints the identifier it was parsed from', 'Constant': 'prints the lexeme', 'Type': 'base class', 'Term': 'base class'}
# enumerators that a freshly parsed program cannot contain (who-may-set checked against parser.yy in rule_enum_exceptions)
ENUM_EXCEPT = {('RelationQualifier', 'SUPPRESSED'): 'set only by the semantic checker from --suppress-warnings',
               ('RelationRepresentation', 'INFO'): 'internal representation of provenance info relations',
               ('RelationTag', 'SUPPRESSED'): 'set only by the semantic checker'}
CAP = 4000


class Choice:
    """a point where the printed text varies; alternatives are (feature label, [items])"""

    def __init__(self, cid, alts):
        self.cid, self.alts = cid, alts


def cls_of_type(t):
    t = re.sub(r'\bconst\b', '', t or '').replace('&', '').replace('*', '').strip()
    m = re.search(r'souffle::(?:ast::)?(\w+)\s*>*\s*$', t)
    return m.group(1) if m else None


class Skeleton:
    def __init__(self, unit_funcs, enums, f):
        self.fs, self.enums, self.f = unit_funcs, enums, f
        self.n = 0
        self.quoted_strings = []      # (node, passes through escape fn?) for R3

    def cid(self, what):
        self.n += 1
        return '%s#%d' % (what, self.n)

    def stream_name(self, f):
        return f.d['params'][0]['name'] if f.d['params'] else 'os'

    def build(self):
        ev = tables.Emit(lambda e: None, (self.stream_name(self.f),)).events(kids(self.f.body))
        return self.items(ev, {})

    # ---- events -> items (str | ('hole', symbols) | Choice) --------------------------------------------------
    def items(self, ev, env):
        out = []
        for e in ev:
            k = e[0]
            if k == 'lit':
                out.append(e[1])
            elif k == 'dyn':
                out += self.dyn(e[2], env)
            elif k == 'decl':
                for vd in walk(e[1]):
                    if vd['k'] == 'VarDecl' and kids(vd):
                        v = strip(kids(vd)[0], casts=True)
                        if v['k'] == 'CXXBoolLiteralExpr':
                            env[vd['name']] = bool(v.get('val'))
            elif k == 'stmt':
                n = e[2]
                if is_call(n, 'format'):
                    out += self.fmt(n, stream_first=True)
                elif is_call(n, 'printAnnotations'):
                    continue
                elif n['k'] == 'BinaryOperator' and n.get('op') == '=':
                    l, r = kids(n)
                    l, r = strip(l, casts=True), strip(r, casts=True)
                    if l.get('name') in env:
                        env[l['name']] = bool(r.get('val')) if r['k'] == 'CXXBoolLiteralExpr' else bool(r.get('cv'))
                else:
                    out.append(('hole', ('?',)))
            elif k == 'if':
                c = strip(e[4], casts=True)
                neg = False
                while c['k'] == 'UnaryOperator' and c.get('op') == '!':
                    neg, c = not neg, strip(kids(c)[0], casts=True)
                if c['k'] == 'DeclRefExpr' and c.get('name') in env:
                    val = env[c['name']] != neg
                    out += self.items(e[2] if val else e[3], env)
                elif c['k'] == 'BinaryOperator' and c.get('op') == '>' and is_call(strip(kids(c)[0], casts=True), 'size') \
                        and str(strip(kids(c)[1], casts=True).get('cv', strip(kids(c)[1], casts=True).get('val'))) == '1' and not neg:
                    # `if (xs.size() > 1)`: the joins over xs print >= 2 elements in the then-branch and <= 1 in the else-branch
                    key = 'size:' + expr_key(call_obj(strip(kids(c)[0], casts=True)))
                    cid = self.cid('if(%s)' % e[1][:30])
                    out.append(Choice(cid, [('then', self.items(e[2], dict(env, **{key: 'many'}))), ('else', self.items(e[3], dict(env, **{key: 'few'})))]))
                else:
                    cid = self.cid('if(%s)' % e[1][:30])
                    out.append(Choice(cid, [('then', self.items(e[2], dict(env))), ('else', self.items(e[3], dict(env)))]))
            elif k == 'loop':
                cid = self.cid('loop')
                alts = []
                for rounds in (0, 1, 2):
                    env2, body = dict(env), []
                    for _ in range(rounds):
                        body += self.items(e[2], env2)
                    alts.append(('x%d' % rounds, body))
                out.append(Choice(cid, alts))
            elif k == 'return':
                continue
        return out

    def fmt(self, n, stream_first):
        a = call_args(n)
        if stream_first:
            a = a[1:]
        f0 = strip(a[0], casts=True)
        lit = next((m.get('str') for m in walk(f0) if m['k'] == 'StringLiteral'), None)
        if lit is None:
            return [('hole', ('?',))]
        parts = lit.split('%s')
        out = [parts[0]]
        for p, arg in zip(parts[1:], a[1:]):
            out += self.dyn(arg)
            out.append(p)
        return out

    def sep_of(self, n):
        lit = next((m.get('str') for m in walk(n) if m['k'] == 'StringLiteral'), None)
        return lit if lit is not None else ','        # join()'s default delimiter

    def dyn(self, n, env=None):
        env = env or {}
        n0 = strip(n, casts=True)
        while n0['k'] in ('ExprWithCleanups', 'MaterializeTemporaryExpr', 'CXXBindTemporaryExpr', 'CXXConstructExpr', 'CXXFunctionalCastExpr') and len(kids(n0)) == 1:
            n0 = strip(kids(n0)[0], casts=True)
        if is_call(n0, 'format'):
            return self.fmt(n0, stream_first=False)
        if n0['k'] == 'ParenExpr' and kids(n0):
            return self.dyn(kids(n0)[0])
        if n0['k'] == 'ConditionalOperator':
            c, a, b = kids(n0)
            return [Choice(self.cid('cond(%s)' % expr_key(c)[:24]), [('then', self.dyn(a)), ('else', self.dyn(b))])]
        if n0['k'] == 'StringLiteral':
            return [n0.get('str', '')]
        if is_call(n0, 'join'):
            a = call_args(n0)
            sep = self.sep_of(a[1]) if len(a) > 1 else ','
            lam = next((m for x in a[2:] for m in walk(x) if m['k'] == 'LambdaExpr'), None)
            if lam is not None:
                lf = [g for g in self.fs if g.is_lambda and (g.d['did'] == lam.get('lambda_did') or g.d['line'] == lam.get('l'))]
                if not lf:
                    elem = [('hole', ('?',))]
                else:
                    sub = Skeleton(self.fs, self.enums, lf[0])
                    sub.n = self.n + 100
                    elem = sub.build()
                    self.quoted_strings += sub.quoted_strings
            else:
                ct = strip(a[0], casts=True).get('t', '')
                enum = next((en for en in self.enums if re.search(r'\b%s\b' % en, ct)), None)
                if enum:
                    elem = [self.enum_choice(enum)]
                else:
                    m = re.findall(r'souffle::ast::(\w+)', ct)
                    elem = [('hole', HOLE.get(m[-1], ('?',)) if m else (('IDENT',) if 'basic_string' in ct else ('?',)))]
            cid = self.cid('join(%s)' % expr_key(strip(a[0], casts=True))[:30])
            alts = [('x0', []), ('x1', list(elem)), ('x2', list(elem) + [sep] + list(elem))]
            known = env.get('size:' + expr_key(strip(a[0], casts=True)))
            if known == 'many':
                alts = alts[2:]
            elif known == 'few':
                alts = alts[:2]
            return [Choice(cid, alts)]
        t = n0.get('t', '')
        c = cls_of_type(t)
        if c in self.enums:
            return [self.enum_choice(c)]
        if c in HOLE:
            return [('hole', HOLE[c])]
        if 'basic_string' in t or 'string_view' in t or t.startswith('const char'):
            # a function returning one of finitely many keywords? (latticeOperatorToString, getTypeName ...) -> identifier-like
            return [('hole', ('IDENT', 'qualified_name')), ]
        if re.search(r'\b(unsigned long|int|unsigned int|std::size_t)\b', t):
            return [('hole', ('NUMBER',))]
        if t == 'bool':
            return [('hole', ('IDENT',))]
        return [('hole', ('?',))]

    def enum_choice(self, enum):
        alts = []
        for name, text in sorted(self.enums[enum].items()):
            if (enum, name) in ENUM_EXCEPT:
                continue
            alts.append(('%s::%s' % (enum, name), [text]))
        return Choice(self.cid('enum ' + enum), alts)


def contains_feature(seq, ft):
    for it in seq:
        if isinstance(it, Choice):
            for lab, sub in it.alts:
                if (it.cid, lab) == ft or contains_feature(sub, ft):
                    return True
    return False


def variants(items, must=None, width=3, cap=CAP):
    """(parts, features) for combinations of the choices.  With `must` = a feature, only combinations containing it; wide choices
    (enumerators) not involved in `must` contribute their first `width` alternatives, so the product stays small."""
    def expand(seq):
        res = [([], frozenset())]
        for it in seq:
            if isinstance(it, Choice):
                alts = it.alts
                if must is not None and contains_feature([it], must):
                    alts = [(lab, sub) for lab, sub in alts if (it.cid, lab) == must or contains_feature(sub, must)]
                elif len(alts) > width:
                    alts = alts[:width]
                nxt = []
                for lab, sub in alts:
                    for s_, fs in expand(sub):
                        for (p, pf) in res:
                            if len(nxt) >= cap:
                                break
                            nxt.append((p + s_, pf | fs | {(it.cid, lab)}))
                res = nxt
            else:
                res = [(p + [it], pf) for (p, pf) in res]
        return res
    return expand(items)


def features_of(items):
    out = []
    for it in items:
        if isinstance(it, Choice):
            for lab, sub in it.alts:
                if sub:                       # an alternative that prints nothing is no obligation of its own
                    out.append((it.cid, lab))
                out += features_of(sub)
    return out


def to_form(parts, table):
    """text + holes -> list of acceptable-symbol sets"""
    text, holes = '', []
    for p in parts:
        if isinstance(p, str):
            text += p
        else:
            holes.append(p[1])
            text += '\x00%d\x00' % (len(holes) - 1)
    toks = grammar.tokenize(text, table)
    return [holes[int(t)] if t.isdigit() else (t,) for t in toks], text


class SetGrammar(grammar.Grammar):
    def derives_sets(self, start, form):
        """as Grammar.derives, but every input position is a SET of acceptable symbols ('?' accepts anything)"""
        n = len(form)
        S = [set() for _ in range(n + 1)]
        S[0].add(('$goal', (start,), 0, 0))
        for k in range(n + 1):
            work = list(S[k])
            while work:
                (a, rhs, dot, org) = work.pop()
                if dot < len(rhs):
                    x = rhs[dot]
                    if x in self.rules:
                        for r, _ in self.rules[x]:
                            it = (x, r, 0, k)
                            if it not in S[k]:
                                S[k].add(it)
                                work.append(it)
                        if x in self.nullable:
                            it = (a, rhs, dot + 1, org)
                            if it not in S[k]:
                                S[k].add(it)
                                work.append(it)
                    if k < n and (x in form[k] or '?' in form[k]):
                        S[k + 1].add((a, rhs, dot + 1, org))
                else:
                    for (b, r2, d2, o2) in list(S[org]):
                        if d2 < len(r2) and r2[d2] == a:
                            it = (b, r2, d2 + 1, o2)
                            if it not in S[k]:
                                S[k].add(it)
                                work.append(it)
        return ('$goal', (start,), 1, 0) in S[n]


# ---------------------------------------------------------------------------------------------------------------
def enum_printers(units):
    """enum name -> {enumerator: printed text} from the operator<< / to-string switch tables"""
    out = {}
    for u in units:
        for f in u.functions:
            if f.is_lambda:
                continue
            want = None
            if f.name == 'operator<<' and len(f.d['params']) == 2:
                want = cls_of_type(f.d['params'][1]['t'])
            elif f.name in ('toBinaryConstraintSymbol',):
                want = 'BinaryConstraintOp'
            if not want:
                continue
            for sw in tables.switches(f, enum=want):
                tab = {}
                for g in sw.groups:
                    lits = [m.get('str') for s in g.stmts for m in walk(s) if m['k'] == 'StringLiteral']
                    for l in g.labels:
                        tab[l] = lits[0] if lits else ''
                if tab:
                    out.setdefault(want, {}).update(tab)
    return out


def rule_skeletons(rep, units, enums, G, table):
    n = 0
    covered_classes = []
    for u in units:
        for f in u.functions:
            if f.name != 'print' or f.is_lambda or not f.d.get('cls'):
                continue
            cls = f.d['cls']
            if cls in SPECIAL:
                continue
            if cls not in START:
                rep.analysis_broken('C15: AST node class %s has a print() but no entry in the START table (new node kind?)' % cls)
                continue
            sk = Skeleton(u.functions, enums, f)
            items = sk.build()
            feats = features_of(items)
            table_cache = {}

            def derivable(parts):
                form, text = to_form(parts, table)
                key = tuple(form)
                if key not in table_cache:
                    table_cache[key] = any(G.derives_sets(st, form) for st in START[cls])
                return table_cache[key], form, text
            any_ok, sample_bad, ok_feats = False, None, set()
            for width in (3, 99):
                for parts, fs in variants(items, width=width):
                    good, form, text = derivable(parts)
                    if good:
                        any_ok = True
                        ok_feats |= fs
                    elif sample_bad is None:
                        sample_bad = (text, form)
                if any_ok:
                    break
            n += 1
            covered_classes.append(cls)
            rep.ob('R1-print-derivable', '%s::print' % cls, any_ok, f.where,
                   '' if any_ok else 'no variant of the printed text is derivable from %s; e.g. tokens %s' % (
                       '/'.join(START[cls]), ' '.join('|'.join(s_) for s_ in sample_bad[1])[:200] if sample_bad else '-'))
            if any_ok:
                for ft in feats:
                    ex = None
                    if ft not in ok_feats:
                        for parts, fs in variants(items, must=ft):
                            good, form, text = derivable(parts)
                            if good:
                                ok_feats |= fs
                                break
                            ex = ex or form
                    okf = ft in ok_feats
                    rep.ob('R1-print-feature-derivable', '%s::print/%s=%s' % (cls, re.sub(r'#\d+', '', ft[0]), ft[1]), okf, f.where,
                           '' if okf else 'whenever this part is printed the text cannot be re-parsed as %s; e.g. tokens: %s' % (
                               '/'.join(START[cls]), ' '.join('|'.join(s_) for s_ in ex)[:220] if ex else '-'), nontrivial=not okf or True)
    rep.floor('R1-printers', n, 28)
    rep.extra['classes_decided'] = sorted(covered_classes)
    rep.extra['classes_not_decided'] = {k: v for k, v in SPECIAL.items()}


def rule_escaping(rep, units, sutil):
    """R3: a std::string streamed directly between two `"` literals goes through an escaping function whose table covers " \\ \\n \\t"""
    n = 0
    for u in units:
        for f in u.functions:
            if f.name not in ('print', 'operator()') or '/src/ast/' not in ('/' + f.file):
                continue
            pname = f.d['params'][0]['name'] if f.d['params'] else None
            for m in f.walk():
                if not (m['k'] == 'CXXOperatorCallExpr' and m.get('op') == '<<'):
                    continue
                a = call_args(m)
                r = strip(a[1], casts=True)
                if not (r['k'] == 'StringLiteral' and r.get('str', '').startswith('"')):
                    continue
                # left spine: ... << "\"" << X << "\""   (r is the closing quote)
                l1 = strip(a[0], casts=True)
                if not (l1['k'] == 'CXXOperatorCallExpr' and l1.get('op') == '<<'):
                    continue
                x = strip(call_args(l1)[1], casts=True)
                l2 = strip(call_args(l1)[0], casts=True)
                if not (l2['k'] == 'CXXOperatorCallExpr' and l2.get('op') == '<<'):
                    continue
                q = strip(call_args(l2)[1], casts=True)
                if not (q['k'] == 'StringLiteral' and q.get('str', '').endswith('"')):
                    continue
                xx = x
                while xx['k'] in ('ExprWithCleanups', 'MaterializeTemporaryExpr', 'CXXBindTemporaryExpr') and kids(xx):
                    xx = strip(kids(xx)[0], casts=True)
                if 'basic_string' not in xx.get('t', ''):
                    continue
                n += 1
                esc = xx.get('cn') if is_call(xx) else None
                ok = esc is not None and esc in sutil
                why = ''
                if not ok:
                    why = 'the string %s is printed between double quotes without escaping: a value containing \\" or \\\\ does not re-parse to itself' % expr_key(xx)[:40]
                else:
                    missing = [c for c in ('"', '\\', '\n', '\t') if c not in sutil[esc]]
                    ok = not missing
                    why = '' if ok else '%s does not escape %s' % (esc, [repr(c) for c in missing])
                rep.ob('R3-quoted-strings-escaped', '%s::%s/%s' % (f.d.get('cls') or f.qname.split('::')[-3], f.name, expr_key(xx)[:30]), ok, f.loc(m), why)
    rep.floor('R3-quoted-strings', n, 2)


def escape_tables(su):
    """function name -> set of characters it rewrites (switch over a char with string results)"""
    out = {}
    for f in su.functions:
        if f.is_lambda or 'basic_string' not in f.d.get('ret', ''):
            continue
        for sw in tables.switches(f):
            chars = set()
            for g in sw.groups:
                for l in g.labels:
                    if isinstance(l, str) and len(l) == 1 and any(m['k'] == 'StringLiteral' and m.get('str', '').startswith('\\') for s in g.stmts for m in walk(s)):
                        chars.add(l)
            if chars:
                out[f.name] = chars
    return out


def rule_constraints(rep, bco, enums, G, table, astu):
    """R2 for BinaryConstraintOp: interpret BinaryConstraint::print per operator"""
    sym = enums.get('BinaryConstraintOp', {})
    from props import C06
    neg = {}
    for f in bco.funcs(name='negatedConstraintOp'):
        neg, _ = C06.enum_map(f)
    infix = {}
    for f in bco.functions:
        if f.name == 'isInfixFunctorOp' and 'BinaryConstraintOp' in f.d['params'][0]['t']:
            tab, sw = C06.enum_map(f)
            dflt = None
            for g in sw.groups:
                if g.is_default:
                    for s in g.stmts:
                        for m in walk(s):
                            if m['k'] == 'CXXBoolLiteralExpr':
                                dflt = bool(m['val'])
            infix = {op: tab.get(op, dflt) if tab.get(op) is not None else dflt for op in sym}
    pf = [f for u in astu for f in u.functions if f.name == 'print' and f.d.get('cls') == 'BinaryConstraint']
    if not sym or not neg or not infix or not pf:
        rep.analysis_broken('C15 R2: constraint tables / BinaryConstraint::print not found (%d symbols, %d negations, %d infix, %d print)' % (len(sym), len(neg or {}), len(infix), len(pf)))
        return
    f = pf[0]
    ev = tables.Emit(lambda e: None, (f.d['params'][0]['name'],)).events(kids(f.body))

    def text_for(op, evs):
        out = ''
        for e in evs:
            if e[0] == 'lit':
                out += e[1]
            elif e[0] == 'dyn':
                n = strip(e[2], casts=True)
                c = cls_of_type(n.get('t', ''))
                if c == 'BinaryConstraintOp':
                    o = op
                    if is_call(n, 'negatedConstraintOp'):
                        o = neg.get(op)
                    out += sym.get(o, '?')
                elif c in HOLE:
                    out += '\x00arg\x00'
                else:
                    out += '\x00?\x00'
            elif e[0] == 'if':
                c = strip(e[4], casts=True)
                val = cond(op, c)
                if val is None:
                    raise facts.Broken('BinaryConstraint::print: condition %s not understood' % e[1])
                out += text_for(op, e[2] if val else e[3])
            elif e[0] == 'stmt' and is_call(e[2], 'printAnnotations'):
                continue
        return out

    def cond(op, c):
        while c['k'] == 'ParenExpr':
            c = strip(kids(c)[0], casts=True)
        if is_call(c, 'isInfixFunctorOp'):
            return infix.get(op)
        if c['k'] == 'BinaryOperator' and c.get('op') == '||':
            a, b = [cond(op, strip(x, casts=True)) for x in kids(c)]
            return None if a is None or b is None else (a or b)
        if c['k'] == 'BinaryOperator' and c.get('op') in ('==', '!='):
            ec = [m.get('name') for m in walk(c) if m['k'] == 'DeclRefExpr' and m.get('dk') == 'EnumConstant']
            if len(ec) == 1:
                return (op == ec[0]) == (c['op'] == '==')
        return None
    for op in sorted(sym):
        try:
            text = text_for(op, ev)
        except facts.Broken as e:
            rep.analysis_broken(str(e))
            return
        toks = grammar.tokenize(text, table)
        negated = toks[:1] == ['EXCLAMATION']
        body = toks[1:] if negated else toks
        prods = [(rhs, act) for rhs, act in G.rules.get('constraint', []) if list(rhs) == body]
        ok, why = False, ''
        if not prods:
            why = 'printed as `%s` (tokens %s): no production of `constraint` has this shape, the text re-parses as something else or not at all' % (
                text.replace('\x00', ''), ' '.join(toks))
        else:
            m = re.search(r'BinaryConstraintOp::(\w+)', prods[0][1])
            parsed = m.group(1) if m else None
            parsed = neg.get(parsed) if negated else parsed
            ok = parsed is not None and sym.get(parsed) == sym.get(op) and infix.get(parsed) == infix.get(op) and (parsed == op or op[1:] == parsed or op == parsed)
            ok = parsed is not None and sym.get(parsed) == sym.get(op)
            why = '' if ok else 'printed as `%s`, which parses to BinaryConstraintOp::%s (a different operator)' % (text.replace('\x00', ''), parsed)
        rep.ob('R2-constraint-print-reparses', 'BinaryConstraintOp::%s' % op, ok, f.where, why)
    rep.floor('R2-constraint-operators', len(sym), 24)


class Unknown(Exception):
    pass


class MiniEval:
    """concrete evaluation of a small C++ function (string / bool / int values) -- used to run IntrinsicFunctor::print and
    isInfixFunctorOp(string_view) for every functor symbol, instead of guessing what they print"""

    def __init__(self, funcs, consts, cands_of, legacy, this_fields):
        self.funcs, self.consts, self.cands_of, self.legacy, self.this = funcs, consts, cands_of, legacy, this_fields
        self.out = []

    def call_function(self, name, args):
        fs = [f for f in self.funcs if f.name == name and not f.is_lambda and len(f.d['params']) == len(args) and
              all(('string' in p['t']) == isinstance(a, str) for p, a in zip(f.d['params'], args))]
        if not fs:
            raise Unknown('call of %s' % name)
        f = fs[0]
        env = {p['name']: a for p, a in zip(f.d['params'], args)}
        r = self.block(f.body, env)
        return r[1] if r else None

    def block(self, n, env):
        k = n['k']
        if k == 'CompoundStmt':
            for c in kids(n):
                r = self.block(c, env)
                if r:
                    return r
            return None
        if k == 'DeclStmt':
            for vd in kids(n):
                if vd['k'] == 'VarDecl':
                    env[vd['name']] = self.ev(kids(vd)[0], env) if kids(vd) else None
            return None
        if k == 'IfStmt':
            parts = dict(zip(n.get('roles', []), n['c']))
            if self.ev(parts['cond'], env):
                return self.block(parts['then'], env)
            if parts.get('else') is not None:
                return self.block(parts['else'], env)
            return None
        if k == 'ReturnStmt':
            return ('ret', self.ev(kids(n)[0], env) if kids(n) else None)
        if k == 'NullStmt':
            return None
        self.ev(n, env)
        return None

    def ev(self, n, env):
        k = n['k']
        if k in ('ImplicitCastExpr', 'ExprWithCleanups', 'MaterializeTemporaryExpr', 'CXXBindTemporaryExpr', 'ParenExpr', 'CXXFunctionalCastExpr',
                 'CXXStaticCastExpr', 'ConstantExpr', 'CStyleCastExpr'):
            return self.ev(kids(n)[0], env)
        if k in ('CXXConstructExpr', 'CXXTemporaryObjectExpr'):
            a = kids(n)
            return self.ev(a[0], env) if len(a) == 1 else ''
        if k == 'StringLiteral':
            return n.get('str', '')
        if k == 'IntegerLiteral':
            return int(n['val'])
        if k == 'CharacterLiteral':
            return chr(n['val'])
        if k == 'CXXBoolLiteralExpr':
            return bool(n.get('val'))
        if k == 'CXXNullPtrLiteralExpr' or k == 'GNUNullExpr':
            return None
        if k == 'CXXDefaultArgExpr':
            return ('default',)
        if k == 'CXXThisExpr':
            return ('this',)
        if k == 'DeclRefExpr':
            if n.get('name') in env:
                return env[n['name']]
            if n.get('name') in self.consts:
                return self.consts[n['name']]
            if n.get('dk') == 'Function':
                return ('fn', n['name'])
            raise Unknown('variable %s' % n.get('name'))
        if k == 'MemberExpr':
            base = self.ev(kids(n)[0], env) if kids(n) else None
            m = n.get('member')
            if base == ('this',) and m in self.this:
                return self.this[m]
            if isinstance(base, tuple) and base[:1] == ('cand',) and m == 'op':
                return ('op', base[1])
            return ('bound', base, m)
        if k == 'ConditionalOperator':
            c, a, b = kids(n)
            return self.ev(a, env) if self.ev(c, env) else self.ev(b, env)
        if k == 'UnaryOperator':
            v = self.ev(kids(n)[0], env)
            if n.get('op') == '!':
                return not v
            raise Unknown('unary %s' % n.get('op'))
        if k == 'BinaryOperator':
            op = n.get('op')
            if op == '||':
                return bool(self.ev(kids(n)[0], env)) or bool(self.ev(kids(n)[1], env))
            if op == '&&':
                return bool(self.ev(kids(n)[0], env)) and bool(self.ev(kids(n)[1], env))
            a, b = self.ev(kids(n)[0], env), self.ev(kids(n)[1], env)
            if op == '==':
                return a == b
            if op == '!=':
                return a != b
            if op == '=':
                tgt = strip(kids(n)[0], casts=True)
                env[tgt.get('name')] = b
                return b
            if op == '+':
                return a + b
            raise Unknown('binary %s' % op)
        if k == 'CXXOperatorCallExpr':
            op = n.get('op')
            a = call_args(n)
            if op == '<<':
                self.ev(a[0], env)
                v = self.ev(a[1], env)
                self.out.append(v)
                return ('stream',)
            if op in ('==', '!='):
                x, y = self.ev(a[0], env), self.ev(a[1], env)
                return (x == y) == (op == '==')
            if op == '+':
                return self.ev(a[0], env) + self.ev(a[1], env)
            if op == '=':
                v = self.ev(a[1], env)
                tgt = strip(a[0], casts=True)
                env[tgt.get('name')] = v
                return v
            raise Unknown('operator %s' % op)
        if k == 'CXXMemberCallExpr':
            obj = self.ev(call_obj(n), env) if call_obj(n) is not None else None
            cn = n.get('cn')
            a = [self.ev(x, env) for x in call_args(n)]
            if cn == 'empty':
                return len(obj[1]) == 0 if isinstance(obj, tuple) and obj[:1] == ('cands',) else len(obj) == 0
            if cn in ('size', 'length'):
                return len(obj[1]) if isinstance(obj, tuple) else len(obj)
            if cn == 'front':
                return ('cand', obj[1][0]) if isinstance(obj, tuple) and obj[:1] == ('cands',) else obj[0]
            if cn == 'at':
                return obj[a[0]]
            if cn == 'get':
                return obj
            if cn and cn.startswith('operator '):
                return obj
            raise Unknown('member call %s' % cn)
        if k == 'CallExpr':
            cn = n.get('cn')
            a = [self.ev(x, env) for x in call_args(n)]
            if cn == 'functorBuiltIn':
                return ('cands', self.cands_of(a[0]))
            if cn == 'toString':
                v = a[0]
                return self.legacy.get(v[1]) if isinstance(v, tuple) and v[:1] == ('op',) else str(v)
            if cn == 'isalpha':
                return isinstance(a[0], str) and a[0][:1].isalpha()
            if cn == 'strchr':
                return a[0].find(a[1]) if a[1] in a[0] else None
            if cn == 'join':
                return ('join', a[1] if len(a) > 1 and isinstance(a[1], str) else ',')   # join()'s default delimiter is ","
            return self.call_function(cn, a)
        if k == 'DeclStmt' or k == 'CompoundStmt':
            return self.block(n, env)
        raise Unknown('node %s' % k)


def rule_functors(rep, fo, G, table, astu):
    """R2 for intrinsic functors: printed keyword/operator of every FUNCTOR_INTRINSICS symbol leads back to the same symbol"""
    from props import C24
    decl = C24.declared_functors(fo, rep)
    legacy, symbol = {}, {}
    for name, tab in (('functorOpNameLegacy', legacy), ('functorOpNameSymbol', symbol)):
        for f in fo.funcs(name=name):
            for sw in tables.switches(f, enum='FunctorOp'):
                for g in sw.groups:
                    lit = [m.get('str') for s_ in g.stmts for m in walk(s_) if m['k'] == 'StringLiteral']
                    ref = [m.get('name') for s_ in g.stmts for m in walk(s_) if m['k'] == 'DeclRefExpr' and m.get('dk') not in ('EnumConstant', 'Function', 'Parm') and 'char' in m.get('t', '')]
                    for l in g.labels:
                        tab[l] = lit[0] if lit else (('@' + ref[0]) if ref else None)
    if len(legacy) < 60:
        rep.analysis_broken('C15 R2: functorOpNameLegacy table not found')
        return
    # internal symbol of each op: functorOpNameSymbol falls back to the legacy name
    NEGNAME = next((v['init_str'] for v in fo.vars if v['name'] == 'FUNCTOR_INTRINSIC_PREFIX_NEGATE_NAME' and v.get('init_str')), 'negate')
    pf = [f for u in astu for f in u.functions if f.name == 'print' and f.d.get('cls') == 'IntrinsicFunctor']
    if not pf:
        rep.analysis_broken('IntrinsicFunctor::print not found')
        return
    f = pf[0]
    # print() is RUN for every symbol (concretely, on its AST): no guess about which name it streams
    consts = {'FUNCTOR_INTRINSIC_PREFIX_NEGATE_NAME': NEGNAME}
    sym_ops = {}
    for op_, rows in decl.items():
        sy = symbol.get(op_) or legacy.get(op_)
        if sy and sy.startswith('@'):
            sy = NEGNAME
        sym_ops.setdefault(sy, []).append(op_)

    def printed(sym, arity):
        ev = MiniEval(list(fo.functions) + [f], consts, lambda x: sym_ops.get(x, []), legacy, {'function': sym})
        ev.block(f.body, {f.d['params'][0]['name']: ('stream',)})
        txt = ''
        for v in ev.out:
            if isinstance(v, tuple) and v[:1] == ('join',):
                txt += v[1].join(['\x00arg\x00'] * arity)
            elif isinstance(v, str):
                txt += v
            else:
                raise Unknown('streams %r' % (v,))
        return txt
    prods = G.rules.get('arg', [])
    fb = {}
    for rhs, act in G.rules.get('functor_built_in', []):
        m = re.search(r'"([^"]+)"', act)
        if m and len(rhs) == 1:
            fb[rhs[0]] = m.group(1)
    n = 0
    for op in sorted(decl):
        internal = symbol.get(op) or legacy.get(op)
        if internal and internal.startswith('@'):
            internal = NEGNAME
        arity = 2 if decl[op][0].get('variadic') else len(decl[op][0]['params'])
        try:
            text = printed(internal, arity)
        except (Unknown, KeyError, IndexError, TypeError) as e:
            rep.analysis_broken('C15 R2: IntrinsicFunctor::print could not be evaluated for "%s": %s' % (internal, e))
            continue
        n += 1
        toks = grammar.tokenize(text, table)
        kw = [t for t in toks if t not in ('LPAREN', 'RPAREN', 'COMMA', 'arg')]
        ok, why = False, ''
        if any(t.startswith('INVALID') or t == 'IDENT' for t in toks):
            why = 'printed as `%s` (tokens %s): not tokens of the scanner, the printed program does not re-parse' % (text.replace('\x00', ''), ' '.join(toks))
        elif not G.derives('arg', toks):
            why = 'printed as `%s` (tokens %s): not derivable from `arg`' % (text.replace('\x00', ''), ' '.join(toks))
        elif len(kw) != 1:
            why = 'printed as `%s`: expected exactly one operator/keyword token, got %s' % (text.replace('\x00', ''), kw)
        else:
            tok = kw[0]
            hits = [(rhs, act) for rhs, act in prods if tok in rhs and ('"%s"' % internal in act or (internal == NEGNAME and 'FUNCTOR_INTRINSIC_PREFIX_NEGATE_NAME' in act))]
            if hits or fb.get(tok) == internal:
                ok = True
            elif any('aggregate_func' in rhs and '"%s"' % internal in act for rhs, act in prods) and any(tok in rhs for rhs, _ in G.rules.get('aggregate_func', [])):
                ok = True
            else:
                why = 'printed as `%s` (token %s), which the grammar parses to a DIFFERENT functor than "%s": no production of `arg` with that token builds it' % (
                    text.replace('\x00', ''), tok, internal)
        rep.ob('R2-functor-print-reparses', 'FunctorOp::%s' % op, ok, f.where, why)
    rep.floor('R2-functor-operators', n, 70)


def rule_numeric_suffix(rep, astu, G):
    """R4: the parser strips the `u` of an unsigned literal and records Type::Uint; the printed constant must carry the suffix again
    (a NumericConstant with a fixed unsigned type is otherwise re-read as a signed / polymorphic number)."""
    stripped = any('UNSIGNED' in rhs and 'Uint' in act and 'substr' in act for rhs, act in G.rules.get('arg', []))
    if not stripped:
        rep.ob('R4-unsigned-suffix-printed', 'NumericConstant/Uint', True, 'src/parser/parser.yy', 'the parser keeps the lexeme of unsigned literals', nontrivial=False)
        return
    pr = [f for u in astu for f in u.functions if f.name == 'print' and f.d.get('cls') == 'NumericConstant']
    ok = bool(pr) and any(x.get('member') == 'fixedType' or is_call(x, 'getFixedType') for x in pr[0].walk()) and \
        any(x['k'] in ('StringLiteral', 'CharacterLiteral') and (x.get('str') == 'u' or x.get('val') == ord('u')) for x in pr[0].walk())
    rep.ob('R4-unsigned-suffix-printed', 'NumericConstant/Uint', ok, 'src/ast/NumericConstant.cpp',
           '' if ok else 'the parser drops the `u` of an unsigned literal (Type::Uint is kept in the node), and NumericConstant has no print() that restores it: '
           '`4294967295u` prints as `4294967295`, which no longer is an unsigned constant')


def rule_enum_exceptions(rep, enums):
    text = facts.read_repo('src/parser/parser.yy')
    for (enum, name), why in sorted(ENUM_EXCEPT.items()):
        tagname = {'RelationQualifier': 'RelationTag', 'RelationRepresentation': 'RelationTag'}.get(enum, enum)
        used = re.search(r'%s::%s\b' % (enum, name), text) or re.search(r'%s::%s\b' % (tagname, name), text)
        rep.ob('R1-unprintable-enumerator-never-parsed', '%s::%s' % (enum, name), not used, 'src/parser/parser.yy',
               '' if not used else 'the parser can now produce %s::%s, but its printed form is not a keyword' % (enum, name))


def analyse(rep):
    ast_cpp = sorted(glob.glob(os.path.join(facts.REPO, 'src/ast/*.cpp')))
    jobs = [(os.path.relpath(p, facts.REPO), r'src/ast/%s$|RelationTag\.h$|AggregateOp\.h$' % re.escape(os.path.basename(p)), r'::print$|operator<<|operator\(\)')
            for p in ast_cpp]
    jobs.append(('src/ram/transform/MakeIndex.cpp', r'BinaryConstraintOps\.h$', r'.*'))
    jobs.append(('src/FunctorOps.cpp', r'FunctorOps\.(cpp|h)$|TypeAttribute\.h$', '.*'))
    jobs.append(('src/ast/StringConstant.cpp', r'utility/StringUtil\.h$', r'escape'))
    us = facts.extract(jobs)
    astu, bco, fo, su = us[:-3], us[-3], us[-2], us[-1]
    rep.add_units(us)
    table = grammar.scanner_table()
    G = SetGrammar()
    rep.extra['scanner_literals'] = len(table)
    rep.extra['grammar_nonterminals'] = len(G.rules)
    enums = enum_printers(list(astu) + [bco])
    for need in ('RelationQualifier', 'RelationRepresentation', 'AggregateOp', 'DirectiveType', 'BinaryConstraintOp'):
        if need not in enums:
            rep.analysis_broken('C15: printer table of enum %s not found' % need)
    rule_enum_exceptions(rep, enums)
    rule_skeletons(rep, astu, enums, G, table)
    rule_constraints(rep, bco, enums, G, table, astu)
    rule_functors(rep, fo, G, table, astu)
    rule_escaping(rep, astu, escape_tables(su))
    rule_numeric_suffix(rep, astu, G)


A = 'src/ast/'
MUTANTS = [
    ('not-match-printed-as-keyword', A + 'BinaryConstraint.cpp', 'os << "!" << negatedConstraintOp(operation) << "("', 'os << operation << "("', 'R2'),
    ('string-constant-unescaped', A + 'StringConstant.cpp', 'escapeDatalogString(getConstant())', 'getConstant()', 'R3'),
    ('debug-delta-keyword-swapped', A + 'Relation.cpp', '" = debug_delta("', '" = delta_debug("', 'R1'),
    ('functor-printed-by-internal-symbol', A + 'IntrinsicFunctor.cpp', 'join(args, isWord ? " " + name + " " : name)', 'join(args, function)', 'R2'),
    ('pragma-unquoted', A + 'Pragma.cpp', 'os << ".pragma \\"" << escapeDatalogString(key) << "\\"";', 'os << ".pragma " << key;', 'R1'),
    ('lattice-without-brackets', A + 'Lattice.cpp', '"<> {\\n   "', '" {\\n   "', 'R1'),
    ('qualifier-keyword-typo', 'src/RelationTag.h', 'case RelationQualifier::NO_INLINE: return os << "no_inline";', 'case RelationQualifier::NO_INLINE: return os << "noinline";', 'R1'),
    ('aggregate-body-without-colon', A + 'IntrinsicAggregator.cpp', '" : { "', '" { "', 'R1'),
]


def run(tier='quick'):
    rep = Report('C15', tier)
    rep.explanation = ('static printer/grammar agreement: the text every AST print() emits is reconstructed as a skeleton (literals, typed holes, enum '
                       'alternatives, branch and loop variants), tokenised with the scanner\'s literal table and checked for derivability from the '
                       'node\'s nonterminal in parser.yy (Earley recogniser over sentential forms); every BinaryConstraintOp / FUNCTOR_INTRINSICS '
                       'row prints to a token whose production rebuilds the same operator; quoted strings pass through an escaping function '
                       'covering the characters the scanner un-escapes.')
    rep.assumptions = ['round trip of whole programs, precedence beyond the printer\'s own parentheses, parser-invented names and duplicate '
                       'directives are NOT decided', 'scanner.ll and parser.yy are read as text (tables of literal patterns / productions)',
                       'join() separates with "," by default; a hole accepts the nonterminal of the static C++ type of the streamed value']
    try:
        analyse(rep)
        ms = [mutate.Mutant(n, f, o, w, e) for (n, f, o, w, e) in MUTANTS]
        mutate.run_mutants(rep, 'C15', ms if tier == 'thorough' else ms[:3], analyse)
    except facts.Broken as e:
        rep.analysis_broken(str(e))
    return rep.finish()

"""C18 -- fact input accepts exactly the valid, in-range values (DESIGN.md section C18):
R1 a value parsed wide is range-checked before it is narrowed; R2 every reader call site passes a
position out-parameter and consumes it; R3 the unsigned parser's sign check covers what std::stoul
skips; R4 reader errors reach exit(failure) with a message; R5 program-text constants are guarded
by canBeParsedAsRam* of the inferred type."""
import os, re
from engine import facts, tables, mutate, pathflow
from engine.facts import kids, walk, strip, is_call, call_args, call_obj, expr_key
from engine.report import Report
from props.parallel_guard import guarded_by, not_guarded_by

TU = os.path.join(facts.VERIF, 'tu', 'io_instances.cpp')
WIDTH = {'int': 32, 'unsigned int': 32, 'long': 64, 'unsigned long': 64, 'long long': 64, 'unsigned long long': 64,
         'float': 32, 'double': 64, 'long double': 80, 'short': 16, 'unsigned short': 16}
PARSERS = ('RamSignedFromString', 'RamUnsignedFromString', 'RamFloatFromString')
STO = ('stoi', 'stol', 'stoll', 'stoul', 'stoull', 'stof', 'stod', 'stold')


def rule_narrowing(rep, u):
    n = 0
    for f in u.functions:
        if f.name not in PARSERS or f.is_lambda:
            continue
        for c in f.walk():
            if not (is_call(c) and c.get('cn') in STO and (c.get('callee') or '').startswith('std::')):
                continue
            n += 1
            wide = c.get('crt')
            # climb through value-preserving wrappers to the first conversion applied to the result
            p, child = f.parent(c), c
            narrowed_to = None
            while p is not None and p['k'] in ('ParenExpr', 'ExprWithCleanups', 'MaterializeTemporaryExpr'):
                child, p = p, f.parent(p)
            if p is not None and p['k'] == 'ImplicitCastExpr' and p.get('ck') in ('IntegralCast', 'FloatingCast'):
                if WIDTH.get(p.get('t'), 0) < WIDTH.get(wide, 0):
                    narrowed_to = p.get('t')
            if p is not None and p['k'] == 'VarDecl' and WIDTH.get(p.get('t', '').replace('const ', ''), 99) < WIDTH.get(wide, 0):
                narrowed_to = p.get('t')
            ok = narrowed_to is None
            rep.ob('R1-narrow-before-range-check', '%s/%s' % (f.name, c['cn']), ok, f.loc(c),
                   '' if ok else 'the %s result of std::%s is implicitly narrowed to %s before any range check: out-of-range input wraps silently' % (
                       wide, c['cn'], narrowed_to))
            if ok and WIDTH.get(wide, 0) > 32 and f.name == 'RamUnsignedFromString':
                # a range comparison at the wide type must guard the narrowing return
                holder = p if p is not None and p['k'] == 'VarDecl' else None
                cmpok = False
                for m in f.walk():
                    if m['k'] == 'BinaryOperator' and m['op'] in ('>', '>=', '<', '<='):
                        ops = [strip(x, casts=False) for x in kids(m)]
                        names = [strip(x, casts=True).get('name') for x in kids(m)]
                        if holder is not None and holder['name'] in names and any('max' in expr_key(x) for x in kids(m)):
                            # compared at the wide type: neither operand narrowed
                            tys = [x.get('t') for x in kids(m)]
                            cmpok = all(WIDTH.get(t, 0) >= WIDTH.get(wide, 0) for t in tys)
                rep.ob('R1-range-check-at-wide-type', f.name, cmpok, f.where,
                       '' if cmpok else 'no comparison of the wide parsed value with numeric_limits<RamUnsigned>::max() (a comparison after narrowing is a tautology)')
    rep.floor('R1-sto-calls', n, 3)


def rule_positions(rep, u):
    """R2: every Ram*FromString call in the fact readers passes a position and that position is consumed"""
    n = 0
    for f in u.functions:
        if '/io/ReadStream' not in f.file or f.is_lambda:
            continue
        for c in f.walk():
            if not (is_call(c) and c.get('cn') in PARSERS):
                continue
            n += 1
            a = call_args(c)
            pos = a[1] if len(a) > 1 else None
            inst = '%s::%s/%s@%s' % (f.d.get('cls'), f.name, c['cn'], _case_of(f, c))
            if pos is None or pos['k'] == 'CXXDefaultArgExpr' or strip(pos, casts=True)['k'] == 'CXXNullPtrLiteralExpr':
                # SQLite: the column text is produced by sqlite itself from an INTEGER column (the writer binds integers and the table
                # is declared INTEGER): there is no user-written field text to be incomplete
                if f.d.get('cls') == 'ReadStreamSQLite':
                    rep.ob('R2-position-checked', inst, True, f.loc(c), 'SQLite integer column rendered by sqlite: no trailing text possible', nontrivial=False)
                    continue
                rep.ob('R2-position-checked', inst, False, f.loc(c), 'no position out-parameter: trailing garbage after the number (`12abc`) is accepted')
                continue
            x = strip(pos, casts=True)
            var = None
            if x['k'] == 'UnaryOperator' and x['op'] == '&':
                var = strip(kids(x)[0], casts=True).get('name')
            elif x['k'] == 'DeclRefExpr':
                var = x.get('name')
            used = False
            for m in f.walk():
                if m['k'] == 'BinaryOperator' and m['op'] in ('!=', '==') and var in [strip(y, casts=True).get('name') for y in kids(m)] \
                        and any('size()' in expr_key(y) or 'length()' in expr_key(y) for y in kids(m)):
                    used = True
                if m['k'] == 'CompoundAssignOperator' and m['op'] == '+=' and strip(kids(m)[1], casts=True).get('name') == var:
                    used = True
            # helper that forwards the caller's position reference (readRamUnsigned(element, charactersRead))
            if not used and var in [p['name'] for p in f.d['params']]:
                used = True
            rep.ob('R2-position-checked', inst, used, f.loc(c),
                   '' if used else 'the consumed-characters position `%s` is never compared with the field length nor added to the cursor' % var)
    rep.floor('R2-reader-call-sites', n, 11)


def _case_of(f, c):
    for a in f.ancestors(c):
        if a['k'] == 'CaseStmt':
            return a.get('label') or (chr(a['charlabel']) if 'charlabel' in a else a.get('caseval'))
    # no enclosing case label: the ordinal of this call among the parser calls of the function (never a line number: instance
    # keys must survive edits that move code)
    calls = [m for m in f.walk() if is_call(m) and m.get('cn') in PARSERS]
    return 'call#%d' % (1 + [id(m) for m in calls].index(id(c)) if any(m is c for m in calls) else 0)


def rule_sign(rep, u):
    fs = [f for f in u.functions if f.name == 'RamUnsignedFromString']
    if not fs:
        rep.analysis_broken('RamUnsignedFromString not found')
        return
    f = fs[0]
    sto = [c for c in f.walk() if is_call(c) and c.get('cn') in STO]
    throws = [t for t in f.walk() if t['k'] == 'CXXThrowExpr']
    # a throw guarded by a condition that mentions '-' and lies before the conversion
    dom, succ, pred, reach = pathflow.dominators(f)

    def mentions_minus(core):
        for m in walk(core):
            if (m['k'] == 'CharacterLiteral' and m['val'] == 45) or (m['k'] == 'StringLiteral' and m.get('str') == '-'):
                return True
        return False
    guarded = [t for t in throws if guarded_by(f, t, mentions_minus)[0]]
    # ... and the check comes first: the conversion cannot be reached before (= cannot reach) the check
    def reaches(a, b):
        seen, stack = set(), [a]
        while stack:
            x = stack.pop()
            if x in seen:
                continue
            seen.add(x)
            stack.extend(succ.get(x, []))
        return b in seen
    ok = bool(guarded) and bool(sto) and all(not reaches(pathflow.block_of(f, s_['id']), pathflow.block_of(f, t['id'])) for s_ in sto for t in guarded)
    rep.ob('R3-sign-check', 'RamUnsignedFromString/minus-rejected', ok, f.where,
           '' if ok else 'std::stoul accepts a leading minus (and wraps); the conversion is reachable for input starting with `-`')
    # the check must look past what std::stoul skips (leading whitespace)
    skips = [m for m in f.walk() if is_call(m) and m.get('cn') in ('find_first_not_of', 'isspace', 'find_if_not', 'find_if')]
    loops = [m for m in f.walk() if m['k'] in ('WhileStmt', 'ForStmt')]
    ok2 = bool(skips)
    rep.ob('R3-sign-check', 'RamUnsignedFromString/covers-leading-whitespace', ok2, f.where,
           '' if ok2 else 'the minus check examines the first character only, while std::stoul first skips white space: " -1" is accepted as 4294967295')


def rule_error_exit(rep, eng, syn):
    # interpreter: IO case -- readAll in a try whose handler prints and exits with failure
    n = 0
    for f in eng.functions:
        if not f.is_lambda:
            continue
        tries = [t for t in f.walk() if t['k'] == 'CXXTryStmt']
        for t in tries:
            body = kids(t)[0]
            if not any(is_call(m, 'readAll') for m in walk(body)):
                continue
            n += 1
            handlers = kids(t)[1:]
            ok = bool(handlers)
            for h in handlers:
                ex = [m for m in walk(h) if is_call(m, 'exit')]
                okh = bool(ex) and all(_nonzero(call_args(m)[0]) for m in ex)
                msg = any(m['k'] == 'StringLiteral' and 'Error loading' in m.get('str', '') for m in walk(h)) and any(is_call(m, 'what') for m in walk(h))
                ok = ok and okh and msg
            rep.ob('R4-load-error-exits', 'interpreter/IO-input', ok, f.loc(t),
                   '' if ok else 'an exception from the fact reader is not turned into a message naming the relation plus exit(failure)')
    rep.floor('R4-interpreter-load-sites', n, 1)
    # the reader's own message carries column and line
    # synthesiser
    vs = [f for f in syn.funcs(name='visit_') if len(f.d['params']) > 1 and f.d['params'][1]['t'].replace('const ', '').strip(' &') == 'souffle::ram::IO']
    if not vs:
        rep.analysis_broken('synthesiser visit_(IO) not found')
        return
    lits = ''.join(m.get('str', '') for m in vs[0].walk() if m['k'] == 'StringLiteral')
    i = lits.find('->readAll(')
    j = lits.find('catch (std::exception& e)', i)
    k = lits.find('exit(1)', j)
    ok = i >= 0 and j > i and k > j and 'Error loading' in lits[j:k] and 'e.what()' in lits[j:k] and 'try {' in lits[:i]
    rep.ob('R4-load-error-exits', 'synthesiser/IO-input', ok, vs[0].where,
           '' if ok else 'the emitted loader does not wrap readAll in try/catch printing the error and calling exit(1)')


def _nonzero(a):
    x = strip(a, casts=True)
    if 'cv' in a:
        return int(a['cv']) != 0
    if x['k'] == 'IntegerLiteral':
        return int(x['val']) != 0
    return 'cv' in x and int(x['cv']) != 0


def rule_line_info(rep, u):
    """the CSV reader's conversion error carries column and line; readAll adds the file name"""
    fs = [f for f in u.functions if f.d.get('cls') == 'ReadStreamCSV' and f.name == 'readNextTuple']
    if not fs:
        rep.analysis_broken('ReadStreamCSV::readNextTuple not found')
        return
    f = fs[0]
    tries = [t for t in f.walk() if t['k'] == 'CXXTryStmt']
    ok = False
    for t in tries:
        for h in kids(t)[1:]:
            lits = ''.join(m.get('str', '') for m in walk(h) if m['k'] == 'StringLiteral')
            names = {expr_key(m) for m in walk(h) if m['k'] in ('MemberExpr', 'DeclRefExpr')}
            if 'in line' in lits and 'lineNumber' in names and any(m['k'] == 'CXXThrowExpr' for m in walk(h)):
                ok = True
    rep.ob('R4-error-names-line', 'ReadStreamCSV::readNextTuple', ok, f.where, '' if ok else 'conversion errors are not re-thrown with column and line number')


def rule_program_constants(rep, tc):
    """R5: TypeChecker guards every numeric constant with canBeParsedAsRam<inferred type>"""
    want = {'Signed': 'canBeParsedAsRamSigned', 'Unsigned': 'canBeParsedAsRamUnsigned', 'Float': 'canBeParsedAsRamFloat'}
    found = {}
    for f in tc.functions:
        for m in f.walk():
            if is_call(m) and m.get('cn') in want.values():
                # the enclosing condition mentions the matching TypeAttribute and leads to addError
                for a in f.ancestors(m):
                    if a['k'] == 'IfStmt':
                        parts = dict(zip(a['roles'], a['c']))
                        tas = {x.get('name') for x in walk(parts['cond']) if x['k'] == 'DeclRefExpr' and x.get('dk') == 'EnumConstant'}
                        err = any(is_call(x, 'addError') for x in walk(parts['then']))
                        found[m['cn']] = (tas, err, f.loc(m))
                        break
    for ta, fn in want.items():
        tas, err, where = found.get(fn, (set(), False, 'src/ast/transform/TypeChecker.cpp'))
        ok = ta in tas and err
        rep.ob('R5-constant-range-checked', 'TypeChecker/%s' % ta, ok, where,
               '' if ok else 'numeric constants of type %s are not rejected by %s before translation' % (ta, fn))


MUTANTS = [
    ('unsigned-narrow-first', 'src/include/souffle/utility/StringUtil.h',
     '    const unsigned long wide = std::stoul(tmp, position, base);', '    const RamUnsigned wide = std::stoul(tmp, position, base);', 'R1'),
    ('csv-no-completeness-check', 'src/include/souffle/io/ReadStreamCSV.h',
     '''                if (charactersRead != element.size()) {''', '''                if (false) {''', 'R2'),
    ('record-float-no-position', 'src/include/souffle/io/ReadStream.h',
     'recordValues[i] = ramBitCast(RamFloatFromString(source.substr(pos), &consumed));', 'recordValues[i] = ramBitCast(RamFloatFromString(source.substr(pos)));', 'R2'),
    ('unsigned-first-char-only', 'src/include/souffle/utility/StringUtil.h',
     '''    const auto firstNonSpace = str.find_first_not_of(" \\t\\n\\v\\f\\r");
    if (firstNonSpace != std::string::npos && str[firstNonSpace] == '-') {''', '''    if (isPrefix("-", str)) {''', 'R3'),
    ('interpreter-load-error-continues', 'src/interpreter/Engine.cpp',
     '''                    std::cerr << "Error loading " << rel.getName() << " data: " << e.what() << "\\n";
                    exit(EXIT_FAILURE);''', '''                    std::cerr << "Error loading " << rel.getName() << " data: " << e.what() << "\\n";''', 'R4'),
]


def rule_cursor_continuity(rep, u):
    """R6: the CSV field cursor never skips input.  Every `start = X + delimiter.size()` in nextElement advances from the END of
    what was consumed: X is the slice end of `element = line.substr(start, X - start)`, or the scan cursor of the quoted-field
    loop, and then only on the edges where X is at the end of the line or exactly at a separator."""
    from props.parallel_guard import cond_blocks, reach_without
    fs = [f for f in u.functions if f.name == 'nextElement' and f.d.get('cls') == 'ReadStreamCSV' and not f.is_lambda]
    if not fs:
        rep.analysis_broken('ReadStreamCSV::nextElement not found')
        return
    f = fs[0]
    cursor = f.d['params'][1]['name'] if len(f.d['params']) > 1 else 'start'
    incremented = {strip(kids(m)[0], casts=True).get('name') for m in f.walk() if m['k'] == 'UnaryOperator' and m.get('op') in ('++', 'post++', 'pre++', '++post', '++pre')}
    decl = {m['name']: m for m in f.walk() if m['k'] == 'VarDecl' and m.get('name')}
    dom = pathflow.dominators(f)[0]
    n = 0
    for m in f.walk():
        if not (m['k'] == 'BinaryOperator' and m.get('op') == '=' and strip(kids(m)[0], casts=True).get('name') == cursor):
            continue
        n += 1
        inst = 'ReadStreamCSV::nextElement/advance#%d' % n
        rhs = strip(kids(m)[1], casts=True)
        x = None
        if rhs['k'] == 'BinaryOperator' and rhs.get('op') == '+':
            a, b = [strip(y, casts=True) for y in kids(rhs)]
            if a['k'] == 'DeclRefExpr' and is_call(b, 'size') and expr_key(call_obj(b)).endswith('delimiter'):
                x = a.get('name')
        if x is None:
            rep.ob('R6-cursor-continuity', inst, False, f.loc(m), 'the cursor is not advanced by `<end of field> + delimiter.size()` (%s)' % expr_key(rhs)[:80])
            continue
        # (a) slice end of the element just cut out
        cut = [c for c in f.walk() if is_call(c, 'substr') and len(call_args(c)) == 2
               and strip(call_args(c)[0], casts=True).get('name') == cursor
               and expr_key(strip(call_args(c)[1], casts=True)).replace(' ', '').strip('()') in ('%s-%s' % (x, cursor), '-(%s,%s)' % (x, cursor))
               and pathflow.executes_before(f, c['id'], m['id'], dom)]
        if cut:
            rep.ob('R6-cursor-continuity', inst, True, f.loc(m), 'advances from the slice end `%s` of the field cut out at %s' % (x, f.loc(cut[0])))
            continue
        # (b) scan cursor of the quoted-field loop: only at end of line or exactly at a separator
        if x in incremented:
            tb = pathflow.block_of(f, m['id'])
            edges = set()
            for b, c, core, neg in cond_blocks(f):
                if core.get('k') != 'BinaryOperator' or core.get('op') not in ('==', '!='):
                    continue
                l, r = [strip(y, casts=True) for y in kids(core)]
                names = {l.get('name'), r.get('name')}
                if x not in names:
                    continue
                other = r if l.get('name') == x else l

                def at_sep(o):
                    if is_call(o, 'length') or is_call(o, 'size'):
                        return expr_key(call_obj(o)).endswith('line')
                    if is_call(o, 'find'):
                        aa = call_args(o)
                        return len(aa) == 2 and expr_key(strip(aa[0], casts=True)).endswith('delimiter') and strip(aa[1], casts=True).get('name') == x
                    if o.get('k') == 'DeclRefExpr' and o.get('name') in decl and kids(decl[o['name']]):
                        return at_sep(strip(kids(decl[o['name']])[0], casts=True))
                    return False
                if not at_sep(other):
                    continue
                eq_true = (core['op'] == '==') != neg        # does the CFG true-successor mean "x == other"?
                dst = b['s'][0] if eq_true else b['s'][1]
                if isinstance(dst, int):
                    edges.add((b['b'], dst))
            ok = bool(edges) and not reach_without(f, edges, [tb])
            rep.ob('R6-cursor-continuity', inst, ok, f.loc(m), ('scan cursor `%s`, reachable only at end of line / exactly at a separator (%d guard edges)' % (x, len(edges))) if ok else
                   'the cursor jumps past the quoted field although `%s` need not be at the end of the line or at a separator: text after the closing quote is silently dropped' % x)
            continue
        rep.ob('R6-cursor-continuity', inst, False, f.loc(m),
               'the cursor advances from `%s`, which is neither the end of the field cut out by substr(%s, %s - %s) nor the quoted-field scan position: input between them is skipped' % (x, cursor, x, cursor))
    rep.floor('R6-cursor-advances', n, 3)


def analyse(rep):
    u, eng, syn, tc = facts.extract([
        (TU, r'souffle/io/[A-Za-z]+\.h$|utility/StringUtil\.h$', r'.*'),
        ('src/interpreter/Engine.cpp', r'interpreter/Engine\.cpp$', r'Engine::execute$', None, r'ram::IO &'),
        ('src/synthesiser/Synthesiser.cpp', r'synthesiser/Synthesiser\.cpp$', r'CodeEmitter::visit_'),
        ('src/ast/transform/TypeChecker.cpp', r'transform/TypeChecker\.cpp$', r'NumericConstant|visit_|TypeCheckerImpl', None, None, r'^canBeParsedAsRam')])
    rep.add_units([u, eng, syn, tc])
    rule_narrowing(rep, u)
    rule_positions(rep, u)
    rule_sign(rep, u)
    rule_error_exit(rep, eng, syn)
    rule_line_info(rep, u)
    rule_program_constants(rep, tc)
    rule_cursor_continuity(rep, u)


def run(tier='quick'):
    rep = Report('C18', tier)
    rep.explanation = ('static error/range-discipline analysis of the fact loader: std::sto* results are range-checked at their own width before '
                       'any narrowing; every Ram*FromString call in the readers passes a position out-parameter that is compared with the field '
                       'length or added to the cursor; the unsigned parser rejects a minus sign also behind leading white space; reader exceptions '
                       'reach a message + exit(failure) in both back-ends; program-text constants are guarded by canBeParsedAsRam* of the inferred type.')
    rep.assumptions = ['crash-freedom on arbitrary bytes (index arithmetic of nextElement) is NOT decided',
                       'std::stoi/stof/stoul throw on unparsable / out-of-range input for their own return type (library contract)']
    try:
        analyse(rep)
        ms = [mutate.Mutant(n, f, o, w, e) for (n, f, o, w, e) in MUTANTS]
        mutate.run_mutants(rep, 'C18', ms if tier == 'thorough' else ms[:3], analyse)
    except facts.Broken as e:
        rep.analysis_broken(str(e))
    return rep.finish()

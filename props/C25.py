"""C25 (and, parameterised, C26 / the LambdaBTree part of C28) -- B-tree insertion uses the optimistic
lock correctly on every path: write-phase pairing, container transfer/drain, callee preconditions,
stores under the write phase, root-lock release kind, lease validation (DESIGN.md section C25)."""
import os, re
from props import comparators
from engine import facts, pathflow, lockflow, mutate
from engine.facts import kids, walk, strip, is_call, call_args, call_obj, expr_key
from engine.report import Report

TU = os.path.join(facts.VERIF, 'tu', 'ds_instances.cpp')
NAME_RE = r'::(insert|split|rebalance_or_split|grow_parent|insert_inner)$'
WRITE_OPS = ('start_write', 'try_start_write', 'try_upgrade_to_write', 'end_write', 'abort_write')

RULES = ('R1-double-acquire', 'R1-release-not-held', 'R1-release-not-owned', 'R1-base-reassigned', 'R1-transfer-unlocked',
         'R1-drain-incomplete', 'R1-exit-with-lock', 'R1-exit-undrained', 'R3-callee-precondition',
         'R3-store-outside-write-phase', 'R4-root-release-kind', 'R2-result-from-unvalidated-read', 'R5-locked-pointer-rechecked')


def insert_store_rule(key):
    """guarded-by relation inside insert(): node payload by the node's lock, root/leftmost by root_lock"""
    m = re.match(r'^(\w+)->(keys|numElements)\b', key)
    if m and m.group(1) not in ('leftmost',):
        return m.group(1) + '->lock'
    if key in ('root', 'leftmost') or key.startswith('leftmost->'):
        return 'root_lock'
    return None


def tag(f):
    ca = f.d.get('clsargs') or []
    if f.d.get('cls') == 'node':
        m = re.search(r'(btree_delete|btree|LambdaBTree)<([^,]*(?:<[^>]*>)?[^,]*)', f.qname)
        q = f.qname
        owner = 'btree_delete' if 'btree_delete<' in q else 'btree'
        key = re.search(owner + r'<(std::array<int, \d+>|std::pair<[^>]*(?:<[^>]*>)?[^>]*>)', q)
        return '%s<%s>::node' % (owner, key.group(1) if key else '?')
    return '%s<%s%s>' % (f.d.get('cls'), ca[0] if ca else '?', ',multiset' if len(ca) > 5 and ca[5] == 'false' else '')


def lease_rule(rep, f, label):
    """R2 (structural core): every read lease opened in insert()/checkHint is consumed by validate / end_read /
    try_upgrade_to_write (directly, or after being copied into another lease variable that is)."""
    opened, used, copies = {}, set(), {}
    for n in f.walk():
        if n.get('k') == 'CXXMemberCallExpr' and n.get('cc') == lockflow.LOCK_CLS:
            if n['cn'] in ('validate', 'end_read', 'try_upgrade_to_write'):
                for a in call_args(n):
                    x = strip(a, casts=True)
                    if x['k'] in ('DeclRefExpr', 'MemberExpr'):
                        used.add(expr_key(x))
        if n.get('k') == 'VarDecl' and kids(n):
            i = strip(kids(n)[0], casts=True)
            if i.get('k') == 'CXXMemberCallExpr' and i.get('cc') == lockflow.LOCK_CLS and i.get('cn') == 'start_read':
                opened[n['name']] = (expr_key(call_obj(i)), n)
            elif i.get('k') == 'DeclRefExpr' and 'Lease' in n.get('t', ''):
                copies.setdefault(i['name'], set()).add(n['name'])
        if n.get('k') in ('BinaryOperator', 'CXXOperatorCallExpr') and n.get('op') == '=':
            cs = kids(n)[-2:]
            l, r = strip(cs[0], casts=True), strip(cs[1], casts=True)
            if r.get('k') == 'CXXMemberCallExpr' and r.get('cc') == lockflow.LOCK_CLS and r.get('cn') == 'start_read':
                opened[expr_key(l)] = (expr_key(call_obj(r)), n)
            elif r.get('k') == 'DeclRefExpr' and 'Lease' in r.get('t', ''):
                copies.setdefault(r['name'], set()).add(expr_key(l))

    def consumed(v, seen=()):
        if v in used:
            return True
        return any(consumed(w, seen + (v,)) for w in copies.get(v, ()) if w not in seen)
    for v, (lockkey, n) in sorted(opened.items()):
        ok = consumed(v)
        rep.ob('R2-lease-validated', '%s/%s/%s' % (label, f.name if not f.is_lambda else 'checkHint', v), ok, f.loc(n),
               '' if ok else 'the read lease `%s` taken on %s is never validated (validate / end_read / try_upgrade_to_write)' % (v, lockkey))


def hint_rule(rep, lam, label):
    """checkHint: `cur = last_insert` (adoption) must be dominated by the success edge of validate(hint_lease)"""
    dom, succ, pred, reach = pathflow.dominators(lam)
    val_blocks, adopt_blocks = [], []
    for b in lam.cfg['blocks']:
        for e in b['e']:
            n = lam.node(e) if isinstance(e, int) else None
            if n is None:
                continue
            if n['k'] == 'CXXMemberCallExpr' and n.get('cc') == lockflow.LOCK_CLS and n.get('cn') in ('validate', 'end_read'):
                val_blocks.append(b['b'])
            if n['k'] == 'BinaryOperator' and n['op'] == '=' and expr_key(kids(n)[0]) in ('cur', 'cur_lease'):
                adopt_blocks.append((b['b'], n))
    for bid, n in adopt_blocks:
        ok = any(v in dom[bid] and v != bid for v in val_blocks)
        # and the adopting block is not reachable through the failure edge: the validate block's terminator is `!validate` -> return
        rep.ob('R2-hint-validated-before-use', '%s/checkHint/%s' % (label, expr_key(kids(n)[0])), ok, lam.loc(n),
               '' if ok else 'hinted node adopted without a dominating validate() of its lease')
    return len(adopt_blocks)


def analyse_unit(rep, u, classes, label_prefix=''):
    """classes: which owner classes to analyse ('btree', 'LambdaBTree', 'btree_delete')"""
    counts = dict(acquire=set(), release=set(), transfer=set(), drain=set(), funcs=0, states=0, precond=set(), store=set(), restart=set())
    seen_writers = set()
    for f in u.functions:
        owner = 'btree_delete' if 'btree_delete<' in f.qname else ('LambdaBTree' if f.d.get('cls') == 'LambdaBTree' or 'LambdaBTree<' in f.qname.split('::node')[0].split('btree<')[0] else 'btree')
        if f.d.get('cls') == 'LambdaBTree':
            owner = 'LambdaBTree'
        if owner not in classes:
            continue
        nlock = [n for n in f.walk() if n.get('k') == 'CXXMemberCallExpr' and n.get('cc') == lockflow.LOCK_CLS and n.get('cn') in WRITE_OPS]
        if f.is_lambda:
            if any(n.get('cn') == 'start_read' for n in f.walk() if n.get('cc') == lockflow.LOCK_CLS):
                lease_rule(rep, f, tag_lambda(f, owner))
                hint_rule(rep, f, tag_lambda(f, owner))
            if nlock:
                rep.analysis_broken('%s: a lambda opens/closes write phases (not a recognised idiom)' % f.where)
            continue
        if not nlock:
            continue
        label = tag(f)
        is_insert = f.name == 'insert'
        pc = [p['name'] for p in f.d['params'] if 'std::vector<' in p['t'] and 'node *' in p['t']]
        try:
            cl, res = lockflow.analyse(f, param_containers=pc, store_rules=[insert_store_rule] if is_insert else None, lease_rule=is_insert)
        except facts.Broken as e:
            rep.analysis_broken(str(e))
            continue
        counts['funcs'] += 1
        counts['states'] += res.nstates
        for k in ('acquire', 'release', 'transfer', 'drain', 'precond', 'store', 'restart'):
            counts[k] |= {(f.file, x) for x in cl.events[k]}
        counts['acquire'] |= {(f.file, x) for x in cl.events['try']}
        byrule = {}
        for (rule, msg, line) in cl.violations:
            byrule.setdefault(rule, []).append('%s (line %s)' % (msg, line))
        for rule in RULES:
            if rule.startswith('R3-store') and not is_insert:
                continue
            if (rule.startswith('R4') or rule.startswith('R2-result') or rule.startswith('R5')) and not is_insert:
                continue
            msgs = byrule.get(rule, [])
            rep.ob(rule, '%s::%s' % (label, f.name), not msgs, f.where, ' | '.join(msgs[:3]),
                   nontrivial=bool(cl.events['acquire'] or cl.events['try'] or cl.events['release']))
        if is_insert:
            lease_rule(rep, f, label)
    return counts


def tag_lambda(f, owner):
    m = re.search(r'<(std::array<int, \d+>|std::pair<[^>]*(?:<[^>]*>)?[^>]*>)', f.qname)
    return '%s<%s>' % (owner, m.group(1) if m else '?')


def siblings_rule(rep, u, a_owner, b_owner):
    """C26-R1 cross-check: the hand-copied sibling must have the same lock events per function (multiset of
    (operation, lock expression)) modulo a frozen difference list (empty today)."""
    def sig(owner):
        out = {}
        for f in u.functions:
            if f.is_lambda:
                continue
            o = 'btree_delete' if 'btree_delete<' in f.qname else ('LambdaBTree' if f.d.get('cls') == 'LambdaBTree' else 'btree')
            if o != owner:
                continue
            ca = f.d.get('clsargs') or []
            evs = sorted((n['cn'], expr_key(call_obj(n)) if call_obj(n) is not None else '?') for n in f.walk()
                         if n.get('k') == 'CXXMemberCallExpr' and n.get('cc') == lockflow.LOCK_CLS)
            if evs:
                out.setdefault((f.d.get('cls') == 'node', f.name, len(f.d['params'])), evs)
        return out
    sa, sb = sig(a_owner), sig(b_owner)
    n = 0
    for k in sorted(set(sa) | set(sb)):
        ea, eb = sa.get(k, []), sb.get(k, [])
        ok = ea == eb
        det = ''
        if not ok:
            da = [e for e in ea if e not in eb]
            db = [e for e in eb if e not in ea]
            det = 'lock events differ: only in %s: %s; only in %s: %s' % (a_owner, da, b_owner, db)
        rep.ob('R1-sibling-lock-events', '%s~%s::%s%s' % (a_owner, b_owner, 'node::' if k[0] else '', k[1]), ok,
               'src/include/souffle/datastructure/BTreeDelete.h', det)
        n += 1
    return n


MUTANTS_BTREE = [
    ('insert-missing-end_write-after-update', '''                        bool updated = update(*pos, k);
                        cur->lock.end_write();
                        return updated;''', '''                        bool updated = update(*pos, k);
                        return updated;''', 'R1-exit-with-lock'),
    ('insert-restart-keeps-lock', '''                if (((size_type)idx) > cur->numElements) {
                    // release current lock
                    cur->lock.end_write();
''', '''                if (((size_type)idx) > cur->numElements) {
''', 'R1-exit-with-lock'),
    ('drain-skips-root', '''                        if (old_root != root) {
                            root_lock.end_write();
                        } else {
                            root_lock.abort_write();
                        }''', '''                        if (old_root != root) {
                            root_lock.end_write();
                        }''', 'R1-drain-incomplete'),
    ('root-always-abort', '''                        if (old_root != root) {
                            root_lock.end_write();
                        } else {
                            root_lock.abort_write();
                        }''', '''                        root_lock.abort_write();''', 'R4-root-release-kind'),
    ('split-forgets-to-record-sibling', '''            sibling->lock.start_write();
            locked_nodes.push_back(sibling);''', '''            sibling->lock.start_write();''', 'R1-exit-with-lock'),
    ('rebalance-no-abort', '''#ifdef IS_PARALLEL
                left->lock.abort_write();
#endif''', '', 'R1-exit-with-lock'),
    ('leaf-write-before-upgrade', '''            // upgrade to write-permission
            if (!cur->lock.try_upgrade_to_write(cur_lease)) {
                // something has changed => restart
                hints.last_insert.access(cur);
                return insert(k, hints);
            }
''', '''            // upgrade to write-permission
            if (!cur->lock.try_upgrade_to_write(cur_lease)) {
                // something has changed => restart
                hints.last_insert.access(cur);
            }
''', 'R'),
    ('first-element-without-root-lock', '''            if (!root_lock.try_start_write()) {
                // somebody else was faster => re-check
                continue;
            }
''', '''            if (!root_lock.try_start_write()) {
                // somebody else was faster => re-check
            }
''', 'R'),
    ('parent-switch-without-abort', '''                            // switch parent
                            parent->lock.abort_write();
                            parent = priv->parent;''', '''                            // switch parent
                            parent = priv->parent;''', 'R1'),
    ('hint-not-validated', '''            if (!last_insert->lock.validate(hint_lease)) return false;
            // use hinted location''', '''            // use hinted location''', 'R2'),
]


def rule_child_loops(rep, header_re, label):
    """R7: an inner node with n keys has n+1 children.  In every node-restructuring function (split, rebalance, merge, erase) a loop that moves /
    clears CHILD pointers upwards therefore runs exactly one step further than the loop over the KEYS of the same range: its bound is the
    keys' bound plus one (`<=` instead of `<`, or E+1 instead of E).  A children loop with no such keys loop in the same function loses or
    duplicates a subtree."""
    u, = facts.extract([(TU, header_re, r'split$|rebalance|merge|erase$|erase\(', None, None, None, True)])
    rep.add_units([u])

    def norm(e):
        e = strip(e, casts=True)
        while e['k'] == 'ParenExpr' and kids(e):
            e = strip(kids(e)[0], casts=True)
        off = 0
        if e['k'] == 'BinaryOperator' and e.get('op') in ('+', '-'):
            r = strip(kids(e)[1], casts=True)
            v = r.get('cv', r.get('val'))
            try:
                off = int(v) if e['op'] == '+' else -int(v)
                e = strip(kids(e)[0], casts=True)
                while e['k'] == 'ParenExpr' and kids(e):
                    e = strip(kids(e)[0], casts=True)
            except (TypeError, ValueError):
                off = 0
        base = expr_key(e).replace('getNumElements()', 'numElements').replace('.asInnerNode()', '').replace('this.', '').replace('(', '').replace(')', '').replace(' ', '')
        return base, off
    n = 0
    seen = set()
    for f in u.functions:
        key = (f.file.split('/')[-1], f.name, f.line)
        if key in seen or f.is_lambda:
            continue
        seen.add(key)
        keys_b, child_loops = set(), []
        for lp in [m for m in f.walk() if m['k'] == 'ForStmt']:
            roles = dict(zip(lp.get('roles', []), lp['c']))
            body, cond = roles.get('body'), roles.get('cond')
            if body is None or cond is None:
                continue
            c = strip(cond, casts=True)
            if c['k'] != 'BinaryOperator' or c.get('op') not in ('<', '<='):
                continue
            kind = None
            for m in walk(body):
                if (m['k'] == 'BinaryOperator' and m.get('op') == '=') or (m['k'] == 'CXXOperatorCallExpr' and m.get('op') == '='):
                    l = (kids(m) if m['k'] == 'BinaryOperator' else call_args(m))[0]
                    k = expr_key(strip(l, casts=True))
                    if kind is None and re.search(r'keys\[', k):
                        kind = 'keys'
                    if re.search(r'hildren(\(\))?\[', k):
                        kind = 'children'
            if kind is None:
                continue
            base, off = norm(kids(c)[1])
            if c['op'] == '<=':
                off += 1
            if kind == 'keys':
                keys_b.add((base, off))
            else:
                child_loops.append((lp, base, off))
        for lp, base, off in child_loops:
            n += 1
            ok = (base, off - 1) in keys_b
            rep.ob('R7-child-loops-one-more-than-keys', '%s::%s/children-loop-to-%s%+d' % (label, f.name, base, off), ok, f.loc(lp),
                   '' if ok else 'this loop moves child pointers up to %s%+d, but no loop over the keys of the same function runs to %s%+d: an inner node with n keys has '
                   'n+1 children, the last (or an extra) child pointer is lost or duplicated (keys loops: %s)' % (base, off, base, off - 1, sorted(keys_b)))
    return n


CMP_MUTANTS = [
    ('comparator-direction-reversed', 'src/include/souffle/datastructure/BTreeUtil.h', '        return (a > b) - (a < b);', '        return (a < b) - (a > b);', 'R6'),
    ('interpreter-comparator-equal-ignores-tail', 'src/interpreter/Util.h',
     '        return a[First] == b[First] && comparator<Rest...>().equal(a, b);', '        return a[First] == b[First];', 'R6'),
]


def run_for(pid, classes, header, explanation, floors, mutants, sibling=None, tier='quick', extra=None):
    rep = Report(pid, tier)
    rep.explanation = explanation
    rep.assumptions = ['functions other than insert and the four node methods neither open nor close write phases (checked: any other '
                       'function with a write-lock call is reported as analysis-broken)',
                       'the lock itself satisfies its protocol lemmas (C30)',
                       'linearizability / sortedness of the tree is NOT decided; only the protocol use sites are']

    def analyse(r):
        u, = facts.extract([(TU, r'datastructure/(BTree|BTreeDelete|LambdaBTree)\.h$', NAME_RE)])
        r.add_units([u])
        # who-may-open-write-phases
        c = analyse_unit(r, u, classes)
        if sibling:
            siblings_rule(r, u, *sibling)
        # the element order itself: decided over the finite set of orderings (props/comparators.py)
        uc, = facts.extract([comparators.JOB])
        r.add_units([uc])
        r.floor('R6-comparator-classes', comparators.rule_comparators(r, uc, r'detail::comparator|index_utils::comparator', 'R6-comparator-order'), 5)
        if 'btree_delete' in classes:
            r.floor('R7-children-loops', rule_child_loops(r, r'datastructure/BTreeDelete\.h$', 'btree_delete'), 8)
        else:
            r.floor('R7-children-loops', rule_child_loops(r, r'datastructure/BTree\.h$', 'btree'), 5)
        return c

    try:
        counts = analyse(rep)
        for k, fl in floors.items():
            rep.floor('%s-sites' % k, len(counts[k]), fl, '(%s)' % header)
        rep.extra['sites'] = {k: len(v) if isinstance(v, set) else v for k, v in counts.items()}
        if extra:
            extra(rep)
        ms = [mutate.Mutant(n, header, o, w, e) for (n, o, w, e) in mutants]
        ms[2:2] = [mutate.Mutant(*m) for m in CMP_MUTANTS]
        if tier != 'thorough':
            ms = ms[:2]
        mutate.run_mutants(rep, pid, ms, analyse)
        if tier == 'thorough':
            thorough_all_instantiations(rep, classes)
    except facts.Broken as e:
        rep.analysis_broken(str(e))
    return rep.finish()


def thorough_all_instantiations(rep, classes):
    """thorough tier: the same rules over every instantiation the repository's own units produce"""
    units = ['src/interpreter/BTreeIndex.cpp', 'src/interpreter/BTreeDeleteIndex.cpp', 'src/interpreter/EqrelIndex.cpp',
             'src/interpreter/ProvenanceIndex.cpp', 'src/tests/btree_set_test.cpp', 'src/tests/btree_multiset_test.cpp',
             'src/tests/eqrel_datastructure_test.cpp']
    units = [u for u in units if os.path.exists(os.path.join(facts.REPO, u))]
    us = facts.extract([(u, r'datastructure/(BTree|BTreeDelete|LambdaBTree)\.h$', NAME_RE) for u in units])
    rep.add_units(us)
    tot = 0
    for u in us:
        sub = Report(rep.pid, rep.tier)
        c = analyse_unit(sub, u, classes)
        tot += c['funcs']
        # fold: one obligation per (rule, unit) summarising all instantiations in that unit
        bad = [o for o in sub.obligations if not o['ok']]
        rep.ob('all-instantiations', os.path.relpath(u.src, facts.REPO), not bad, os.path.relpath(u.src, facts.REPO),
               '; '.join('%s %s %s' % (o['rule'], o['instance'], o['detail'][:120]) for o in bad[:3]))
        rep.broken.extend(sub.broken)
    rep.extra['instantiated_functions_analysed'] = tot


def run(tier='quick'):
    return run_for('C25', ('btree', 'LambdaBTree'), 'src/include/souffle/datastructure/BTree.h',
                   'static path-sensitive typestate analysis (lockset + container transfer/drain + callee preconditions) of every '
                   'path of insert / split / rebalance_or_split / grow_parent / insert_inner in every analysed instantiation of '
                   'detail::btree and LambdaBTree: each write phase opened is closed or handed to the locked-nodes container, the '
                   'container is drained completely, restarts and exits hold nothing, stores to node payload / root happen under '
                   'the owning lock, the root lock is released by abort only when the root is unchanged, leases are validated.',
                   dict(acquire=9, release=9, transfer=2, drain=2), MUTANTS_BTREE, tier=tier)

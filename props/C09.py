"""C09 -- semi-naive evaluation is complete and non-redundant: the structural core (which relation
version each generated RAM node reads or writes) decided by role typing of the AST->RAM generator."""
from engine import facts, mutate
from engine.report import Report
from props import seminaive as S

MUTANTS = [
    ('atomname-delta-for-wrong-atom', S.UTILS, '    if (sccAtoms.at(version) == atom) {\n        return getDeltaRelationName(atom->getQualifiedName());\n    }\n    return getConcreteRelationName(atom->getQualifiedName());\n}',
     '    if (sccAtoms.at(0) == atom) {\n        return getDeltaRelationName(atom->getQualifiedName());\n    }\n    return getConcreteRelationName(atom->getQualifiedName());\n}', 'R1'),
    ('exclusion-starts-at-version', S.CT, 'for (std::size_t i = version + 1; i < sccAtoms.size(); i++) {', 'for (std::size_t i = version + 2; i < sccAtoms.size(); i++) {', 'R2'),
    ('update-swap-before-merge', S.UT, '''            updateRelTable = mk<ram::Sequence>(generateMergeRelations(rel, mainRelation, newRelation),
                    mk<ram::Swap>(deltaRelation, newRelation), mk<ram::Clear>(newRelation));''',
     '''            updateRelTable = mk<ram::Sequence>(mk<ram::Swap>(deltaRelation, newRelation),
                    generateMergeRelations(rel, mainRelation, newRelation), mk<ram::Clear>(newRelation));''', 'R3'),
    ('exit-tests-delta', S.UT, '''                    emptinessCheck, mk<ram::EmptinessCheck>(getNewRelationName(rel->getQualifiedName())));
        } else {''', '''                    emptinessCheck, mk<ram::EmptinessCheck>(getDeltaRelationName(rel->getQualifiedName())));
        } else {''', 'R3'),
    ('preamble-no-priming', S.UT, '        appendStmt(preamble, generateMergeRelations(rel, deltaRelation, mainRelation));', '        (void)mainRelation;', 'R3'),
    ('negated-delta-uses-main', S.CT, '''    std::size_t arity = atom->getArity();
    std::string name = getDeltaRelationName(atom->getQualifiedName());''', '''    std::size_t arity = atom->getArity();
    std::string name = getConcreteRelationName(atom->getQualifiedName());''', 'R2'),
    ('versions-skip-last', S.UT, 'for (std::size_t version = 0; version < sccAtoms.size(); version++) {\n        appendStmt(clauseVersions,',
     'for (std::size_t version = 0; version + 1 < sccAtoms.size(); version++) {\n        appendStmt(clauseVersions,', 'R4'),
]


def analyse(rep):
    sh = S.Shapes(rep)
    n = S.rule_atom_name(rep, sh, 'plain')
    rep.floor('R1-abstract-inputs', n or 0, 12)
    S.rule_negated_atoms(rep, sh)
    S.rule_table_updates(rep, sh)
    S.rule_swaps(rep, sh)
    S.rule_exit(rep, sh)
    S.rule_loop_order(rep, sh)
    S.rule_versions(rep, sh)
    rep.extra['ram_constructor_sites_typed'] = sh.nsites


def run(tier='quick'):
    rep = Report('C09', tier)
    rep.explanation = ('static role typing of the AST->RAM generator (symbolic evaluation of the generator functions over their syntax trees, every '
                       'path): getAtomName is enumerated exhaustively over its abstract input space (clause kind x recursive x mode x atom kind) and '
                       'must yield head->New, SCC atom at `version`->Delta, everything else->Main; later SCC atoms are excluded on Delta and the head '
                       'is filtered on Main; the table update is merge(Main<-New); Swap(Delta,New); Clear(New) on one relation; the loop exits on '
                       'emptiness of New (Delta for subsumptive relations) conjoined over the SCC; the preamble primes Delta from Main; the postamble '
                       'clears Delta and New; the loop runs rules, exit, update in this order; one rule version per SCC atom.')
    rep.assumptions = ['decides that the generator emits the semi-naive scheme\'s shape; does NOT decide that the RAM nested inside each version computes the right join',
                       'oracle: the textbook semi-naive scheme as stated in the property']
    try:
        analyse(rep)
        ms = [mutate.Mutant(n, f, o, w, e) for (n, f, o, w, e) in MUTANTS]
        mutate.run_mutants(rep, 'C09', ms if tier == 'thorough' else ms[:3], analyse)
    except facts.Broken as e:
        rep.analysis_broken(str(e))
    rep.exhaustive = True
    return rep.finish()

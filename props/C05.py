"""C05 -- magic-set transformation preserves results: the structural clause is the EXCLUSION
INVENTORY (Engler-style belief rule): every category of relation the maintainers state must be kept
out of the transformation is still consulted by getWeaklyIgnoredRelations / getStronglyIgnoredRelations."""
from engine import facts, mutate
from engine.facts import kids, walk, strip, is_call, call_args, call_obj, expr_key
from engine.report import Report

SRC = 'src/ast/transform/MagicSet.cpp'


def family(u, name):
    """the function plus the lambdas defined inside it"""
    fs = [f for f in u.functions if (f.name == name and not f.is_lambda) or (f.is_lambda and ('::%s(' % name) in f.qname)]
    return fs


def enum_refs(fs, enum):
    return {m['name'] for f in fs for m in f.walk() if m['k'] == 'DeclRefExpr' and m.get('dk') == 'EnumConstant' and m.get('enum', '').endswith(enum)}


def lambda_param_types(fs):
    out = set()
    for f in fs:
        if f.is_lambda:
            for p in f.d['params']:
                out.add(p['t'].replace('const ', '').strip(' &').split('::')[-1])
    return out


def inserts_head(f):
    """does this function/lambda insert clause->getHead()->getQualifiedName() into a set?"""
    return any(is_call(m, 'insert') and any(is_call(x, 'getHead') for x in walk(m)) for m in f.walk())


def rule_inventory(rep, u):
    w = family(u, 'getWeaklyIgnoredRelations')
    s = family(u, 'getStronglyIgnoredRelations')
    if not w or not s:
        rep.analysis_broken('MagicSetTransformer::get{Weakly,Strongly}IgnoredRelations not found')
        return
    wf = [f for f in w if not f.is_lambda][0]
    sf = [f for f in s if not f.is_lambda][0]
    wl, sl = lambda_param_types(w), lambda_param_types(s)
    calls_w = {m.get('cn') for f in w for m in f.walk() if is_call(m)}
    calls_s = {m.get('cn') for f in s for m in f.walk() if is_call(m)}
    lits_w = {m.get('str') for f in w for m in f.walk() if m['k'] == 'StringLiteral'}
    bops = enum_refs(w, 'BinaryConstraintOp')
    fops = enum_refs(w, 'FunctorOp')
    quals = enum_refs(w, 'RelationQualifier')
    reprs = enum_refs(w, 'RelationRepresentation')

    def lam(fs, ptype, pred):
        return any(f.is_lambda and any(p['t'].replace('const ', '').strip(' &').endswith('::' + ptype) for p in f.d['params']) and pred(f) for f in fs)
    cats = [
        ('W1-trivially-computable-relations', 'getTriviallyIgnoredRelations' in calls_w, wf,
         'relations that are input / have no atoms in their rules are no longer excluded'),
        ('W2-neglabel-atoms', '@neglabel' in lits_w and 'Atom' in wl, wf, 'relations carrying a @neglabel are no longer excluded'),
        ('W3-float-constraints', {'FEQ', 'FNE', 'FLE', 'FGE', 'FLT', 'FGT'} <= bops and 'BinaryConstraint' in wl and 'getOverloadedOperator' in calls_w, wf,
         'clauses with float comparisons must be excluded (set found: %s)' % sorted(bops)),
        ('W4-order-dependent-functors', {'MOD', 'FDIV', 'DIV', 'UMOD'} <= fops and 'IntrinsicFunctor' in wl and 'getOverloadedFunctionOp' in calls_w, wf,
         'clauses with division / modulo must be excluded (set found: %s)' % sorted(fops)),
        ('W5-functional-dependencies', 'getFunctionalDependencies' in calls_w, wf, 'relations with choice-domain keys must be excluded'),
        ('W6-execution-plans', 'getExecutionPlan' in calls_w, wf, 'clauses with a user execution plan must be excluded'),
        ('W7-atoms-of-counter-clauses', 'Counter' in wl and lam(w, 'Atom', lambda f: any(is_call(m, 'insert') for m in f.walk())), wf,
         'every atom of a clause using the auto-increment counter must be excluded'),
        ('W8-no-magic-qualifier-and-exclude-option', 'NO_MAGIC' in quals and 'magic-transform-exclude' in lits_w, wf, 'the no_magic qualifier / --magic-transform-exclude is not honoured'),
        ('W10-unexpanded-eqrel-relations', 'EQREL' in reprs and 'getRepresentation' in calls_w, wf,
         'an eqrel relation that was not expanded into explicit rules (the expansion runs only with the magic-transform option, not for the `magic` qualifier) '
         'must be excluded: its adorned copy is a plain relation without the implicit closure'),
        ('W9-strongly-ignored-closure', 'getStronglyIgnoredRelations' in calls_w and 'visit' in calls_w and
         any(is_call(m, 'visit') and 'precedenceGraph' in expr_key(call_obj(m) or {'k': '?'}) for f in w for m in f.walk()), wf,
         'strongly ignored relations and what follows their dependents in clause bodies must be weakly ignored'),
        ('S1-heads-of-counter-clauses', 'Counter' in sl and inserts_head(sf), sf, 'heads of clauses using the counter must be strongly ignored'),
        ('S2-subsumptive-clauses', any(is_call(m, 'isA') and 'SubsumptiveClause' in ' '.join(m.get('ta') or []) for m in sf.walk()) and inserts_head(sf), sf,
         'relations with a subsumptive clause must be strongly ignored'),
        ('S3-closure-to-fixpoint', any(m['k'] in ('WhileStmt', 'DoStmt') for m in sf.walk()) and
         any(is_call(m, 'visit') and 'precedenceGraph' in expr_key(call_obj(m) or {'k': '?'}) for f in s for m in f.walk()) and 'Atom' in sl, sf,
         'the strongly ignored set must be closed under dependents and body relations, to a fixpoint'),
    ]
    for name, ok, f, why in cats:
        rep.ob('R1-exclusion-inventory', name, bool(ok), f.where, '' if ok else why)
    # the ignored sets are actually used: relations in them are neither adorned nor given magic rules
    users = [f for f in u.functions if not f.is_lambda and any(m['k'] == 'MemberExpr' and m.get('member') == 'weaklyIgnoredRelations' for m in f.walk())]
    rep.ob('R1-ignored-set-consulted', 'weaklyIgnoredRelations', len(users) >= 2, SRC, '' if len(users) >= 2 else 'the weakly ignored set is computed but not consulted by the adornment')


MUTANTS = [
    ('eqrel-relations-adorned', SRC, '''        if (rel->getRepresentation() == RelationRepresentation::EQREL) {
            weaklyIgnoredRelations.insert(rel->getQualifiedName());
        }''', '', 'R1'),
    ('fd-relations-not-excluded', SRC, '''    for (auto* rel : program.getRelations()) {
        if (!rel->getFunctionalDependencies().empty()) {
            weaklyIgnoredRelations.insert(rel->getQualifiedName());
        }
    }
''', '', 'R1'),
    ('float-le-not-excluded', SRC, '''            {BinaryConstraintOp::FEQ, BinaryConstraintOp::FNE, BinaryConstraintOp::FLE,
                    BinaryConstraintOp::FGE, BinaryConstraintOp::FLT, BinaryConstraintOp::FGT});''', '''            {BinaryConstraintOp::FEQ, BinaryConstraintOp::FNE,
                    BinaryConstraintOp::FGE, BinaryConstraintOp::FLT, BinaryConstraintOp::FGT});''', 'R1'),
    ('subsumptive-not-strongly-ignored', SRC, '''        if (isA<SubsumptiveClause>(clause)) {
            stronglyIgnoredRelations.insert(clause->getHead()->getQualifiedName());
        }
''', '', 'R1'),
    ('plans-not-excluded', SRC, '''        if (clause->getExecutionPlan() != nullptr) {
            weaklyIgnoredRelations.insert(clause->getHead()->getQualifiedName());
        }''', '', 'R1'),
]


def analyse(rep):
    u, = facts.extract([(SRC, r'transform/MagicSet\.cpp$', r'.*')])
    rep.add_units([u])
    rule_inventory(rep, u)
    rep.floor('R1-categories', len([o for o in rep.obligations if o['rule'] == 'R1-exclusion-inventory']), 13)


def run(tier='quick'):
    rep = Report('C05', tier)
    rep.explanation = ('static belief-inventory check: the set of exclusion predicates consulted by MagicSetTransformer::getWeaklyIgnoredRelations / '
                       'getStronglyIgnoredRelations must contain each of the 12 categories the maintainers state must be excluded (trivial/input '
                       'relations, @neglabel atoms, float comparisons, order-dependent functors, functional dependencies, execution plans, counter '
                       'clauses, no_magic/exclude, subsumptive clauses, closure over the precedence graph). Dropping a category changes results for '
                       'programs in that category by the maintainers\' own belief.')
    rep.assumptions = ['adornment, labelling and magic-rule generation themselves are NOT decided (semantic preservation is translation validation)']
    try:
        analyse(rep)
        ms = [mutate.Mutant(n, f, o, w, e) for (n, f, o, w, e) in MUTANTS]
        mutate.run_mutants(rep, 'C05', ms if tier == 'thorough' else ms[:2], analyse)
    except facts.Broken as e:
        rep.analysis_broken(str(e))
    return rep.finish()

"""C12 -- lattice relations hold one lub per key: role rules on generateStratumLubSequence and its
call sites."""
from engine import facts, mutate
from engine.report import Report
from props import seminaive as S

MUTANTS = [
    ('lub-scans-main-instead-of-new', S.UT, '    op = mk<ram::Scan>(newName, 0, std::move(op));\n    appendStmt(stmts, mk<ram::Query>(std::move(op)));\n\n    // clear @new()',
     '    op = mk<ram::Scan>(name, 0, std::move(op));\n    appendStmt(stmts, mk<ram::Query>(std::move(op)));\n\n    // clear @new()', 'R1'),
    ('lub-new-not-cleared', S.UT, '    // clear @new() now that we no longer need it\n    appendStmt(stmts, mk<ram::Clear>(newName));\n', '', 'R1'),
    ('lattice-update-merges-new', S.UT, 'mk<ram::Sequence>(mk<ram::Clear>(deltaRelation), generateStratumLubSequence(*rel, true),\n                            generateMergeRelations(rel, mainRelation, deltaRelation));',
     'mk<ram::Sequence>(mk<ram::Clear>(deltaRelation), generateStratumLubSequence(*rel, true),\n                            generateMergeRelations(rel, mainRelation, newRelation));', 'R3'),
    ('step3-no-absence-check', S.UT, '''        op = mk<ram::Filter>(
                mk<ram::Negation>(mk<ram::ExistenceCheck>(name, std::move(values))), std::move(op));
        op = mk<ram::Scan>(lubName, 0, std::move(op));''', '''        values.clear();
        op = mk<ram::Scan>(lubName, 0, std::move(op));''', 'R1'),
]


def analyse(rep):
    sh = S.Shapes(rep)
    S.rule_lub_sequence(rep, sh)
    S.rule_table_updates(rep, sh, want=('lattice',))
    # call sites: non-recursive stratum and preamble run the lub sequence outside the loop
    for name in ('generateStratum', 'generateStratumPreamble'):
        f, paths = sh.paths('UnitTranslator', name)
        if f is None:
            continue
        n = 0
        for p in paths:
            if S.guard_has(p, 'getAuxiliaryArity() > 0'):
                calls = [x for x in S.subtrees(p.ret) if x[0] == 'call' and x[1] == 'generateStratumLubSequence']
                n += 1
                ok = len(calls) >= 1 and all(c[2][1] == ('bool', False) for c in calls)
                rep.ob('R2-lub-call-sites', '%s[lattice]' % name, ok, f.where, '' if ok else 'lattice relations are not lubbed (outside-loop variant) after their non-recursive rules')
            else:
                calls = [x for x in S.subtrees(p.ret) if x[0] == 'call' and x[1] == 'generateStratumLubSequence']
                rep.ob('R2-lub-call-sites', '%s[non-lattice/%d]' % (name, len(p.guards)), not calls, f.where, '' if not calls else 'lub sequence for a non-lattice relation')
        rep.floor('R2-lub-call-sites-' + name, n, 1)


def run(tier='quick'):
    rep = Report('C12', tier)
    rep.explanation = ('static role typing of the lattice fragment of the generator: Lub is populated from New by a Scan(New) with lub aggregates over '
                       'New; New is then cleared; inside the loop Delta receives lub(Main value, Lub value) when it differs for an equal key, or the Lub '
                       'tuple when no Main tuple has the key; outside the loop Main receives Lub; Lub is cleared last; the recursive table update of a '
                       'lattice relation is Clear(Delta); lub sequence; merge(Main <- Delta).')
    rep.assumptions = ['least-fixpoint-ness depends on the user lub functor and is NOT decided']
    try:
        analyse(rep)
        ms = [mutate.Mutant(n, f, o, w, e) for (n, f, o, w, e) in MUTANTS]
        mutate.run_mutants(rep, 'C12', ms if tier == 'thorough' else ms[:2], analyse)
    except facts.Broken as e:
        rep.analysis_broken(str(e))
    return rep.finish()

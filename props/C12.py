"""C12 -- lattice relations hold one lub per key: role rules on generateStratumLubSequence and its
call sites."""
from engine import facts, mutate
from engine.report import Report
from props import seminaive as S

MUTANTS = [
    ('updater-flag-of-last-column', 'src/interpreter/Util.h', '''            if (old_t[i] != new_t[i]) {
                changed = true;
                old_t[i] = new_t[i];
            }''', '''            changed = (old_t[i] != new_t[i]);
            old_t[i] = new_t[i];''', 'R4'),
    ('delta-needs-all-columns-to-change', S.UT, 'mk<ram::Constraint>(BinaryConstraintOp::EQ, mk<ram::TupleElement>(1, i), clone(lub));', 'mk<ram::Constraint>(BinaryConstraintOp::NE, mk<ram::TupleElement>(1, i), clone(lub));', 'R1'),
    ('lub-scans-main-instead-of-new', S.UT, '    op = mk<ram::Scan>(newName, 0, std::move(op));\n    appendStmt(stmts, mk<ram::Query>(std::move(op)));\n\n    // clear @new()',
     '    op = mk<ram::Scan>(name, 0, std::move(op));\n    appendStmt(stmts, mk<ram::Query>(std::move(op)));\n\n    // clear @new()', 'R1'),
    ('lub-new-not-cleared', S.UT, '    // clear @new() now that we no longer need it\n    appendStmt(stmts, mk<ram::Clear>(newName));\n', '', 'R1'),
    ('lattice-update-merges-new', S.UT, 'mk<ram::Sequence>(mk<ram::Clear>(deltaRelation), generateStratumLubSequence(*rel, true),\n                            generateMergeRelations(rel, mainRelation, deltaRelation));',
     'mk<ram::Sequence>(mk<ram::Clear>(deltaRelation), generateStratumLubSequence(*rel, true),\n                            generateMergeRelations(rel, mainRelation, newRelation));', 'R3'),
    ('step3-no-absence-check', S.UT, '''        op = mk<ram::Filter>(
                mk<ram::Negation>(mk<ram::ExistenceCheck>(name, std::move(values))), std::move(op));
        op = mk<ram::Scan>(lubName, 0, std::move(op));''', '''        values.clear();
        op = mk<ram::Scan>(lubName, 0, std::move(op));''', 'R1'),
]


def rule_updater_flag(rep):
    """R4: a lattice relation is stored once per key; an insert of an existing key goes through the tree's Updater, whose result tells
    interpreter::Relation::insert whether the other indexes must be updated too.  The flag must be monotone over the lattice columns
    (set, never cleared, inside the loop) and every differing column must be overwritten."""
    import os
    from engine.facts import kids, walk, strip, is_call, call_args, expr_key
    iu, rel = facts.extract([(os.path.join(facts.VERIF, 'tu', 'prov_instances.cpp'), r'interpreter/Util\.h$|prov_instances\.cpp$', r'Updater'),
                             ('src/synthesiser/Relation.cpp', r'synthesiser/Relation\.cpp$', r'generateTypeStruct')])
    rep.add_units([iu, rel])
    fs = [f for f in iu.functions if f.d.get('cls') == 'Updater' and f.name == 'update']
    if not fs:
        rep.analysis_broken('interpreter::Updater::update not found')
        return
    f = fs[0]
    loops = [m for m in f.walk() if m['k'] == 'ForStmt']
    flags = {m['name'] for m in f.walk() if m['k'] == 'VarDecl' and m.get('t') == 'bool' and m.get('name')}
    bad, sets = [], 0
    for lp in loops:
        for m in walk(lp):
            if m['k'] == 'BinaryOperator' and m.get('op') == '=' and strip(kids(m)[0], casts=True).get('name') in flags:
                r = strip(kids(m)[1], casts=True)
                while r['k'] == 'ParenExpr' and kids(r):
                    r = strip(kids(r)[0], casts=True)
                if r['k'] == 'CXXBoolLiteralExpr' and r.get('val'):
                    sets += 1
                elif r['k'] == 'BinaryOperator' and r.get('op') == '||' and any(strip(x, casts=True).get('name') in flags for x in kids(r)):
                    sets += 1
                else:
                    bad.append(m)
    returned = any(m['k'] == 'ReturnStmt' and kids(m) and strip(kids(m)[0], casts=True).get('name') in flags for m in f.walk())
    ok = not bad and sets >= 1 and returned
    rep.ob('R4-updater-change-flag-monotone', 'interpreter/Updater::update', ok, f.loc(bad[0]) if bad else f.where,
           '' if ok else 'the change flag is overwritten per column (line %s): it then reflects the LAST lattice column only, and an update of an earlier '
           'column is not propagated to the other indexes' % (bad[0].get('l') if bad else '?'))
    # synthesiser: the generated updater sets `changed = true` under `if (old_t[i] != new_t[i])` and never clears it
    g = [x for x in rel.functions if x.name == 'generateTypeStruct' and not x.is_lambda and 'DirectRelation' in x.qname]
    if g:
        lits = ''.join(m.get('str', '') for m in g[0].walk() if m['k'] == 'StringLiteral').replace(' ', '')
        ok = 'changed=true;' in lits and 'changed=false;' not in lits.replace('boolchanged=false;', '') and 'returnchanged;' in lits
        rep.ob('R4-updater-change-flag-monotone', 'synthesiser/updater', ok, g[0].where, '' if ok else 'the generated updater clears or never sets its change flag')


def rule_entry_paths(rep):
    """R5: every way tuples enter a relation with lattice attributes goes through the lub sequence.  Rule heads do (R1-R3).  The other entry
    is the fact loader: the translator's load statement (or a semantic check forbidding .input on such relations) must take the lattice
    attributes into account -- the relation's updater OVERWRITES the stored value."""
    from engine.facts import walk, is_call
    from props.parallel_guard import guarded_by, not_guarded_by
    ut, sc = facts.extract([('src/ast2ram/seminaive/UnitTranslator.cpp', r'seminaive/UnitTranslator\.cpp$', r'generateLoadRelation'),
                            ('src/ast/transform/SemanticChecker.cpp', r'transform/SemanticChecker\.cpp$', r'SemanticCheckerImpl::', None, None, r'getIsLattice|getAuxiliaryArity')])
    rep.add_units([ut, sc])
    fs = [f for f in ut.functions if f.name == 'generateLoadRelation' and not f.is_lambda]
    if not fs:
        rep.analysis_broken('UnitTranslator::generateLoadRelation not found')
        return
    lat = lambda core: any(is_call(x) and x.get('cn') in ('getIsLattice', 'getAuxiliaryArity') for x in walk(core))
    in_loader = any(is_call(m) and m.get('cn') in ('getIsLattice', 'getAuxiliaryArity', 'generateStratumLubSequence') for m in fs[0].walk())
    in_checker = False
    for g in sc.functions:
        if g.is_lambda or g.cfg is None:
            continue
        for e in [m for m in g.walk() if is_call(m, 'addError')]:
            l = guarded_by(g, e, lat)[0] or not_guarded_by(g, e, lat)
            io = guarded_by(g, e, lambda core: any(is_call(x, 'isInput') or is_call(x, 'isIO') for x in walk(core)))[0]
            if l and io:
                in_checker = True
    ok = in_loader or in_checker
    rep.ob('R5-every-entry-path-lubbed', 'io-load', ok, fs[0].where,
           '' if ok else 'facts loaded by .input into a relation with lattice attributes bypass the lub sequence: the last loaded fact per key wins, and a '
           'value derived by a rule overwrites a loaded one instead of being joined with it')


def analyse(rep):
    sh = S.Shapes(rep)
    rule_updater_flag(rep)
    rule_entry_paths(rep)
    S.rule_lub_sequence(rep, sh)
    S.rule_table_updates(rep, sh, want=('lattice',))
    # call sites: non-recursive stratum and preamble run the lub sequence outside the loop
    for name in ('generateStratum', 'generateStratumPreamble'):
        f, paths = sh.paths('UnitTranslator', name)
        if f is None:
            continue
        n = 0
        for p in paths:
            if S.guard_has(p, 'getAuxiliaryArity() > 0'):
                calls = [x for x in S.subtrees(p.ret) if x[0] == 'call' and x[1] == 'generateStratumLubSequence']
                n += 1
                ok = len(calls) >= 1 and all(c[2][1] == ('bool', False) for c in calls)
                rep.ob('R2-lub-call-sites', '%s[lattice]' % name, ok, f.where, '' if ok else 'lattice relations are not lubbed (outside-loop variant) after their non-recursive rules')
            else:
                calls = [x for x in S.subtrees(p.ret) if x[0] == 'call' and x[1] == 'generateStratumLubSequence']
                rep.ob('R2-lub-call-sites', '%s[non-lattice/%d]' % (name, len(p.guards)), not calls, f.where, '' if not calls else 'lub sequence for a non-lattice relation')
        rep.floor('R2-lub-call-sites-' + name, n, 1)


def run(tier='quick'):
    rep = Report('C12', tier)
    rep.explanation = ('static role typing of the lattice fragment of the generator: Lub is populated from New by a Scan(New) with lub aggregates over '
                       'New; New is then cleared; inside the loop Delta receives lub(Main value, Lub value) when it differs for an equal key, or the Lub '
                       'tuple when no Main tuple has the key; outside the loop Main receives Lub; Lub is cleared last; the recursive table update of a '
                       'lattice relation is Clear(Delta); lub sequence; merge(Main <- Delta).')
    rep.assumptions = ['least-fixpoint-ness depends on the user lub functor and is NOT decided']
    try:
        analyse(rep)
        ms = [mutate.Mutant(n, f, o, w, e) for (n, f, o, w, e) in MUTANTS]
        mutate.run_mutants(rep, 'C12', ms if tier == 'thorough' else ms[:2], analyse)
    except facts.Broken as e:
        rep.analysis_broken(str(e))
    return rep.finish()

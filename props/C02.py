"""C02 -- compiled programs agree with the interpreter: sibling agreement of the two hand-written
back-ends (DESIGN.md section C02): exhaustive dispatch over the RAM node hierarchy and the
operator enums, operator tables (C24 R2), aggregate tables, index typing tables, shared helpers."""
import re
from engine import facts, tables, terms, mutate
from engine.facts import kids, walk, strip, is_call, call_args, call_obj, expr_key
from engine.report import Report
from props import C24, aggtables

# RAM node classes that are intentionally handled on one side only / by a catch-all (each with its reason)
ONE_SIDED = {
    'UndefValue': 'both back-ends reject it with a fatal(): an undefined value never reaches evaluation (patterns are resolved by the index analysis)',
}
# containers that are walked by the drivers (Engine::executeMain / Synthesiser::generateCode), never dispatched as a node;
# they must be undispatched on BOTH sides
STRUCTURAL = ('Program', 'Relation')
CATCH_ALL = ('Node', 'UndefValue')


def node_hierarchy(unit):
    recs = {r['qname']: r for r in unit.records if r['qname'].startswith('souffle::ram::') and '<' not in r['qname']
            and r['qname'].count('::') == 2}
    parents = {}
    for q, r in recs.items():
        parents[q] = [b['qname'] for b in r['bases'] if b['qname'].startswith('souffle::ram::')]

    def is_node(q, seen=()):
        if q == 'souffle::ram::Node':
            return True
        return any(is_node(p, seen + (q,)) for p in parents.get(q, ()) if p not in seen)
    nodes = {q for q in recs if is_node(q)}
    bases = {p for q in nodes for p in parents[q]}
    leaves = sorted(q for q in nodes if q not in bases and not recs[q].get('abstract'))

    def ancestors(q):
        out, stack = [], [q]
        while stack:
            x = stack.pop()
            out.append(x)
            stack.extend(parents.get(x, ()))
        return out
    return leaves, ancestors, recs


def visited(unit, cls):
    out = {}
    for f in unit.functions:
        if f.name == 'visit_' and f.d.get('cls') == cls and len(f.d['params']) >= 2:
            t = f.d['params'][1]['t'].replace('const ', '').strip(' &')
            out[t] = f
    return out


def is_fatal_only(f):
    st = [s for s in kids(f.body) if s['k'] not in ('NullStmt',)]
    return len(st) >= 1 and all(is_call(strip(s)) and strip(s).get('noreturn') for s in st[:1]) and len(st) <= 1


def rule_dispatch(rep, gen, syn):
    leaves, ancestors, recs = node_hierarchy(gen)
    rep.floor('R1-node-leaves', len(leaves), 50)
    vi, vs = visited(gen, 'NodeGenerator'), visited(syn, 'CodeEmitter')
    rep.floor('R1-interpreter-visit-overrides', len(vi), 50)
    rep.floor('R1-synthesiser-visit-overrides', len(vs), 50)
    for leaf in leaves:
        short = leaf.split('::')[-1]
        if short in STRUCTURAL:
            hi = [a for a in ancestors(leaf) if a in vi and a.split('::')[-1] not in CATCH_ALL]
            hs = [a for a in ancestors(leaf) if a in vs and a.split('::')[-1] not in CATCH_ALL]
            ok = bool(hi) == bool(hs)
            rep.ob('R1-node-dispatch-exhaustive', 'both/%s' % short, ok, 'src/ram/%s.h' % short,
                   '' if ok else 'structural node ram::%s is dispatched by one back-end only' % short)
            continue
        for side, v in (('interpreter', vi), ('synthesiser', vs)):
            handler = None
            for a in ancestors(leaf):
                if a in v and a.split('::')[-1] not in CATCH_ALL:
                    handler = a
                    break
            ok = handler is not None
            if not ok and short in ONE_SIDED:
                # must be the explicit fatal catch on this side
                ok = leaf in v or 'souffle::ram::Node' in v
            rep.ob('R1-node-dispatch-exhaustive', '%s/%s' % (side, short), ok, 'src/ram/%s.h' % short,
                   '' if ok else 'ram::%s has no visit_ override (for itself or a proper ancestor) in the %s: it falls into the fatal catch-all' % (short, side))
    return len(leaves)


def rule_enum_dispatch(rep, eng, syn, aggI, aggS):
    # AggregateOp: every enumerator has a row in every table of both back-ends
    ops = aggtables.ops_of(syn)
    rep.floor('R1-aggregate-ops', len(ops), 11)
    for op in ops:
        for side, tab, keys in (('interpreter', aggI, ('init', 'combine')), ('synthesiser', aggS, ('init', 'combine', 'reduction'))):
            for k in keys:
                ok = op in tab[k] and tab[k][op][0] not in ('?',) if k != 'reduction' else tab[k].get(op) is not None
                rep.ob('R1-aggregate-op-exhaustive', '%s/%s/%s' % (side, op, k), ok, tab['where'].get((k, op), ''),
                       '' if ok else 'AggregateOp::%s has no (recognised) case in the %s %s table: %s' % (op, side, k, tab[k].get(op)))
    for side, tab in (('interpreter', aggI), ('synthesiser', aggS)):
        for k in ('init', 'combine'):
            ok = not tab.get(k + '_has_default')
            rep.ob('R1-no-default', 'aggregate/%s/%s' % (side, k), ok, '', '' if ok else 'a default label may swallow a new aggregate')
    # NestedIntrinsicOp
    lam = C24.find_case_lambda(eng, 'NestedIntrinsicOperator')
    sf = [f for f in syn.funcs(name='visit_') if len(f.d['params']) > 1 and f.d['params'][1]['t'].replace('const ', '').strip(' &') == 'souffle::ram::NestedIntrinsicOperator']
    if len(lam) != 1 or len(sf) != 1:
        rep.analysis_broken('NestedIntrinsicOperator cases not found (interpreter %d, synthesiser %d)' % (len(lam), len(sf)))
        return
    isw = tables.switches(lam[0], enum='NestedIntrinsicOp')
    ssw = tables.switches(sf[0], enum='NestedIntrinsicOp')
    if len(isw) != 1 or len(ssw) != 1:
        rep.analysis_broken('NestedIntrinsicOp switches not found')
        return
    labels = sorted(set(isw[0].by_label()) | set(ssw[0].by_label()))
    rep.floor('R1-nested-ops', len(labels), 3)
    for op in labels:
        ig, sg = isw[0].by_label().get(op), ssw[0].by_label().get(op)
        ok = ig is not None and sg is not None
        it = st = None
        if ok:
            # the element type of the range: runRange<T>
            tys = [terms.canon_type((m.get('ta') or ['?'])[0]) for s in ig.stmts for m in walk(s) if is_call(m, 'runRange')]
            lits = [m.get('str') for s in sg.stmts for m in walk(s) if m['k'] == 'StringLiteral']
            it = set(tys)
            st = {aggtables.TNAME.get(l) for l in lits if l in aggtables.TNAME}
            ok = len(it) == 1 and it == st
        rep.ob('R2-nested-range-type', 'nested/%s' % op, ok, lam[0].loc({'l': ig.line}) if ig else lam[0].where,
               '' if ok else 'interpreter runs the range at %s, synthesiser emits %s' % (sorted(it or []), sorted(x for x in (st or []) if x)))
    for side, sw in (('interpreter', isw[0]), ('synthesiser', ssw[0])):
        rep.ob('R1-no-default', 'nested/%s' % side, not sw.has_default, '', '' if not sw.has_default else 'default label')


def rule_aggregates_agree(rep, aggI, aggS, ops):
    for op in ops:
        for k in ('init', 'combine'):
            a, b = aggI[k].get(op), aggS[k].get(op)
            ok = a == b or (k == 'init' and a and b and a[0] == 'zero' and b[0] == 'zero')
            rep.ob('R3-aggregate-tables-agree', '%s/%s' % (op, k), ok, aggS['where'].get((k, op), ''),
                   '' if ok else 'interpreter %s, synthesiser %s' % (a, b))
        a = aggI['nested'].get(op, aggI.get('nested_default'))
        b = aggS['nested'].get(op, aggS.get('nested_default'))
        rep.ob('R3-aggregate-tables-agree', '%s/empty-input' % op, a == b, aggS['where'].get(('nested', '*'), ''),
               '' if a == b else 'interpreter runs nested on empty input: %s, synthesiser: %s' % (a, b))


LIMIT = re.compile(r'(MIN|MAX)_RAM_(SIGNED|UNSIGNED|FLOAT)')
CAST = re.compile(r'ramBitCast<Ram(Signed|Unsigned|Float)>')
TT = {'SIGNED': 'S', 'UNSIGNED': 'U', 'FLOAT': 'F', 'Signed': 'S', 'Unsigned': 'U', 'Float': 'F'}
WANT = {'f': 'F', 'u': 'U', 'default': 'S'}


def char_switches(f):
    out = []
    for sw in tables.switches(f):
        labs = [l for g in sw.groups for l in g.labels]
        if labs and all(isinstance(l, str) and len(l) == 1 for l in labs) and set(labs) <= set('fuisr+'):
            out.append(sw)
    return out


def rule_index_typing(rep, syn, rel):
    n = 0
    # comparator casts in synthesiser/Relation.cpp
    for f in rel.functions:
        for sw in char_switches(f):
            part = {}
            for g in sw.groups:
                lits = [m.get('str', '') for s in g.stmts for m in walk(s) if m['k'] == 'StringLiteral']
                c = [CAST.search(l) for l in lits]
                c = [TT[m.group(1)] for m in c if m]
                if not c:
                    continue
                for l in g.labels:
                    part[l] = c[0]
                if g.is_default:
                    part['default'] = c[0]
            if not part:
                continue
            n += 1
            who = '%s@%s' % (f.qname.split('::')[-2] + '::' + f.name if '::' in f.qname else f.name, 'comparator')
            for lab, T in WANT.items():
                got = part.get(lab, part.get('default'))
                rep.ob('R4-index-comparator-type', '%s/%s' % (who, lab), got == T, f.loc(sw.node),
                       '' if got == T else "attribute type '%s' is compared as %s in the generated index comparator (expected %s)" % (lab, got, T))
    rep.floor('R4-comparator-switches', n, 2)
    # the generated comparator text itself: cast of column c is typecasts[c]; operator()/less/equal decided over all orderings
    from props import comparators
    rep.floor('R4-generated-comparator-methods', comparators.rule_generated_comparator(rep, rel), 3)
    # padding in getPaddedRangeBounds
    fs = [f for f in syn.functions if f.name == 'getPaddedRangeBounds']
    if not fs:
        rep.analysis_broken('getPaddedRangeBounds not found')
        return
    f = fs[0]
    sws = char_switches(f)
    if len(sws) != 1:
        rep.analysis_broken('getPaddedRangeBounds: type switch not found')
        return
    # which local is streamed into which bound
    streamed = {}
    for m in f.walk():
        if m['k'] == 'CXXOperatorCallExpr' and m.get('op') == '<<':
            ops = kids(m)[1:]
            a, b = strip(ops[0], casts=True), strip(ops[1], casts=True)
            if a['k'] == 'DeclRefExpr' and b['k'] == 'DeclRefExpr' and a.get('name') in ('low', 'high') and 'basic_string' in b.get('t', ''):
                streamed.setdefault(a['name'], set()).add(b['name'])
    if set(streamed) != {'low', 'high'} or any(len(v) != 1 for v in streamed.values()):
        rep.analysis_broken('getPaddedRangeBounds: cannot identify the padding variables streamed into low/high (%s)' % streamed)
        return
    vlow, vhigh = next(iter(streamed['low'])), next(iter(streamed['high']))
    for g in sws[0].groups:
        vals = {}
        for s in g.stmts:
            for m in walk(s):
                if m['k'] in ('CXXOperatorCallExpr', 'BinaryOperator') and m.get('op') == '=':
                    ops = kids(m)[-2:]
                    tgt = strip(ops[0], casts=True)
                    lit = [x.get('str', '') for x in walk(ops[1]) if x['k'] == 'StringLiteral']
                    mm = LIMIT.search(lit[0]) if lit else None
                    if tgt['k'] == 'DeclRefExpr' and mm:
                        vals[tgt['name']] = (mm.group(1), TT[mm.group(2)])
        labs = list(g.labels) + (['default'] if g.is_default else [])
        for lab in labs:
            if lab not in WANT:
                continue
            T = WANT[lab]
            ok = vals.get(vlow) == ('MIN', T) and vals.get(vhigh) == ('MAX', T)
            rep.ob('R4-unbound-padding', 'getPaddedRangeBounds/%s' % lab, ok, f.loc({'l': g.line}),
                   '' if ok else "attribute type '%s': an unbound lower column is padded with %s and an unbound upper column with %s; "
                   'the typed comparator needs the minimum / maximum of %s' % (lab, vals.get(vlow), vals.get(vhigh), T))
    rep.ob('R4-padding-covers-types', 'getPaddedRangeBounds', {'f', 'u'} <= set(sws[0].by_label()) and sws[0].has_default, f.where, '')


def rule_shared_helpers(rep, eng_helpers, syn):
    """R5: value helpers with non-trivial semantics are the SAME function in both back-ends (EvaluatorUtil.h)"""
    lits = ' '.join(m.get('str', '') for f in syn.functions for m in f.walk() if m['k'] == 'StringLiteral')
    for h in ('symbol2numeric', 'lxor_infix', 'runRange'):
        ok_i = h in eng_helpers
        ok_s = ('souffle::evaluator::' + h) in lits
        rep.ob('R5-shared-value-helper', h, ok_i and ok_s, 'src/include/souffle/utility/EvaluatorUtil.h',
               '' if ok_i and ok_s else 'evaluator::%s is used by interpreter: %s, emitted by synthesiser: %s' % (h, ok_i, ok_s))


MUTANTS = [
    ('float-constant-at-stream-precision', 'src/synthesiser/Synthesiser.cpp', '''            out << "RamFloat(" << std::setprecision(std::numeric_limits<RamFloat>::max_digits10)
                << constant.getValue() << ")";''', '''            out << "RamFloat(" << constant.getValue() << ")";''', 'R6'),
    ('generated-less-casts-by-position', 'src/synthesiser/Relation.cpp', '''                std::size_t attrib = ind[i];
                const auto& typecast = typecasts[attrib];

                decl << "(" << typecast << "(a[" << attrib << "]) < " << typecast << "(b[" << attrib << "]))";''', '''                std::size_t attrib = ind[i];
                const auto& typecast = typecasts[i];

                decl << "(" << typecast << "(a[" << attrib << "]) < " << typecast << "(b[" << attrib << "]))";''', 'R4'),
    ('synth-unsigned-padding-signed', 'src/synthesiser/Synthesiser.cpp',
     '''                        supremum = "ramBitCast<RamDomain>(MIN_RAM_UNSIGNED)";
                        infimum = "ramBitCast<RamDomain>(MAX_RAM_UNSIGNED)";''',
     '''                        supremum = "ramBitCast<RamDomain>(MIN_RAM_SIGNED)";
                        infimum = "ramBitCast<RamDomain>(MAX_RAM_SIGNED)";''', 'R4'),
    ('synth-sum-on-empty-not-run', 'src/synthesiser/Synthesiser.cpp',
     '''                    case AggregateOp::COUNT:
                    case AggregateOp::FSUM:
                    case AggregateOp::USUM:
                    case AggregateOp::SUM: return true;
                    default: return false;
                }
            } else if (isA<ram::UserDefinedAggregator>(aggregator)) {
                return true;
            }
            fatal("Unhandled aggregate operation");''',
     '''                    case AggregateOp::COUNT:
                    case AggregateOp::USUM:
                    case AggregateOp::SUM: return true;
                    default: return false;
                }
            } else if (isA<ram::UserDefinedAggregator>(aggregator)) {
                return true;
            }
            fatal("Unhandled aggregate operation");''', 'R3'),
    ('comparator-float-as-signed', 'src/synthesiser/Relation.cpp',
     '''                case 'f': typecasts.push_back("ramBitCast<RamFloat>"); break;
                case 'u': typecasts.push_back("ramBitCast<RamUnsigned>"); break;
                default: typecasts.push_back("ramBitCast<RamSigned>");
            }
        }

        auto genstruct''', '''                case 'u': typecasts.push_back("ramBitCast<RamUnsigned>"); break;
                default: typecasts.push_back("ramBitCast<RamSigned>");
            }
        }

        auto genstruct''', 'R4'),
    ('synth-umin-identity-signed', 'src/synthesiser/Synthesiser.cpp',
     'case AggregateOp::UMIN: return "MAX_RAM_UNSIGNED";', 'case AggregateOp::UMIN: return "MAX_RAM_SIGNED";', 'R3'),
]


def rule_float_literals(rep, syn, rel):
    """R6: a floating-point value printed into generated code carries its own precision manipulator.  Emitters also run on auxiliary
    string streams (index bounds), so the precision set once on the main stream is not enough."""
    n = 0
    for u in (syn, rel):
        for f in u.functions:
            for m in f.walk():
                if not (m['k'] == 'CXXOperatorCallExpr' and m.get('op') == '<<'):
                    continue
                a = call_args(m)
                if len(a) != 2 or strip(a[1], casts=True).get('t', '').replace('const ', '') not in ('float', 'double', 'souffle::RamFloat'):
                    continue
                n += 1
                ok, lhs = False, strip(a[0], casts=True)
                while lhs.get('k') == 'CXXOperatorCallExpr' and lhs.get('op') == '<<':
                    la = call_args(lhs)
                    r = strip(la[1], casts=True)
                    if (is_call(r, 'setprecision') and any(x.get('name') == 'max_digits10' or x.get('member') == 'max_digits10' for x in walk(r))) \
                            or (r.get('k') == 'DeclRefExpr' and r.get('name') == 'hexfloat'):
                        ok = True
                    lhs = strip(la[0], casts=True)
                rep.ob('R6-float-literal-precision', '%s/%s' % (f.name, expr_key(a[1])[:40]), ok, f.loc(m),
                       '' if ok else 'a float value is streamed into generated code at the stream\'s current precision (6 digits on the string streams '
                       'used for index bounds): the compiled program computes with a different constant than the interpreter')
    rep.floor('R6-float-emissions', n, 1)


def analyse(rep):
    jobs = [
        ('src/interpreter/Engine.cpp', r'interpreter/Engine\.cpp$|BinaryConstraintOps\.h$|src/AggregateOp\.h$',
         r'Engine::execute$|getBinaryConstraintTypes|Engine::initValue|interpreter::runNested|Engine::evalAggregate|getTypeAttributeAggregate',
         None, r'ram::(IntrinsicOperator|Constraint|NestedIntrinsicOperator) &', None, True),
        ('src/synthesiser/Synthesiser.cpp', r'synthesiser/Synthesiser\.cpp$|src/AggregateOp\.h$',
         r'CodeEmitter::|getTypeAttributeAggregate'),
        ('src/FunctorOps.cpp', r'FunctorOps\.(cpp|h)$|TypeAttribute\.h$', '.*'),
        ('src/interpreter/Generator.cpp', r'interpreter/Generator\.(cpp|h)$|src/ram/[A-Za-z]+\.h$', r'NodeGenerator::visit_'),
        ('src/synthesiser/Relation.cpp', r'synthesiser/Relation\.cpp$', r'generateTypeStruct'),
    ]
    eng, syn, fop, gen, rel = facts.extract(jobs)
    rep.add_units([eng, syn, fop, gen, rel])
    rule_dispatch(rep, gen, syn)
    aggI = aggtables.interpreter_tables(eng, rep)
    aggS = aggtables.synthesiser_tables(syn, rep)
    if aggI and aggS:
        rule_enum_dispatch(rep, eng, syn, aggI, aggS)
        rule_aggregates_agree(rep, aggI, aggS, aggtables.ops_of(syn))
        decl = aggtables.declared_types(syn, rep)
        aggtables.check_semantics(rep, 'synthesiser', aggS, decl, aggtables.ops_of(syn), rule='R3-aggregate-semantics')
    # R1/R2 for functors and constraints: the C24 tables
    T = C24.build_tables(rep, eng, syn, fop)
    if T is not None:
        C24.check_tables(rep, T, C24.declared_functors(fop, rep), C24.declared_constraints(eng, rep), pid_rules=('R1', 'R2'))
    rule_index_typing(rep, syn, rel)
    rule_float_literals(rep, syn, rel)
    helpers = {m.get('cn') for f in eng.functions for m in f.walk() if is_call(m) and (m.get('callee') or '').startswith('souffle::evaluator::')}
    helpers |= {'lxor_infix' for f in eng.functions for m in f.walk() if m['k'] in ('CXXTemporaryObjectExpr', 'CXXConstructExpr') and m.get('cn') == 'lxor_infix'}
    rule_shared_helpers(rep, helpers, syn)


def run(tier='quick'):
    rep = Report('C02', tier)
    rep.explanation = ('static sibling-agreement analysis of the interpreter and the synthesiser: every leaf class of the ram::Node hierarchy is '
                       'dispatched in both (hierarchy-aware); every enumerator of FunctorOp, BinaryConstraintOp, AggregateOp, NestedIntrinsicOp has a '
                       'case in both with no default; operator tables agree (C24 R2); aggregate identity/combine/type/empty-input tables agree and '
                       'match the declared aggregate types; the three attribute-type switches of the compiled index (comparator casts, unbound-column '
                       'padding) induce the same partition with min/max of the right type; value helpers come from the one shared header.')
    rep.assumptions = ['loop nests, index selection use, record packing, eqrel/brie wrappers and multi-file splitting are NOT decided',
                       'the emitted C++ means what its tokens say (skeletons are re-parsed, not compiled)']
    try:
        analyse(rep)
        ms = [mutate.Mutant(n, f, o, w, e) for (n, f, o, w, e) in MUTANTS]
        mutate.run_mutants(rep, 'C02', ms if tier == 'thorough' else ms[:2], analyse)
    except facts.Broken as e:
        rep.analysis_broken(str(e))
    rep.exhaustive = True
    return rep.finish()

"""C01 -- evaluation computes the stratified least model: three clauses of its mechanism are
structural: aggregate identity / combine / empty-set table (R1), the semi-naive role discipline
(R2 = the C09 rule set), stratum statement order and stratum sequencing (R3)."""
from engine import facts, mutate, roleflow
from engine.report import Report
from engine.roleflow import flatten, subtrees, show
from props import seminaive as S, aggtables, C09

MUTANTS = [
    ('interpreter-min-identity-zero', 'src/interpreter/Engine.cpp', 'case AggregateOp::MIN: return ramBitCast(MAX_RAM_SIGNED);', 'case AggregateOp::MIN: return ramBitCast(static_cast<RamSigned>(0));', 'R1'),
    ('interpreter-fsum-not-run-on-empty', 'src/interpreter/Engine.cpp', '''            case AggregateOp::COUNT:
            case AggregateOp::FSUM:
            case AggregateOp::USUM:
            case AggregateOp::SUM: return true;
            default: return false;
        }
    } else if (isA<ram::UserDefinedAggregator>(aggregator)) {
        return true;
    }
    return false;''', '''            case AggregateOp::COUNT:
            case AggregateOp::USUM:
            case AggregateOp::SUM: return true;
            default: return false;
        }
    } else if (isA<ram::UserDefinedAggregator>(aggregator)) {
        return true;
    }
    return false;''', 'R1'),
    ('interpreter-umax-signed', 'src/interpreter/Engine.cpp', '''                case AggregateOp::UMAX:
                    res = ramBitCast(std::max(ramBitCast<RamUnsigned>(res), ramBitCast<RamUnsigned>(val)));''',
     '''                case AggregateOp::UMAX:
                    res = ramBitCast(std::max(ramBitCast<RamSigned>(res), ramBitCast<RamSigned>(val)));''', 'R1'),
    ('expired-cleared-before-stratum', S.UT, 'stratum = mk<ram::Sequence>(std::move(stratum), generateClearExpiredRelations(expiredRelations));',
     'stratum = mk<ram::Sequence>(generateClearExpiredRelations(expiredRelations), std::move(stratum));', 'R3'),
    ('store-before-compute', S.UT, '''    // Store all internal output relations to the output dir with a .csv extension
    for (const auto& relation : context->getOutputRelationsInSCC(scc)) {
        appendStmt(current, generateStoreRelation(relation));
    }

    return mk<ram::Sequence>(std::move(current));''', '''    return mk<ram::Sequence>(std::move(current));''', 'R3'),
]


def rule_program(rep, sh):
    f, paths = sh.paths('UnitTranslator', 'generateProgram')
    if f is None:
        return
    full = [p for p in paths if not S.guard_has(p, 'getNumberOfSCCs() == 0')]
    for p in full[:1]:
        # per stratum: Sequence(generateStratum(order[i]), generateClearExpiredRelations(getExpiredRelations(i)))
        subs = [x for x in subtrees(p.env.get('stratum', ())) if x[0] == 'mk' and x[1] == 'Sequence']
        ok = False
        det = 'stratum subroutine is %s' % show(p.env.get('stratum', ()))[:200]
        st = p.env.get('stratum')
        if st and st[0] == 'mk' and st[1] == 'Sequence' and len(st[2]) == 2:
            a, b = st[2]
            ok = a[0] == 'call' and a[1] == 'generateStratum' and b[0] == 'call' and b[1] == 'generateClearExpiredRelations'
            if ok:
                # the stratum is taken from the topological order at the loop index; the expiry set is indexed by the same loop variable
                ok = any(y[0] == 'call' and y[1] == 'at' and y[3] == 'sccOrdering' for y in subtrees(a)) and \
                    any(y[0] == 'call' and y[1] == 'getExpiredRelations' for y in subtrees(b))
                det = 'strata must follow sccOrdering.at(i) and clear getExpiredRelations(i)'
        rep.ob('R3-expired-cleared-after-stratum', 'generateProgram', ok, f.where, '' if ok else det)
        calls = [x for x in flatten(p.ret) if (x[0] == 'foreach' and x[2][0] == 'mk' and x[2][1] == 'Call')]
        allc = [x for x in subtrees(p.ret) if x[0] == 'mk' and x[1] == 'Call']
        ok = len(allc) == 1 and bool([x for x in subtrees(p.ret) if x[0] == 'foreach'])
        rep.ob('R3-each-stratum-called-once', 'generateProgram', ok, f.where, '' if ok else 'strata are invoked %d times per loop iteration' % len(allc))
    order = [m for m in f.walk() if m.get('k') == 'CXXMemberCallExpr' and m.get('cn') == 'order' and 'TopologicallySortedSCCGraph' in (m.get('callee') or '')]
    rep.ob('R3-topological-order', 'generateProgram', bool(order), f.where, '' if order else 'strata are not taken from TopologicallySortedSCCGraphAnalysis::order()')
    g, ps = sh.paths('UnitTranslator', 'generateClearExpiredRelations')
    if g is not None:
        for q in ps:
            calls = [x for x in subtrees(q.ret) if x[0] == 'call' and x[1] == 'generateClearRelation']
            rep.ob('R3-expired-cleared-after-stratum', 'generateClearExpiredRelations', bool(calls), g.where, '' if calls else 'expired relations are not cleared')
    g, ps = sh.paths('UnitTranslator', 'generateClearRelation')
    if g is not None:
        for q in ps:
            ok = q.ret[0] == 'mk' and q.ret[1] == 'Clear' and S.role_of(q.ret[2][0]) == 'Main'
            rep.ob('R3-expired-cleared-after-stratum', 'generateClearRelation', ok, g.where, '' if ok else show(q.ret))


def analyse(rep):
    eng, = facts.extract([aggtables.ENGINE_JOB])
    rep.add_units([eng])
    it = aggtables.interpreter_tables(eng, rep)
    if it:
        decl = aggtables.declared_types(eng, rep)
        ops = aggtables.ops_of(eng) or sorted(decl)
        rep.floor('R1-aggregate-ops', len(ops), 11)
        aggtables.check_semantics(rep, 'interpreter', it, decl, ops, rule='R1-aggregate-semantics')
        for k in ('init', 'combine'):
            rep.ob('R1-aggregate-no-default', 'interpreter/%s' % k, not it.get(k + '_has_default'), '', '')
    sh = S.Shapes(rep)
    # R2: the semi-naive rule set (same rules as C09)
    S.rule_atom_name(rep, sh, 'plain')
    S.rule_negated_atoms(rep, sh)
    S.rule_table_updates(rep, sh)
    S.rule_exit(rep, sh)
    S.rule_loop_order(rep, sh)
    S.rule_versions(rep, sh)
    # R3
    S.rule_stratum_order(rep, sh)
    rule_program(rep, sh)


def run(tier='quick'):
    rep = Report('C01', tier)
    rep.explanation = ('three structural clauses of the evaluation mechanism: R1 the interpreter\'s aggregate table (identity, combine operator, operand '
                       'type, nested-on-empty-input) extracted for all 11 AggregateOps and compared with the aggregate semantics of the property '
                       'and the declared result type; R2 the semi-naive role discipline of the generator (C09 rule set); R3 stratum statement order '
                       '(load < compute < lub/delete < store), expired relations cleared after the whole stratum, strata taken from the topological '
                       'order and called once.')
    rep.assumptions = ['exact equality with the least model for every program and input is NOT decidable statically; the topological order and the expiry '
                       'sets themselves (RelationSchedule index arithmetic), join translation, generators, records/ADTs are NOT decided']
    try:
        analyse(rep)
        ms = [mutate.Mutant(n, f, o, w, e) for (n, f, o, w, e) in MUTANTS]
        mutate.run_mutants(rep, 'C01', ms if tier == 'thorough' else ms[3:5], analyse)
    except facts.Broken as e:
        rep.analysis_broken(str(e))
    rep.exhaustive = True
    return rep.finish()

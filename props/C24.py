"""C24 -- intrinsic functors and constraints: operator x type tables of the interpreter, the
synthesiser and the declaration table are extracted and compared (DESIGN.md section C24).
Also exports the tables for C02-R2."""
import re, sys
from engine import mutate, facts, tables, terms
from engine.facts import kids, walk, strip, is_call, call_args, call_obj, expr_key
from engine.report import Report
from engine.terms import TermError

TA = {'Signed': 'S', 'Unsigned': 'U', 'Float': 'F', 'Symbol': 'sym', 'Record': 'rec', 'ADT': 'adt'}

# R4: the only part of the oracle that is not extracted from the repository -- the documented
# C-like operator of each family (prefix U = unsigned overload, F = float overload).
FAMILY_TOKEN = {
    'NEG': ('un', '-'), 'BNOT': ('un', '~'), 'LNOT': ('un', '!'),
    'ADD': ('bin', '+'), 'SUB': ('bin', '-'), 'MUL': ('bin', '*'), 'DIV': ('bin', '/'), 'MOD': ('bin', '%'),
    'EXP': ('call', 'std::pow'), 'LAND': ('bin', '&&'), 'LOR': ('bin', '||'), 'LXOR': ('bin', 'lxor'),
    'BAND': ('bin', '&'), 'BOR': ('bin', '|'), 'BXOR': ('bin', '^'),
    'BSHIFT_L': ('bin', '<<'), 'BSHIFT_R': ('bin', '>>'), 'BSHIFT_R_UNSIGNED': ('bin', '>>'),
    'MAX': ('fold', 'std::max'), 'MIN': ('fold', 'std::min'),
}
CONSTRAINT_TOKEN = {'EQ': '==', 'NE': '!=', 'LT': '<', 'LE': '<=', 'GT': '>', 'GE': '>='}
# shifts: the type at which the *left* operand is shifted (sign extension or not) is part of the
# documented semantics ("BSHIFT_R sign-extends, *_UNSIGNED and U* do not")
SHIFT_LEFT_TYPE = {'BSHIFT_R': 'S', 'UBSHIFT_R': 'U', 'BSHIFT_R_UNSIGNED': 'U', 'UBSHIFT_R_UNSIGNED': 'U'}
CONV = {'I': 'S', 'U': 'U', 'F': 'F', 'S': 'sym'}

# operators whose case bodies loop / branch: compared through listed features instead of full terms
FEATURE_OPS = {
    'CAT': dict(int_calls={'decode', 'encode'}, syn_lits=['symTable.encode(', 'symTable.decode(', ') + ']),
    'SUBSTR': dict(int_calls={'decode', 'encode', 'substr'}, syn_lits=['symTable.encode(', 'substr_wrapper(symTable.decode(']),
    'SSADD': dict(int_calls={'decode', 'encode'}, syn_lits=['symTable.encode(', 'symTable.decode(', ' + ']),
    'SMAX': dict(int_calls={'decode'}, int_cmp='<', syn_lits=['symTable.encode(std::max({', 'symTable.decode(']),
    'SMIN': dict(int_calls={'decode'}, int_cmp='>', syn_lits=['symTable.encode(std::min({', 'symTable.decode(']),
    'MATCH': dict(int_calls={'decode', 'regex_match'}, neg=False, syn_lits=['std::regex_match(symTable.decode(', 'regex_wrapper(symTable.decode(']),
    'NOT_MATCH': dict(int_calls={'decode', 'regex_match'}, neg=True, syn_lits=['!std::regex_match(symTable.decode(', '!regex_wrapper(symTable.decode(']),
}
FATAL_OPS = {'RANGE', 'URANGE', 'FRANGE'}   # must map onto NestedIntrinsicOperator in both back-ends


def family(op):
    """(family, overload type) of a FunctorOp name"""
    if op in FAMILY_TOKEN:
        return op, 'S'
    if op[0] in 'UF' and op[1:] in FAMILY_TOKEN:
        return op[1:], op[0]
    return None, None


# ----------------------------------------------------------------------------------------
def declared_functors(unit, rep):
    v = [x for x in unit.vars if x['name'] == 'FUNCTOR_INTRINSICS']
    if not v:
        rep.analysis_broken('FUNCTOR_INTRINSICS table not found in FunctorOps.cpp')
        return {}
    decl = {}
    for n in walk(v[0]['init']):
        if n['k'] == 'InitListExpr' and n.get('rec') == 'IntrinsicFunctorInfo':
            tattrs, op, bools = [], None, []
            for m in walk(n):
                if m['k'] == 'DeclRefExpr' and m.get('dk') == 'EnumConstant':
                    if m['enum'].endswith('TypeAttribute'):
                        tattrs.append(m['name'])
                    elif m['enum'].endswith('FunctorOp') and op is None and m['name'] != '__UNDEFINED__':
                        op = m['name']
                elif m['k'] == 'CXXBoolLiteralExpr':
                    bools.append(m['val'])
            # functorOpNameSymbol(FOp::X) also mentions the op: the first FunctorOp ref is fine (same op)
            if op is None or not tattrs:
                rep.analysis_broken('unreadable FUNCTOR_INTRINSICS row at line %s' % n.get('l'))
                continue
            decl.setdefault(op, []).append(dict(params=[TA[t] for t in tattrs[:-1]], result=TA[tattrs[-1]],
                                                 variadic=bool(bools and bools[0]), line=n.get('l')))
    return decl


def declared_constraints(unit, rep):
    fs = unit.funcs(name='getBinaryConstraintTypes')
    if not fs:
        rep.analysis_broken('getBinaryConstraintTypes not found')
        return {}
    sw = tables.switches(fs[0], enum='BinaryConstraintOp')
    if not sw:
        rep.analysis_broken('getBinaryConstraintTypes: switch not found')
        return {}
    out = {}
    for g in sw[0].groups:
        tys = [m['name'] for s in g.stmts for m in walk(s) if m['k'] == 'DeclRefExpr' and m.get('dk') == 'EnumConstant'
               and m['enum'].endswith('TypeAttribute')]
        for l in g.labels:
            out[l] = [TA[t] for t in tys]
    return out


# ----------------------------------------------------------------------------------------
# interpreter side

def find_case_lambda(unit, kind):
    """the lambda of Engine::execute handling ram::<kind> (identified by the type of its `cur` binding)"""
    res = []
    for f in unit.functions:
        if not f.is_lambda or 'Engine::execute' not in f.qname:
            continue
        b = f.body
        for s in kids(b)[:3]:
            if s['k'] == 'DeclStmt':
                for vd in kids(s):
                    if vd.get('name') == 'cur' and vd.get('t', '').replace('const ', '').strip(' &') == 'souffle::ram::' + kind:
                        res.append(f)
    return res


def int_arg_of(n):
    """execute(shadow.getChild(i) | getLhs() | getRhs(), ctxt) -> operand index"""
    if not is_call(n, 'execute') or n.get('cc') != 'Engine':
        return None
    a = call_args(n)
    if not a:
        return None
    x = strip(a[0], casts=True)
    if is_call(x, 'get') and call_obj(x) is not None:   # unique_ptr .get()
        x = strip(call_obj(x), casts=True)
    if is_call(x, ('getChild', 'getLhs', 'getRhs')):
        if x['cn'] == 'getLhs':
            return 'L'
        if x['cn'] == 'getRhs':
            return 'R'
        ca = call_args(x)
        if ca:
            i = strip(ca[0], casts=True)
            if i['k'] == 'IntegerLiteral':
                return int(i['val'])
            if 'cv' in ca[0]:
                return int(ca[0]['cv'])
            if i['k'] == 'DeclRefExpr':
                return 'each'
        return None
    return None


def int_case_term(func, g):
    """term of one interpreter case group, or raises TermError (non straight-line)"""
    b = terms.AstTermBuilder(func, int_arg_of)
    stmts = g.flat()
    i = 0
    while i < len(stmts):
        s = stmts[i]
        k = s['k']
        if k == 'DeclStmt':
            for vd in kids(s):
                if vd['k'] == 'VarDecl' and kids(vd):
                    if vd.get('static'):
                        raise TermError('static local')
                    t = b.build(kids(vd)[0])
                    T = terms.canon_type(vd.get('t'))
                    if T != '?' and terms.ttype(t) != '?':
                        t = terms.mk_cast(T, t)
                    b.env[vd['did']] = t
        elif k == 'ReturnStmt':
            return b.build(kids(s)[0])
        elif k == 'ForStmt':
            # fold idiom: for (i = 1; i < numArgs; i++) { acc = f(acc, EVAL(each)); }
            parts = dict(zip(s['roles'], s['c']))
            init = parts['init']
            start = None
            if init is not None and init['k'] == 'DeclStmt' and kids(init):
                iv = kids(init)[0]
                if kids(iv):
                    st = b.build(kids(iv)[0])
                    st = terms.simplify(st)
                    if st[0] == 'const':
                        start = st[2]
            body = parts['body']
            bs = kids(body) if body['k'] == 'CompoundStmt' else [body]
            if len(bs) == 1:
                e = strip(bs[0])
                if e['k'] == 'BinaryOperator' and e['op'] == '=':
                    lhs, rhs = kids(e)
                    lhs = strip(lhs)
                    if lhs['k'] == 'DeclRefExpr' and lhs['did'] in b.env:
                        r = strip(rhs, casts=False)
                        if is_call(r) and len(call_args(r)) == 2:
                            a0 = strip(call_args(r)[0])
                            if a0['k'] == 'DeclRefExpr' and a0.get('did') == lhs['did']:
                                elem = b.build(call_args(r)[1])
                                first = b.env[lhs['did']]
                                # the accumulator must start from operand 0 evaluated the same way
                                def subst(t):
                                    if t[0] == 'arg':
                                        return ('arg', 'S', 0) if t[2] == 'each' else t
                                    return tuple(subst(x) if isinstance(x, tuple) and x and isinstance(x[0], str) else x for x in t)
                                if start == 1 and terms.simplify(subst(elem)) == terms.simplify(first):
                                    fname = r.get('callee')
                                    b.env[lhs['did']] = ('fold', terms.ttype(elem), fname, terms.ttype(elem), elem)
                                    i += 1
                                    continue
            raise TermError('loop')
        elif k in ('IfStmt', 'CXXTryStmt', 'WhileStmt', 'SwitchStmt', 'CXXForRangeStmt'):
            raise TermError('control flow ' + k)
        elif k in ('NullStmt',):
            pass
        else:
            e = strip(s)
            if is_call(e) and e.get('noreturn'):
                return ('call', '?', 'fatal', ())
            if e['k'] == 'CallExpr' and e.get('cn') in ('static_assert',):
                pass
            elif s['k'] in ('StaticAssertDecl',):
                pass
            else:
                raise TermError('statement ' + k)
        i += 1
    raise TermError('no return')


def int_features(func, g):
    calls, cmps, neg = set(), set(), None
    for s in g.stmts:
        for n in walk(s):
            if is_call(n):
                calls.add(n.get('cn'))
                if n['k'] == 'CXXOperatorCallExpr' and n.get('op') in terms.CMP:
                    cmps.add(n['op'])
            if n['k'] == 'BinaryOperator' and n['op'] == '=':
                rhs = strip(kids(n)[1])
                hit = [m for m in walk(rhs) if is_call(m, 'regex_match')]
                if hit:
                    isneg = rhs['k'] == 'UnaryOperator' and rhs['op'] == '!'
                    neg = isneg if neg in (None, isneg) else 'mixed'
    return calls, cmps, neg


# ----------------------------------------------------------------------------------------
# synthesiser side

def syn_hole_of(n):
    if not is_call(n, 'dispatch'):
        return None
    a = call_args(n)
    if not a:
        return None
    x = strip(a[0], casts=True)
    if x['k'] == 'UnaryOperator' and x['op'] == '*':
        x = strip(kids(x)[0], casts=True)
    if x['k'] == 'CXXOperatorCallExpr' and x.get('op') == '[]':
        idx = strip(kids(x)[2], casts=True)
        if idx['k'] == 'IntegerLiteral':
            return int(idx['val'])
        return 'var'
    if x['k'] == 'DeclRefExpr':
        return 'each'
    if is_call(x, ('getLHS', 'getRHS')):
        return 'L' if x['cn'] == 'getLHS' else 'R'
    return None


def syn_case_term(g):
    em = tables.Emit(syn_hole_of)
    ev = em.events(g.flat())
    # side-effect statements that do not print (flags, includes) are ignored
    ev2 = []
    for e in ev:
        if e[0] == 'stmt':
            n = e[2]
            if is_call(n, ('addInclude',)) or (n['k'] == 'BinaryOperator' and n['op'] == '='):
                continue
            if is_call(n) and n.get('noreturn'):
                return ('call', '?', 'fatal', ()), ev
        ev2.append(e)
    # n-ary idiom: lit, loop over args [lit hole(each) lit], lit
    flat = []
    for e in ev2:
        if e[0] == 'loop' and e[1] == 'CXXForRangeStmt':
            inner = tables.skeleton(e[2])
            if inner is None or '⟨each⟩' not in inner:
                raise TermError('loop body not a skeleton')
            flat.append(('lit', inner))
        elif e[0] in ('lit', 'hole'):
            flat.append(e)
        else:
            raise TermError('non straight-line emitter: ' + e[0])
    sk = tables.skeleton(flat)
    if sk is None or '\x00' in sk:
        raise TermError('skeleton has opaque parts')
    t = terms.parse_skeleton(sk)
    return t, sk


def norm_fold(t):
    """std::max({e(each), }) == left fold of std::max over operands evaluated as e"""
    if t[0] == 'call' and t[2] in ('std::max', 'std::min') and len(t[3]) == 1 and _has_each(t[3][0]):
        return ('fold', t[1], t[2], terms.ttype(t[3][0]), t[3][0])
    if t[0] in ('cast', 'bitcast'):
        return (t[0], t[1], norm_fold(t[2]))
    return t


def _has_each(t):
    if not isinstance(t, tuple):
        return False
    if t and t[0] == 'arg':
        return t[2] == 'each'
    return any(_has_each(x) for x in t if isinstance(x, tuple))


def syn_lits(g):
    em = tables.Emit(syn_hole_of)
    out = []

    def rec(evs):
        for e in evs:
            if e[0] == 'lit':
                out.append(e[1])
            elif e[0] == 'if':
                rec(e[2]); rec(e[3])
            elif e[0] == 'loop':
                rec(e[2])
    rec(em.events(g.flat()))
    return out


# ----------------------------------------------------------------------------------------
def top_token(t):
    """principal operator of a normalised term (conversions to the result type stripped)"""
    t = terms.simplify(t)
    while t[0] in ('cast', 'bitcast') and t[2][0] not in ('arg',):
        t = t[2]
    if t[0] == 'bin':
        return ('bin', t[2]), t
    if t[0] == 'un':
        return ('un', t[2]), t
    if t[0] == 'call':
        return ('call', t[2]), t
    if t[0] == 'fold':
        return ('fold', t[2]), t
    return (t[0], None), t


def consumption(t):
    """operand index -> set of contexts in which its raw value is consumed in the bits() normal form:
    'I' sign-agnostic integral, 'S'/'U'/'F' typed, 'sym' decoded as symbol, 'raw' passed through"""
    nf = terms.bits(t)
    acc = {}

    def rec(x, ctx):
        if not isinstance(x, tuple) or not x:
            return
        k = x[0]
        if k == 'arg':
            acc.setdefault(x[2], set()).add(ctx)
            return
        if k in ('binI', 'unI'):
            for c in x[2:]:
                rec(c, 'I')
            return
        if k == 'shl':
            rec(x[1], 'I'); rec(x[2], 'I')
            return
        if k == 'shr':
            rec(x[2], 'raw' if x[2][0] != 'arg' else 'S'); rec(x[3], 'I')
            return
        if k == 'nz':
            rec(x[1], 'I')
            return
        if k in ('cast', 'bitcast'):
            if x[2][0] == 'arg':
                # reinterpretation (bitcast, or S<->U cast) fixes the type the operand is read at;
                # a value conversion of the raw operand reads it as RamSigned
                rec(x[2], x[1] if (k == 'bitcast' or x[1] in ('S', 'U')) else 'S')
            else:
                rec(x[2], 'raw')
            return
        if k == 'call' and x[2] == 'decode':
            for c in x[3]:
                rec(c, 'sym' if c[0] == 'arg' else 'raw')
            return
        if k == 'bitsof':
            rec(x[2], 'raw')
            return
        if k == 'fold':
            rec(x[4], 'raw')
            return
        for c in x[1:]:
            if isinstance(c, tuple) and c and isinstance(c[0], str):
                rec(c, 'raw')
            elif isinstance(c, tuple):
                for cc in c:
                    rec(cc, 'raw')
    rec(nf, 'raw')
    return acc


def types_ok(declT, ctxs):
    if ctxs <= {'raw'}:
        return True      # passed through untouched (identity conversions, ord)
    if declT == 'S':
        return ctxs <= {'I', 'S', 'raw'}
    if declT == 'U':
        return ctxs <= {'I', 'U'}
    if declT == 'F':
        return ctxs <= {'F'}
    if declT == 'sym':
        return ctxs <= {'sym', 'raw'}
    return ctxs <= {'raw'}


def result_type_ok(declT, t):
    """the value whose bits are returned has the declared type (sign-agnostic results accepted for S/U)"""
    t = terms.simplify(t)
    nf = terms.bits(t)
    if nf[0] == 'arg':
        return True          # operand passed through untouched
    if declT in ('S', 'U'):
        if nf[0] in ('binI', 'unI', 'bool', 'arg', 'shl'):
            return True
        while t[0] in ('bitcast', 'cast') and t[1] in ('S', 'U') and terms.ttype(t[2]) in ('S', 'U'):
            t = t[2]
        return terms.ttype(t) == declT
    if declT == 'F':
        while t[0] in ('bitcast',) and t[1] in ('S', 'U'):
            t = t[2]
        return terms.ttype(t) == 'F'
    if declT == 'sym':
        return True
    return True


# ----------------------------------------------------------------------------------------
def build_tables(rep, eng, syn, fop):
    """returns dict with 'functor' and 'constraint' tables: op -> dict(int=term|None, syn=term|None, ...)"""
    out = {'functor': {}, 'constraint': {}}
    enumF = fop.enum('FunctorOp')
    enumC = eng.enum('BinaryConstraintOp') or fop.enum('BinaryConstraintOp')
    if enumF is None or enumC is None:
        rep.analysis_broken('enum FunctorOp / BinaryConstraintOp not found')
        return None
    opsF = [e['name'] for e in enumF['enumerators'] if not e['name'].startswith('__')]
    opsC = [e['name'] for e in enumC['enumerators']]
    out['opsF'], out['opsC'] = opsF, opsC

    for kind, ram_kind, enum, ops in (('functor', 'IntrinsicOperator', 'FunctorOp', opsF),
                                      ('constraint', 'Constraint', 'BinaryConstraintOp', opsC)):
        lam = find_case_lambda(eng, ram_kind)
        if len(lam) != 1:
            rep.analysis_broken('interpreter case for ram::%s not found (got %d)' % (ram_kind, len(lam)))
            return None
        isw = tables.switches(lam[0], enum=enum)
        if len(isw) != 1:
            rep.analysis_broken('interpreter %s: expected one switch over %s, got %d' % (ram_kind, enum, len(isw)))
            return None
        sf = [f for f in syn.funcs(name='visit_') if f.d['params'] and f.d['params'][1]['t'].replace('const ', '').strip(' &') == 'souffle::ram::' + ram_kind]
        if len(sf) != 1:
            rep.analysis_broken('synthesiser visit_(%s) not found' % ram_kind)
            return None
        ssw = tables.switches(sf[0], enum=enum)
        if len(ssw) != 1:
            rep.analysis_broken('synthesiser %s: expected one switch over %s, got %d' % (ram_kind, enum, len(ssw)))
            return None
        out[kind + '_int_sw'], out[kind + '_syn_sw'] = isw[0], ssw[0]
        out[kind + '_int_fn'], out[kind + '_syn_fn'] = lam[0], sf[0]
        ig, sg = isw[0].by_label(), ssw[0].by_label()
        for op in ops:
            row = dict(op=op, int=None, syn=None, int_err=None, syn_err=None, ig=ig.get(op), sg=sg.get(op))
            if row['ig'] is not None:
                try:
                    row['int'] = int_case_term(lam[0], row['ig'])
                except TermError as e:
                    row['int_err'] = str(e)
            if row['sg'] is not None:
                try:
                    t, sk = syn_case_term(row['sg'])
                    row['syn'] = norm_fold(t)
                    row['skeleton'] = sk
                except TermError as e:
                    row['syn_err'] = str(e)
            out[kind][op] = row
    return out


# ---- R5: shared helper behind LXOR -----------------------------------------------------------------------------------------------------
# Both back-ends route LXOR through souffle::evaluator::lxor<A> (the interpreter directly, the synthesiser through the lxor_infix curry), so
# sibling agreement says nothing about it.  The helper's return expression is evaluated over the partition of argument pairs that an
# expression built from truth-value conversion, !, &&, ||, == and != can distinguish: (0,0) (0,n) (n,0) (n,n) (n,m).  Any other construct
# is analysis-broken.  Oracle (documented semantics of `lxor`): exactly one operand is non-zero.

class _NoEval(Exception):
    pass


def _bool_eval(n, env):
    n = strip(n)
    k = n['k']
    if k == 'ImplicitCastExpr':
        v = _bool_eval(kids(n)[0], env)
        if n.get('ck') == 'IntegralToBoolean':
            return int(v != 0)
        if n.get('ck') in ('IntegralCast', 'LValueToRValue', 'NoOp'):
            return v
        raise _NoEval('cast ' + str(n.get('ck')))
    if k == 'DeclRefExpr' and n.get('did') in env:
        return env[n['did']]
    if k == 'UnaryOperator' and n.get('op') == '!':
        return int(not _bool_eval(kids(n)[0], env))
    if k == 'BinaryOperator' and n.get('op') in ('&&', '||', '==', '!='):
        a, b = kids(n)
        if n['op'] == '&&':
            return int(bool(_bool_eval(a, env)) and bool(_bool_eval(b, env)))
        if n['op'] == '||':
            return int(bool(_bool_eval(a, env)) or bool(_bool_eval(b, env)))
        va, vb = _bool_eval(a, env), _bool_eval(b, env)
        return int((va == vb) == (n['op'] == '=='))
    if k == 'ConditionalOperator':
        c, a, b = kids(n)
        return _bool_eval(a, env) if _bool_eval(c, env) else _bool_eval(b, env)
    if k == 'CXXBoolLiteralExpr':
        return int(n.get('val'))
    raise _NoEval('%s %s' % (k, n.get('op', '')))


def rule_lxor_helper(rep):
    u, = facts.extract([('src/interpreter/Engine.cpp', r'utility/EvaluatorUtil\.h$', r'evaluator::(lxor|operator\+)')])
    rep.add_units([u])
    n = 0
    for f in u.functions:
        if f.name == 'lxor' and len(f.d['params']) == 2:
            n += 1
            inst = 'lxor<%s>' % f.d['params'][0]['t']
            rets = [r for r in f.walk() if r['k'] == 'ReturnStmt']
            if len(rets) != 1 or len(kids(f.body)) != 1:
                rep.analysis_broken('%s: body is not a single return' % inst)
                continue
            px, py = f.d['params'][0]['did'], f.d['params'][1]['did']
            bad = []
            try:
                for (x, y) in ((0, 0), (0, 5), (5, 0), (5, 5), (5, 9)):
                    got = _bool_eval(kids(rets[0])[0], {px: x, py: y})
                    if bool(got) != ((x != 0) != (y != 0)):
                        bad.append('(%s, %s) -> %d' % ('0' if not x else 'n', '0' if not y else ('n' if y == x or not x else 'm'), got))
            except _NoEval as e:
                rep.analysis_broken('%s: construct outside the truth-value fragment (%s)' % (inst, e))
                continue
            rep.ob('R5-lxor-helper-is-exclusive-or-of-truth-values', inst, not bad, f.where,
                   '' if not bad else 'lxor must be true exactly when one operand is non-zero; wrong for operand classes %s (0 = zero, n/m = distinct non-zero values)' % bad)
        if f.name == 'operator+' and f.d.get('cls') == 'curry':
            n += 1
            calls = [c for c in f.walk() if is_call(c, 'lxor')]
            ok = len(calls) == 1 and len(call_args(calls[0])) == 2 and \
                sorted(strip(a, casts=True)['k'] for a in call_args(calls[0])) == ['DeclRefExpr', 'MemberExpr']
            rep.ob('R5-lxor-infix-delegates', 'curry<%s>::operator+' % f.d['params'][0]['t'], ok, f.where,
                   '' if ok else 'the infix form used by the generated code must return lxor(stored operand, right operand)')
    rep.floor('R5-lxor-helper-instances', n, 4)


def run(tier='quick'):
    rep = Report('C24', tier)
    rep.explanation = ('static sibling-agreement analysis: the operator x type tables of the interpreter '
                       '(clang AST of Engine::execute cases), the synthesiser (string skeletons of the emitter cases, '
                       're-parsed as C++ expressions) and FUNCTOR_INTRINSICS / getBinaryConstraintTypes are extracted '
                       'from the current source and compared per enumerator; exhaustive over both enums; the helper both back-ends share for LXOR is evaluated over '
                       'the finite partition of operand pairs its expression can distinguish')
    rep.assumptions = ['the C++ compiler implements the arithmetic of each extracted operator at the extracted type',
                       'two\'s complement wrap-around (-fwrapv is in the build flags): + - * & | ^ ~ unary- and << give the '
                       'same bits at RamSigned and RamUnsigned',
                       'the documented operator of each family (22-line FAMILY_TOKEN list in props/C24.py) is the oracle for R4']
    try:
        analyse(rep)
        ms = [mutate.Mutant(n, f, o, w, e) for (n, f, o, w, e) in MUTANTS]
        mutate.run_mutants(rep, 'C24', ms if tier == 'thorough' else ms[:2] + ms[3:4], analyse)
    except facts.Broken as e:
        rep.analysis_broken(str(e))
    return rep.finish()


def analyse(rep):
    eng, syn, fop = facts.extract([
        ('src/interpreter/Engine.cpp', r'interpreter/Engine\.cpp$|BinaryConstraintOps\.h$', r'Engine::execute$|getBinaryConstraintTypes', None, r'ram::(IntrinsicOperator|Constraint) &'),
        ('src/synthesiser/Synthesiser.cpp', r'synthesiser/Synthesiser\.cpp$', r'CodeEmitter::visit_'),
        ('src/FunctorOps.cpp', r'FunctorOps\.(cpp|h)$|TypeAttribute\.h$', '.*')])
    rep.add_units([eng, syn, fop])
    T = build_tables(rep, eng, syn, fop)
    if T is None:
        return
    declF = declared_functors(fop, rep)
    declC = declared_constraints(eng, rep)
    check_tables(rep, T, declF, declC)
    rule_regex_wrapper(rep)
    rule_lxor_helper(rep)
    rep.exhaustive = True
    rep.floor('R1-exhaustive', sum(1 for o in rep.obligations if o['rule'] == 'R1-exhaustive'), 73 + 24)


SYN = 'src/synthesiser/Synthesiser.cpp'
ENG = 'src/interpreter/Engine.cpp'
MUTANTS = [
    ('not-match-negates-wrapper-result', SYN, '''                        out << "regex_wrapper(symTable.decode(";
                        dispatch(rel.getLHS(), out);
                        out << "),symTable.decode(";
                        dispatch(rel.getRHS(), out);
                        out << "),true)";''', '''                        out << "!regex_wrapper(symTable.decode(";
                        dispatch(rel.getLHS(), out);
                        out << "),symTable.decode(";
                        dispatch(rel.getRHS(), out);
                        out << "),false)";''', 'R2'),
    ('synth-sub-emits-plus', SYN, 'BINARY_OP_NUMERIC(SUB, -)', 'BINARY_OP_NUMERIC(SUB, +)', 'R2'),
    ('wrapper-negates-after-catch', SYN, '(std::regex_match(text, regexCache.getOrCreate(pattern)) != negate); } ',
     'std::regex_match(text, regexCache.getOrCreate(pattern)); } ', 'R2'),
    ('lxor-compares-values', 'src/include/souffle/utility/EvaluatorUtil.h', 'return (x || y) && (!x != !y);', 'return (x || y) && (x != y);', 'R5'),
    ('synth-udiv-signed', SYN, 'BINARY_OP_NUMERIC(DIV, /)', 'BINARY_OP_NUMERIC(DIV, /)  /* mutated below */', None),
]
MUTANTS = MUTANTS[:4]


def rule_regex_wrapper(rep):
    """the generated regex_wrapper(pattern, text, negate): result defaults to false, is assigned only inside the try, and the negation
    is applied to the match itself"""
    gen, = facts.extract([('src/synthesiser/Synthesiser.cpp', r'synthesiser/Synthesiser\.cpp$', r'Synthesiser::generateCode$')])
    rep.add_units([gen])
    blocks = []
    for f in gen.functions:
        if f.is_lambda:
            continue
        for n in f.walk():
            if n['k'] == 'IfStmt' and any(m['k'] == 'StringLiteral' and m.get('str') == 'regex_wrapper' for m in walk(n)):
                inner = [x for x in walk(kids(n)[-1]) if x['k'] == 'IfStmt' and any(m['k'] == 'StringLiteral' and m.get('str') == 'regex_wrapper' for m in walk(x))]
                if not inner:
                    blocks.append((f, n))
    if len(blocks) != 1:
        rep.analysis_broken('generateCode: the block generating regex_wrapper was not found (%d candidates)' % len(blocks))
        return
    f, n = blocks[0]
    lits = [m.get('str', '') for m in walk(n) if m['k'] == 'StringLiteral']
    body = ''.join(lits)
    has_neg = 'negate' in lits
    m_try = re.search(r'try\s*\{(.*?)\}\s*catch\s*\(\.\.\.\)\s*\{(.*)', body, re.S)
    ok = bool(re.search(r'bool\s+result\s*=\s*false', body)) and m_try is not None
    why = []
    if not ok:
        why.append('the wrapper does not start from `bool result = false` with a try/catch around the match')
    else:
        tr, ca = m_try.group(1), m_try.group(2)
        outside = body.replace(m_try.group(0), '')
        if len(re.findall(r'\bresult\s*=[^=]', outside)) != 1:
            why.append('result is assigned outside the try block')
        if re.search(r'\bresult\s*=[^=]', ca):
            why.append('result is assigned in the catch block (an invalid pattern must leave the constraint false)')
        if has_neg and not re.search(r'regex_match\(.*\)\s*\)?\s*!=\s*negate', tr):
            why.append('the negate flag is not applied to the match result inside the try block')
        if not has_neg:
            why.append('the wrapper has no negate parameter: !match cannot be false for an invalid pattern')
    rep.ob('R2-regex-wrapper-failure-polarity', 'Synthesiser::generateCode/regex_wrapper', not why, f.loc(n), '; '.join(why))


def check_tables(rep, T, declF, declC, pid_rules=('R1', 'R2', 'R3', 'R4')):
    for kind, ops, decl in (('functor', T['opsF'], declF), ('constraint', T['opsC'], declC)):
        isw, ssw = T[kind + '_int_sw'], T[kind + '_syn_sw']
        ifn, sfn = T[kind + '_int_fn'], T[kind + '_syn_fn']
        # no default may swallow an enumerator
        if 'R1' in pid_rules:
            rep.ob('R1-no-default', '%s/interpreter' % kind, not isw.has_default, ifn.loc(isw.node), 'switch has a default label')
            rep.ob('R1-no-default', '%s/synthesiser' % kind, not ssw.has_default, sfn.loc(ssw.node), 'switch has a default label')
        for op in ops:
            row = T[kind][op]
            ig, sg = row['ig'], row['sg']
            iw = ifn.loc({'l': ig.line}) if ig else ifn.where
            sw = sfn.loc({'l': sg.line}) if sg else sfn.where
            if 'R1' in pid_rules:
                ok = ig is not None and sg is not None and op in decl
                missing = [w for w, x in (('interpreter', ig), ('synthesiser', sg), ('declaration table', decl.get(op))) if not x]
                rep.ob('R1-exhaustive', '%s/%s' % (kind, op), ok, iw, 'no case in: ' + ', '.join(missing) if missing else '')
                for side, g, w in (('interpreter', ig, iw), ('synthesiser', sg, sw)):
                    if g is not None and g.falls_through:
                        rep.ob('R1-no-fallthrough', '%s/%s/%s' % (kind, op, side), False, w, 'case body falls through into the next case')
            if ig is None or sg is None:
                continue
            it, st = row['int'], row['syn']
            feat = FEATURE_OPS.get(op)
            if op in FATAL_OPS:
                ok = it is not None and st is not None and it[2:3] == ('fatal',) and st[2:3] == ('fatal',)
                if 'R2' in pid_rules:
                    rep.ob('R2-backends-agree', '%s/%s' % (kind, op), ok, iw, 'both back-ends must refuse (handled by NestedIntrinsicOperator)')
                continue
            if feat is not None:
                check_feature_op(rep, kind, op, feat, row, ifn, iw, sw, pid_rules)
                continue
            if it is None or st is None:
                rep.analysis_broken('%s/%s: case body not reducible to a term (interpreter: %s; synthesiser: %s)' % (
                    kind, op, row['int_err'], row['syn_err']))
                continue
            if kind == 'functor':
                # the emitted expression is consumed through ramBitCast(...): it must be a 4-byte Ram type
                sT = terms.ttype(terms.simplify(st))
                if 'R2' in pid_rules:
                    rep.ob('R2-emitted-type', 'functor/%s' % op, sT in ('S', 'U', 'F'), sw,
                           '' if sT in ('S', 'U', 'F') else 'emitted expression has type %s; ramBitCast needs a 32-bit Ram type' % sT)
                st = terms.mk_bitcast('S', st)
                row['syn'] = st
            bi, bs = terms.bits(it), terms.bits(st)
            if kind == 'constraint':
                bi, bs = terms.boolval(terms.mk_cast('B', it)), terms.boolval(terms.mk_cast('B', st))
            if 'R2' in pid_rules:
                rep.ob('R2-backends-agree', '%s/%s' % (kind, op), bi == bs, iw,
                       '' if bi == bs else 'interpreter computes %s ; synthesiser (%s) emits %s' % (terms.show(bi), sw, terms.show(bs)))
            if 'R3' in pid_rules:
                for side, t, w in (('interpreter', it, iw), ('synthesiser', st, sw)):
                    check_types(rep, kind, op, side, t, decl.get(op), w)
            if 'R4' in pid_rules:
                for side, t, w in (('interpreter', it, iw), ('synthesiser', st, sw)):
                    check_token(rep, kind, op, side, t, w)


def check_feature_op(rep, kind, op, feat, row, ifn, iw, sw, pid_rules):
    calls, cmps, neg = int_features(ifn, row['ig'])
    lits = ''.join(syn_lits(row['sg']))
    ok_i = feat['int_calls'] <= calls
    det = []
    if not ok_i:
        det.append('interpreter case lacks calls %s' % sorted(feat['int_calls'] - calls))
    if 'int_cmp' in feat:
        if cmps != {feat['int_cmp']}:
            ok_i = False
            det.append('interpreter compares decoded strings with %s, reference %s' % (sorted(cmps), feat['int_cmp']))
    if 'neg' in feat and neg != feat['neg']:
        ok_i = False
        det.append('interpreter result negation is %s, reference %s' % (neg, feat['neg']))
    ok_s = True
    if op in ('MATCH', 'NOT_MATCH'):
        flat = lits.replace(' ', '')
        # constant pattern: the compiled regex is matched directly; NOT_MATCH negates exactly that call
        for m in re.finditer(r'(!?)std::regex_match\(', flat):
            if (m.group(1) == '!') != feat['neg']:
                ok_s = False
                det.append('synthesiser emits %sstd::regex_match for a constant pattern' % m.group(1))
        if 'false' not in [l.strip() for l in syn_lits(row['sg'])]:
            ok_s = False
            det.append('an invalid constant pattern is not emitted as `false`')
        # non-constant pattern: the wrapper swallows an invalid pattern into `false` (the interpreter leaves result = false
        # in its catch block too), so the negation must be applied INSIDE the wrapper, never to its result
        ws = list(re.finditer(r'(!?)(\w*regex_wrapper)\(symTable\.decode\(\),symTable\.decode\(\)(,true|,false)?\)', flat))
        if not ws:
            ok_s = False
            det.append('synthesiser emits no (recognised) regex_wrapper call for non-constant patterns')
        for m in ws:
            if m.group(1) == '!':
                ok_s = False
                det.append('synthesiser negates the wrapper\'s result: an invalid pattern makes %s TRUE in compiled code but false in the interpreter' % op)
            elif m.group(3) != (',true' if feat['neg'] else ',false'):
                ok_s = False
                det.append('wrapper called with negate=%s for %s' % (m.group(3), op))
        if not re.search(r'regex_match|regex_wrapper', flat):
            ok_s = False
            det.append('synthesiser emits no regex call')
        # interpreter: the result defaults to false and no catch block assigns it
        for n in (row['ig'].flat() if row.get('ig') else []):
            for c in walk(n):
                if c['k'] == 'VarDecl' and c.get('name') == 'result' and kids(c):
                    v = strip(kids(c)[0], casts=True)
                    if not (v['k'] == 'CXXBoolLiteralExpr' and not v.get('val')):
                        ok_i = False
                        det.append('interpreter result does not default to false')
                if c['k'] == 'CXXCatchStmt' and any(x['k'] == 'BinaryOperator' and x.get('op') == '=' and strip(kids(x)[0], casts=True).get('name') == 'result' for x in walk(c)):
                    ok_i = False
                    det.append('interpreter assigns the result in the catch block of an invalid pattern')
    else:
        for l in feat['syn_lits']:
            if l.replace(' ', '') not in lits.replace(' ', ''):
                ok_s = False
                det.append('synthesiser skeleton lacks %r' % l)
    if 'R2' in pid_rules:
        rep.ob('R2-backends-agree', '%s/%s' % (kind, op), ok_i and ok_s, iw if not ok_i else sw, '; '.join(det))


def check_types(rep, kind, op, side, t, decls, where):
    if not decls:
        return
    cons = consumption(t)
    if kind == 'constraint':
        # decls = list of admissible operand types (EQ/NE are polymorphic: compared as raw RamDomain)
        for idx, ctxs in cons.items():
            ok = any(types_ok(d, ctxs) for d in decls)
            if len(decls) > 1:
                ok = ctxs <= {'S', 'I', 'raw'}
            rep.ob('R3-declared-types', 'constraint/%s/%s/operand-%s' % (op, side, idx), ok, where,
                   '' if ok else 'operand consumed as %s, declared %s' % (sorted(ctxs), decls))
        return
    # functors: at least one declared overload must fit (ORD has six)
    best = None
    for d in decls:
        bad = []
        for idx, ctxs in cons.items():
            if idx == 'each':
                pt = d['params'][0]
            elif isinstance(idx, int) and idx < len(d['params']):
                pt = d['params'][idx]
            else:
                bad.append('operand %s not declared' % idx)
                continue
            fam, _ = family(op)
            if fam in ('BSHIFT_L',) or op in SHIFT_LEFT_TYPE:
                continue    # left-operand type of shifts is fixed by R4's SHIFT_LEFT_TYPE
            if not types_ok(pt, ctxs):
                bad.append('operand %s consumed as %s, declared %s' % (idx, sorted(ctxs), pt))
        if op not in SHIFT_LEFT_TYPE and not result_type_ok(d['result'], t):
            bad.append('result computed at %s, declared %s' % (terms.ttype(terms.simplify(t)), d['result']))
        if best is None or len(bad) < len(best):
            best = bad
    rep.ob('R3-declared-types', 'functor/%s/%s' % (op, side), not best, where, '; '.join(best or []))


def check_token(rep, kind, op, side, t, where):
    tok, core = top_token(t)
    if kind == 'constraint':
        base = op[1:] if op[0] in 'UFS' and op[1:] in CONSTRAINT_TOKEN else op
        if base in CONSTRAINT_TOKEN:
            ok = tok == ('bin', CONSTRAINT_TOKEN[base])
            rep.ob('R4-operator-token', 'constraint/%s/%s' % (op, side), ok, where, '' if ok else 'computes %s' % terms.show(core))
        elif op in ('CONTAINS', 'NOT_CONTAINS'):
            want = '!=' if op == 'CONTAINS' else '=='
            ok = tok == ('bin', want) and core[3][0] == 'call' and core[3][2] == '.find'
            # text is the right operand, pattern the left one
            if ok:
                f = core[3]
                ok = 'R' in str(f[3][0]) and 'L' in str(f[3][1])
            rep.ob('R4-operator-token', 'constraint/%s/%s' % (op, side), ok, where, '' if ok else 'computes %s' % terms.show(core))
        return
    fam, ov = family(op)
    if fam is not None:
        want = FAMILY_TOKEN[fam]
        ok = tok == want
        det = '' if ok else 'computes %s, documented operator %s' % (terms.show(core), want[1])
        if ok and fam.startswith('BSHIFT'):
            # masked shift amount; left operand shifted at the documented signedness
            rhs = terms.bits(core[4])
            masked = rhs[0] == 'binI' and rhs[1] == '&' and any(x[0] == 'var' and x[2] == 'RAM_BIT_SHIFT_MASK' for x in rhs[2:])
            if not masked:
                ok, det = False, 'shift amount is not masked with RAM_BIT_SHIFT_MASK: %s' % terms.show(core)
            elif op in SHIFT_LEFT_TYPE and terms.ttype(terms.simplify(core[3])) != SHIFT_LEFT_TYPE[op]:
                ok, det = False, 'left operand shifted at type %s, documented %s' % (terms.ttype(terms.simplify(core[3])), SHIFT_LEFT_TYPE[op])
        if ok and fam in ('DIV', 'MOD'):
            want_t = {'S': 'S', 'U': 'U', 'F': 'F'}[ov]
            if core[1] != want_t:
                ok, det = False, '%s computed at type %s, overload type %s' % (fam, core[1], want_t)
        if ok and fam in ('MAX', 'MIN'):
            want_t = {'S': 'S', 'U': 'U', 'F': 'F'}[ov]
            if core[3] != want_t:
                ok, det = False, '%s folded at type %s, overload type %s' % (fam, core[3], want_t)
        rep.ob('R4-operator-token', 'functor/%s/%s' % (op, side), ok, where, det)
        return
    m = re.match(r'^([IUFS])2([IUFS])$', op)
    if m:
        src, dst = CONV[m.group(1)], CONV[m.group(2)]
        cons = consumption(t)
        ctx = cons.get(0, set())
        nf = terms.simplify(t)
        ok, det = True, ''
        if src == dst:
            ok = terms.bits(t) == ('arg', 'S', 0)
            det = '' if ok else 'identity conversion computes %s' % terms.show(nf)
        elif dst == 'sym':
            # std::to_string applied to the operand *at the source type*
            core = nf
            ok = core[0] == 'call' and core[2] == 'encode' and core[3] and core[3][0][0] == 'call' and core[3][0][2] == 'std::to_string'
            if ok:
                inner = terms.simplify(core[3][0][3][0])
                ok = terms.ttype(inner) == src and (inner[0] == 'arg' or (inner[0] in ('cast', 'bitcast') and inner[2][0] == 'arg'))
            det = '' if ok else 'to_string must be applied to the operand at type %s: %s' % (src, terms.show(nf))
        elif src == 'sym':
            core = nf
            while core[0] in ('cast', 'bitcast'):
                core = core[2]
            ok = core[0] == 'call' and core[2] == 'symbol2numeric<%s>' % dst and ctx <= {'sym'}
            det = '' if ok else 'expected symbol2numeric<%s>(decode(operand)): %s' % (dst, terms.show(nf))
        elif {src, dst} == {'S', 'U'}:
            ok = terms.bits(t) == ('arg', 'S', 0)
            det = '' if ok else 'signed<->unsigned conversion must keep the bits: %s' % terms.show(nf)
        else:
            core = nf
            # the value whose bits are stored: strip bit-preserving wrappers
            while core[0] in ('bitcast', 'cast') and core[1] in ('S', 'U') and (core[0] == 'bitcast' or terms.ttype(core[2]) in ('S', 'U')):
                core = core[2]
            ok = core[0] == 'cast' and core[1] == dst and terms.ttype(core[2]) == src and ctx <= {src}
            det = '' if ok else 'expected static_cast<%s>(operand read at %s): %s' % (dst, src, terms.show(nf))
        rep.ob('R4-operator-token', 'functor/%s/%s' % (op, side), ok, where, det)
        return
    if op == 'ORD':
        ok = terms.bits(t) == ('arg', 'S', 0)
        rep.ob('R4-operator-token', 'functor/%s/%s' % (op, side), ok, where, '' if ok else terms.show(t))
    elif op == 'STRLEN':
        nf = terms.simplify(t)
        core = nf
        while core[0] in ('cast', 'bitcast'):
            core = core[2]
        ok = core[0] == 'call' and core[2] == '.size' and core[3][0][0] == 'call' and core[3][0][2] == 'decode'
        rep.ob('R4-operator-token', 'functor/%s/%s' % (op, side), ok, where, '' if ok else terms.show(t))

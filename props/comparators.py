"""Shared rule: element comparators are decided over the FINITE set of orderings.

A comparator touches its two arguments only through comparisons of one and the same component, so its
result is a function of (ordering of the head component in {<,=,>}) x (result of the tail comparator in
{-1,0,1}).  We evaluate operator(), less and equal symbolically for all nine combinations; anything else
done with an element value (arithmetic, mixing components, ...) is reported as such.  This decides, for
every possible element value (not sampled ones): operator() is a sign function of the lexicographic
order, less <=> operator() < 0, equal <=> operator() == 0, ascending direction."""
import os
from engine import facts
from engine.facts import kids, walk, strip, is_call, call_args, expr_key

TU = os.path.join(facts.VERIF, 'tu', 'cmp_instances.cpp')
JOB = (TU, r'(BTreeUtil|UnionFind|interpreter/Util)\.h$', r'.*')
CMP = {'<', '>', '<=', '>=', '==', '!='}


class Bad(Exception):
    def __init__(self, node, why):
        self.node, self.why = node, why


def rel(op, s):
    return {'<': s < 0, '>': s > 0, '<=': s <= 0, '>=': s >= 0, '==': s == 0, '!=': s != 0}[op]


class Eval:
    def __init__(self, cls_funcs, func, o, t, swapped=False, depth=0):
        self.fs, self.f, self.o, self.t, self.sw, self.depth = cls_funcs, func, o, t, swapped, depth
        ps = [p['name'] for p in func.d['params']]
        self.pa, self.pb = (ps + ['', ''])[:2]

    def head_sign(self):
        s = {'<': -1, '=': 0, '>': 1}[self.o]
        return -s if self.sw else s

    def tail(self):
        return -self.t if self.sw else self.t

    def proj(self, n):
        """(param, projection) if n is an element (component) expression, else None"""
        n = strip(n, casts=True)
        k = n.get('k')
        if k == 'DeclRefExpr' and n.get('dk') == 'Parm' and n.get('name') in (self.pa, self.pb) and n.get('name'):
            return (n['name'], '')
        if k == 'MemberExpr' and kids(n):
            b = self.proj(kids(n)[0])
            return (b[0], b[1] + '.' + n.get('member', '?')) if b else None
        if k == 'CXXOperatorCallExpr' and n.get('op') == '[]':
            a = call_args(n)
            b = self.proj(a[0]) if a else None
            if b:
                i = strip(a[1], casts=True)
                return (b[0], b[1] + '[%s]' % (i.get('cv') if 'cv' in i else facts.expr_key(i)))
        if k == 'ArraySubscriptExpr':
            b = self.proj(kids(n)[0])
            if b:
                i = strip(kids(n)[1], casts=True)
                return (b[0], b[1] + '[%s]' % (i.get('cv') if 'cv' in i else facts.expr_key(i)))
        return None

    def expr(self, n):
        n = strip(n, casts=True)
        k = n.get('k')
        if k in ('ExprWithCleanups', 'ParenExpr', 'MaterializeTemporaryExpr', 'CXXBindTemporaryExpr', 'ConstantExpr') and kids(n):
            return self.expr(kids(n)[0])
        op = n.get('op')
        if (k == 'BinaryOperator' or k == 'CXXOperatorCallExpr') and op in CMP:
            l, r = (kids(n) if k == 'BinaryOperator' else call_args(n))[:2]
            pl, pr = self.proj(l), self.proj(r)
            if pl and pr:
                if pl[1] != pr[1]:
                    raise Bad(n, 'compares different components (%s against %s)' % (pl[1] or 'whole', pr[1] or 'whole'))
                if pl[0] == pr[0]:
                    raise Bad(n, 'compares an argument with itself')
                s = self.head_sign() if pl[0] == self.pa else -self.head_sign()
                return int(rel(op, s))
            if pl or pr:
                raise Bad(n, 'compares an element component with a non-element value')
            return int(rel(op, self.expr(l) - self.expr(r)))
        if 'cv' in n and not self.proj(n):
            return int(n['cv'])
        if k == 'IntegerLiteral':
            return int(n['val'])
        if k == 'CXXBoolLiteralExpr':
            return int(bool(n.get('val')))
        if self.proj(n):
            raise Bad(n, 'an element value is used outside a comparison (orders must not depend on arithmetic over values: it wraps)')
        if k == 'BinaryOperator':
            l, r = kids(n)
            if op == '&&':
                return int(bool(self.expr(l)) and bool(self.expr(r)))
            if op == '||':
                return int(bool(self.expr(l)) or bool(self.expr(r)))
            a, b = self.expr(l), self.expr(r)
            if op == '-':
                return a - b
            if op == '+':
                return a + b
            if op == '*':
                return a * b
            raise Bad(n, 'operator %s not understood' % op)
        if k == 'UnaryOperator':
            v = self.expr(kids(n)[0])
            if op == '-':
                return -v
            if op == '!':
                return int(not v)
            raise Bad(n, 'operator %s not understood' % op)
        if k == 'ConditionalOperator':
            c, a, b = kids(n)
            return self.expr(a) if self.expr(c) else self.expr(b)
        if k in ('CXXMemberCallExpr', 'CXXOperatorCallExpr', 'CallExpr') and n.get('cn') in ('operator()', 'less', 'equal'):
            args = call_args(n)
            if k == 'CXXOperatorCallExpr':
                args = args[1:]
            ps = [self.proj(a) for a in args[:2]]
            if len(ps) != 2 or not all(ps) or ps[0][1] or ps[1][1] or ps[0][0] == ps[1][0]:
                raise Bad(n, 'nested comparator is not applied to the two whole arguments')
            flip = ps[0][0] != self.pa
            same = [g for g in self.fs if g.qname == n.get('callee')]
            if same:
                if self.depth > 4:
                    raise Bad(n, 'recursion too deep')
                return Eval(self.fs, same[0], self.o, self.t, self.sw != flip, self.depth + 1).run()
            t = -self.tail() if flip else self.tail()
            return {'operator()': t, 'less': int(t < 0), 'equal': int(t == 0)}[n['cn']]
        raise Bad(n, 'construct %s not understood by the order evaluator' % k)

    def stmt(self, n):
        """returns a value if the statement returned, else None"""
        k = n.get('k')
        if k == 'CompoundStmt':
            for c in kids(n):
                v = self.stmt(c)
                if v is not None:
                    return v
            return None
        if k == 'ReturnStmt':
            return self.expr(kids(n)[0])
        if k == 'IfStmt':
            ks = kids(n)
            if self.expr(ks[0]):
                return self.stmt(ks[1])
            return self.stmt(ks[2]) if len(ks) > 2 else None
        if k == 'NullStmt':
            return None
        raise Bad(n, 'statement %s not understood by the order evaluator' % k)

    def run(self):
        v = self.stmt(self.f.body)
        if v is None:
            raise Bad(self.f.body, 'falls off the end without a result')
        return v


def rule_comparators(rep, u, cls_re, rule='R-comparator-order'):
    """returns the number of comparator classes decided"""
    import re
    classes = {}
    for f in u.functions:
        if f.name in ('operator()', 'less', 'equal') and not f.is_lambda:
            cls = f.qname.rsplit('::', 1)[0]
            if re.search(cls_re, cls):
                classes.setdefault(cls, {})[f.name] = f
    for cls, ms in sorted(classes.items()):
        fs = list(ms.values())
        empty = cls.endswith('<>')
        own = {g.qname for g in fs}
        has_tail = any(m.get('cn') in ('operator()', 'less', 'equal') and m.get('callee') not in own and m.get('k', '').endswith('CallExpr')
                       for g in fs for m in g.walk())
        for name in ('operator()', 'less', 'equal'):
            f = ms.get(name)
            if f is None:
                rep.ob(rule, '%s/%s' % (cls, name), False, fs[0].where, 'comparator has no %s member' % name)
                continue
            bad = None
            for o in '<=>':
                for t in ((-1, 0, 1) if has_tail else (0,)):
                    s = 0 if empty else ({'<': -1, '>': 1}.get(o) or t)
                    try:
                        v = Eval(fs, f, o, t).run()
                    except Bad as e:
                        bad = '%s (%s)' % (e.why, f.loc(e.node))
                        break
                    want = {'operator()': s, 'less': int(s < 0), 'equal': int(s == 0)}[name]
                    okv = (v > 0) - (v < 0) == want if name == 'operator()' else bool(v) == bool(want)
                    if not okv:
                        bad = 'for head components ordered "%s" and tail comparator result %d it yields %d; the lexicographic order requires %s' % (
                            o, t, v, {-1: 'negative', 0: 'zero', 1: 'positive'}[want] if name == 'operator()' else bool(want))
                        break
                if bad:
                    break
            rep.ob(rule, '%s/%s' % (cls, name), bad is None, f.where, bad or '')
    return len(classes)


# ---------------------------------------------------------------------------------------------------
# generated (synthesised) index comparators: the same decision on the TEXT the synthesiser emits

import re as _re
from engine import tables as _tables

_TOK = _re.compile(r'\s*(\|\||&&|==|[()?:<>\-]|\d+|[A-Za-z_]+)')


class _P:
    """tiny evaluator for the comparator expression language: ?: || && == < > unary- ( ) ints A B TAIL"""

    def __init__(self, text, env):
        self.t, self.i, self.env = [], 0, env
        pos = 0
        text = text.strip()
        while pos < len(text):
            m = _TOK.match(text, pos)
            if not m:
                raise Bad({'l': 0}, 'generated comparator text not understood near %r' % text[pos:pos + 20])
            self.t.append(m.group(1))
            pos = m.end()

    def peek(self):
        return self.t[self.i] if self.i < len(self.t) else None

    def eat(self, v=None):
        x = self.peek()
        if v is not None and x != v:
            raise Bad({'l': 0}, 'generated comparator text: expected %r, found %r' % (v, x))
        self.i += 1
        return x

    def top(self):
        v = self.cond()
        if self.peek() is not None:
            raise Bad({'l': 0}, 'generated comparator text: trailing %r' % self.peek())
        return v

    def cond(self):
        c = self.lor()
        if self.peek() == '?':
            self.eat()
            a = self.cond()
            self.eat(':')
            b = self.cond()
            return a if c else b
        return c

    def lor(self):
        v = self.land()
        while self.peek() == '||':
            self.eat()
            w = self.land()
            v = int(bool(v) or bool(w))
        return v

    def land(self):
        v = self.eq()
        while self.peek() == '&&':
            self.eat()
            w = self.eq()
            v = int(bool(v) and bool(w))
        return v

    def eq(self):
        v = self.relop()
        while self.peek() == '==':
            self.eat()
            w = self.relop()
            v = int(v == w)
        return v

    def relop(self):
        v = self.un()
        while self.peek() in ('<', '>'):
            op = self.eat()
            w = self.un()
            v = int(v < w) if op == '<' else int(v > w)
        return v

    def un(self):
        if self.peek() == '-':
            self.eat()
            return -self.un()
        if self.peek() == '(':
            self.eat()
            v = self.cond()
            self.eat(')')
            return v
        x = self.eat()
        if x is None:
            raise Bad({'l': 0}, 'generated comparator text ends early')
        if x.isdigit():
            return int(x)
        if x in self.env:
            return self.env[x]
        raise Bad({'l': 0}, 'generated comparator text: unknown operand %r' % x)


def _expand(events, take_if, names):
    out = []
    for e in events:
        if e[0] == 'lit':
            out.append(e[1])
        elif e[0] == 'dyn':
            out.append(names.get(e[2].get('did'), ' ?%s ' % e[1]))
        elif e[0] == 'hole':
            out.append(' TAIL ')
        elif e[0] == 'if':
            out.append(_expand(e[2] if take_if else e[3], take_if, names))
        elif e[0] in ('decl', 'return'):
            continue
        else:
            raise Bad(e[-1] if isinstance(e[-1], dict) else {'l': 0}, 'statement in a comparator generator not understood')
    return ''.join(out)


def rule_generated_comparator(rep, rel, rule='R4-generated-comparator-order'):
    """synthesiser/Relation.cpp DirectRelation::generateTypeStruct: the three generator lambdas of `genstruct`"""
    outer = [f for f in rel.functions if f.is_lambda and 'DirectRelation::generateTypeStruct' in f.qname
             and any(p['name'] == 'bound' for p in f.d['params'])]
    if not outer:
        rep.analysis_broken('generateTypeStruct: comparator struct generator lambda not found')
        return 0

    def hole(e):
        e2 = strip(e, casts=True)
        return 'TAIL' if e2['k'] == 'CXXOperatorCallExpr' and e2.get('op') == '()' and 'std::function' in strip(call_args(e2)[0], casts=True).get('t', '') else None
    gs = outer[0]
    method, which = None, {}
    for e in _tables.Emit(hole, ('decl',)).events(kids(gs.body)):
        if e[0] == 'lit':
            for key in ('operator()', 'less', 'equal'):
                if _re.search(r'\b%s\s*\(const t_tuple' % _re.escape(key), e[1]):
                    method = key
        elif e[0] == 'decl' and method:
            for m in walk(e[1]):
                if m['k'] == 'LambdaExpr':
                    which[m.get('lambda_did')] = method
    n = 0
    for f in rel.functions:
        if not f.is_lambda or f.d['did'] not in which:
            continue
        name = which[f.d['did']]
        n += 1
        inst = 'DirectRelation::generateTypeStruct/t_comparator::%s' % name
        par = f.d['params'][0]['name'] if f.d['params'] else None
        decl = {m['name']: m for m in f.walk() if m['k'] == 'VarDecl' and m.get('name')}
        ev = _tables.Emit(hole, ('decl',)).events(kids(f.body))
        dyn = [e for e in walk_events(ev) if e[0] == 'dyn']
        # which streamed variable is the cast, which the column
        cast_v = col_v = None
        bad = None
        for e in dyn:
            vd = decl.get(e[2].get('name')) if e[2]['k'] == 'DeclRefExpr' else None
            if vd is None or not kids(vd):
                bad = 'streams `%s`, which is not a local of the generator' % e[1]
                break
            init = strip(kids(vd)[0], casts=True)
            base = call_args(init)[0] if init['k'] == 'CXXOperatorCallExpr' and init.get('op') == '[]' else None
            bname = strip(base, casts=True).get('name') if base is not None else None
            idx = strip(call_args(init)[1], casts=True) if base is not None else None
            if bname == 'typecasts':
                cast_v = (vd, idx)
            elif bname == 'ind':
                col_v = (vd, idx)
            else:
                bad = 'streams `%s` = %s (neither a cast nor an index column)' % (e[1], expr_key(init)[:40])
                break
        if bad is None and (cast_v is None or col_v is None):
            bad = 'cast or column variable not found'
        if bad is None and not (cast_v[1]['k'] == 'DeclRefExpr' and cast_v[1].get('did') == col_v[0]['did']):
            bad = 'column %s is compared through typecasts[%s]: the cast of a DIFFERENT attribute (orders of mixed-type indexes diverge from the interpreter)' % (
                col_v[0]['name'], expr_key(cast_v[1]))
        if bad is None and not (col_v[1]['k'] == 'DeclRefExpr' and col_v[1].get('name') == par):
            bad = 'column is not ind[%s] of the position being generated' % par
        if bad is None:
            names = {cast_v[0]['did']: ' CAST ', col_v[0]['did']: ' COL '}
            try:
                for take in (True, False):
                    txt = _expand(ev, take, names)
                    txt = _re.sub(r'CAST\s*\(\s*a\s*\[\s*COL\s*\]\s*\)', ' A ', txt)
                    txt = _re.sub(r'CAST\s*\(\s*b\s*\[\s*COL\s*\]\s*\)', ' B ', txt)
                    for o in '<=>':
                        for t in ((-1, 0, 1) if take else (0,)):
                            s = {'<': -1, '>': 1}.get(o) or t
                            tail = {'operator()': t, 'less': int(t < 0), 'equal': int(t == 0)}[name]
                            v = _P(txt, {'A': {'<': 0, '=': 1, '>': 2}[o], 'B': 1, 'TAIL': tail}).top()
                            want = {'operator()': s, 'less': int(s < 0), 'equal': int(s == 0)}[name]
                            good = ((v > 0) - (v < 0) == want) if name == 'operator()' else bool(v) == bool(want)
                            if not good:
                                raise Bad({'l': f.line}, 'the generated %s yields %d for column ordered "%s" with tail result %d (%s more columns); required %d' % (
                                    name, v, o, t, 'with' if take else 'no', want))
            except Bad as e:
                bad = e.why
        rep.ob(rule, inst, bad is None, f.where, bad or '')
    return n


def walk_events(ev):
    for e in ev:
        yield e
        if e[0] == 'if':
            for x in walk_events(e[2]):
                yield x
            for x in walk_events(e[3]):
                yield x

"""Shared rule: element comparators are decided over the FINITE set of orderings.

A comparator touches its two arguments only through comparisons of one and the same component, so its
result is a function of (ordering of the head component in {<,=,>}) x (result of the tail comparator in
{-1,0,1}).  We evaluate operator(), less and equal symbolically for all nine combinations; anything else
done with an element value (arithmetic, mixing components, ...) is reported as such.  This decides, for
every possible element value (not sampled ones): operator() is a sign function of the lexicographic
order, less <=> operator() < 0, equal <=> operator() == 0, ascending direction."""
import os
from engine import facts
from engine.facts import kids, strip, is_call, call_args

TU = os.path.join(facts.VERIF, 'tu', 'cmp_instances.cpp')
JOB = (TU, r'(BTreeUtil|UnionFind|interpreter/Util)\.h$', r'.*')
CMP = {'<', '>', '<=', '>=', '==', '!='}


class Bad(Exception):
    def __init__(self, node, why):
        self.node, self.why = node, why


def rel(op, s):
    return {'<': s < 0, '>': s > 0, '<=': s <= 0, '>=': s >= 0, '==': s == 0, '!=': s != 0}[op]


class Eval:
    def __init__(self, cls_funcs, func, o, t, swapped=False, depth=0):
        self.fs, self.f, self.o, self.t, self.sw, self.depth = cls_funcs, func, o, t, swapped, depth
        ps = [p['name'] for p in func.d['params']]
        self.pa, self.pb = (ps + ['', ''])[:2]

    def head_sign(self):
        s = {'<': -1, '=': 0, '>': 1}[self.o]
        return -s if self.sw else s

    def tail(self):
        return -self.t if self.sw else self.t

    def proj(self, n):
        """(param, projection) if n is an element (component) expression, else None"""
        n = strip(n, casts=True)
        k = n.get('k')
        if k == 'DeclRefExpr' and n.get('dk') == 'Parm' and n.get('name') in (self.pa, self.pb) and n.get('name'):
            return (n['name'], '')
        if k == 'MemberExpr' and kids(n):
            b = self.proj(kids(n)[0])
            return (b[0], b[1] + '.' + n.get('member', '?')) if b else None
        if k == 'CXXOperatorCallExpr' and n.get('op') == '[]':
            a = call_args(n)
            b = self.proj(a[0]) if a else None
            if b:
                i = strip(a[1], casts=True)
                return (b[0], b[1] + '[%s]' % (i.get('cv') if 'cv' in i else facts.expr_key(i)))
        if k == 'ArraySubscriptExpr':
            b = self.proj(kids(n)[0])
            if b:
                i = strip(kids(n)[1], casts=True)
                return (b[0], b[1] + '[%s]' % (i.get('cv') if 'cv' in i else facts.expr_key(i)))
        return None

    def expr(self, n):
        n = strip(n, casts=True)
        k = n.get('k')
        if k in ('ExprWithCleanups', 'ParenExpr', 'MaterializeTemporaryExpr', 'CXXBindTemporaryExpr', 'ConstantExpr') and kids(n):
            return self.expr(kids(n)[0])
        op = n.get('op')
        if (k == 'BinaryOperator' or k == 'CXXOperatorCallExpr') and op in CMP:
            l, r = (kids(n) if k == 'BinaryOperator' else call_args(n))[:2]
            pl, pr = self.proj(l), self.proj(r)
            if pl and pr:
                if pl[1] != pr[1]:
                    raise Bad(n, 'compares different components (%s against %s)' % (pl[1] or 'whole', pr[1] or 'whole'))
                if pl[0] == pr[0]:
                    raise Bad(n, 'compares an argument with itself')
                s = self.head_sign() if pl[0] == self.pa else -self.head_sign()
                return int(rel(op, s))
            if pl or pr:
                raise Bad(n, 'compares an element component with a non-element value')
            return int(rel(op, self.expr(l) - self.expr(r)))
        if 'cv' in n and not self.proj(n):
            return int(n['cv'])
        if k == 'IntegerLiteral':
            return int(n['val'])
        if k == 'CXXBoolLiteralExpr':
            return int(bool(n.get('val')))
        if self.proj(n):
            raise Bad(n, 'an element value is used outside a comparison (orders must not depend on arithmetic over values: it wraps)')
        if k == 'BinaryOperator':
            l, r = kids(n)
            if op == '&&':
                return int(bool(self.expr(l)) and bool(self.expr(r)))
            if op == '||':
                return int(bool(self.expr(l)) or bool(self.expr(r)))
            a, b = self.expr(l), self.expr(r)
            if op == '-':
                return a - b
            if op == '+':
                return a + b
            if op == '*':
                return a * b
            raise Bad(n, 'operator %s not understood' % op)
        if k == 'UnaryOperator':
            v = self.expr(kids(n)[0])
            if op == '-':
                return -v
            if op == '!':
                return int(not v)
            raise Bad(n, 'operator %s not understood' % op)
        if k == 'ConditionalOperator':
            c, a, b = kids(n)
            return self.expr(a) if self.expr(c) else self.expr(b)
        if k in ('CXXMemberCallExpr', 'CXXOperatorCallExpr', 'CallExpr') and n.get('cn') in ('operator()', 'less', 'equal'):
            args = call_args(n)
            if k == 'CXXOperatorCallExpr':
                args = args[1:]
            ps = [self.proj(a) for a in args[:2]]
            if len(ps) != 2 or not all(ps) or ps[0][1] or ps[1][1] or ps[0][0] == ps[1][0]:
                raise Bad(n, 'nested comparator is not applied to the two whole arguments')
            flip = ps[0][0] != self.pa
            same = [g for g in self.fs if g.qname == n.get('callee')]
            if same:
                if self.depth > 4:
                    raise Bad(n, 'recursion too deep')
                return Eval(self.fs, same[0], self.o, self.t, self.sw != flip, self.depth + 1).run()
            t = -self.tail() if flip else self.tail()
            return {'operator()': t, 'less': int(t < 0), 'equal': int(t == 0)}[n['cn']]
        raise Bad(n, 'construct %s not understood by the order evaluator' % k)

    def stmt(self, n):
        """returns a value if the statement returned, else None"""
        k = n.get('k')
        if k == 'CompoundStmt':
            for c in kids(n):
                v = self.stmt(c)
                if v is not None:
                    return v
            return None
        if k == 'ReturnStmt':
            return self.expr(kids(n)[0])
        if k == 'IfStmt':
            ks = kids(n)
            if self.expr(ks[0]):
                return self.stmt(ks[1])
            return self.stmt(ks[2]) if len(ks) > 2 else None
        if k == 'NullStmt':
            return None
        raise Bad(n, 'statement %s not understood by the order evaluator' % k)

    def run(self):
        v = self.stmt(self.f.body)
        if v is None:
            raise Bad(self.f.body, 'falls off the end without a result')
        return v


def rule_comparators(rep, u, cls_re, rule='R-comparator-order'):
    """returns the number of comparator classes decided"""
    import re
    classes = {}
    for f in u.functions:
        if f.name in ('operator()', 'less', 'equal') and not f.is_lambda:
            cls = f.qname.rsplit('::', 1)[0]
            if re.search(cls_re, cls):
                classes.setdefault(cls, {})[f.name] = f
    for cls, ms in sorted(classes.items()):
        fs = list(ms.values())
        empty = cls.endswith('<>')
        own = {g.qname for g in fs}
        has_tail = any(m.get('cn') in ('operator()', 'less', 'equal') and m.get('callee') not in own and m.get('k', '').endswith('CallExpr')
                       for g in fs for m in g.walk())
        for name in ('operator()', 'less', 'equal'):
            f = ms.get(name)
            if f is None:
                rep.ob(rule, '%s/%s' % (cls, name), False, fs[0].where, 'comparator has no %s member' % name)
                continue
            bad = None
            for o in '<=>':
                for t in ((-1, 0, 1) if has_tail else (0,)):
                    s = 0 if empty else ({'<': -1, '>': 1}.get(o) or t)
                    try:
                        v = Eval(fs, f, o, t).run()
                    except Bad as e:
                        bad = '%s (%s)' % (e.why, f.loc(e.node))
                        break
                    want = {'operator()': s, 'less': int(s < 0), 'equal': int(s == 0)}[name]
                    okv = (v > 0) - (v < 0) == want if name == 'operator()' else bool(v) == bool(want)
                    if not okv:
                        bad = 'for head components ordered "%s" and tail comparator result %d it yields %d; the lexicographic order requires %s' % (
                            o, t, v, {-1: 'negative', 0: 'zero', 1: 'positive'}[want] if name == 'operator()' else bool(want))
                        break
                if bad:
                    break
            rep.ob(rule, '%s/%s' % (cls, name), bad is None, f.where, bad or '')
    return len(classes)

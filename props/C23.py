"""C23 -- a size limit truncates recursion soundly: the limit exit tests the FULL relation against
the declared limit with >= / >, after the emptiness exit and before the table update."""
from engine import facts, mutate
from engine.report import Report
from props import seminaive as S

MUTANTS = [
    ('limit-tests-new', S.UT, '                    mk<ram::RelationSize>(getConcreteRelationName(rel->getQualifiedName())),',
     '                    mk<ram::RelationSize>(getNewRelationName(rel->getQualifiedName())),', 'R1'),
    ('limit-le', S.UT, 'Own<ram::Condition> limit = mk<ram::Constraint>(BinaryConstraintOp::GE,', 'Own<ram::Condition> limit = mk<ram::Constraint>(BinaryConstraintOp::LE,', 'R1'),
    ('exit-after-update', S.UT, '''    auto fixpointLoop = mk<ram::Loop>(mk<ram::Sequence>(std::move(loopBody), std::move(joinSizeSequence),
            std::move(exitSequence), std::move(updateSequence), std::move(increment_counter)));''',
     '''    auto fixpointLoop = mk<ram::Loop>(mk<ram::Sequence>(std::move(loopBody), std::move(joinSizeSequence),
            std::move(updateSequence), std::move(exitSequence), std::move(increment_counter)));''', 'R3'),
]


def analyse(rep):
    sh = S.Shapes(rep)
    S.rule_exit(rep, sh, size_limit=True)
    S.rule_loop_order(rep, sh)


def run(tier='quick'):
    rep = Report('C23', tier)
    rep.explanation = ('static role typing of generateStratumExitSequence / generateRecursiveStratum: for every relation with a size limit the loop '
                       'has Exit(Constraint(GE|GT, RelationSize(Main), SignedConstant(getSizeLimit(rel)))), emitted only for such relations, after the '
                       'emptiness exit, and the exit sequence sits after the rules and before the table update of the loop.')
    rep.assumptions = ['subset-ness on data follows from C09 + monotonicity and is NOT decided here']
    try:
        analyse(rep)
        ms = [mutate.Mutant(n, f, o, w, e) for (n, f, o, w, e) in MUTANTS]
        mutate.run_mutants(rep, 'C23', ms if tier == 'thorough' else ms[:2], analyse)
    except facts.Broken as e:
        rep.analysis_broken(str(e))
    return rep.finish()

"""C23 -- a size limit truncates recursion soundly: the limit exit tests the FULL relation against
the declared limit with >= / >, after the emptiness exit and before the table update."""
from engine import facts, mutate
from engine.report import Report
from props import seminaive as S

MUTANTS = [
    ('limit-parsed-by-stoi', 'src/ast/analysis/IOType.cpp', 'static_cast<std::size_t>(RamSignedFromString(directive.getParameter("n"), nullptr, 0))', 'stoi(directive.getParameter("n"))', 'R2'),
    ('limit-parsed-in-base-10-only', 'src/ast/analysis/IOType.cpp', 'RamSignedFromString(directive.getParameter("n"), nullptr, 0)', 'RamSignedFromString(directive.getParameter("n"))', 'R2'),
    ('limit-tests-new', S.UT, '                    mk<ram::RelationSize>(getConcreteRelationName(rel->getQualifiedName())),',
     '                    mk<ram::RelationSize>(getNewRelationName(rel->getQualifiedName())),', 'R1'),
    ('limit-le', S.UT, 'Own<ram::Condition> limit = mk<ram::Constraint>(BinaryConstraintOp::GE,', 'Own<ram::Condition> limit = mk<ram::Constraint>(BinaryConstraintOp::LE,', 'R1'),
    ('exit-after-update', S.UT, '''    auto fixpointLoop = mk<ram::Loop>(mk<ram::Sequence>(std::move(loopBody), std::move(joinSizeSequence),
            std::move(exitSequence), std::move(updateSequence), std::move(increment_counter)));''',
     '''    auto fixpointLoop = mk<ram::Loop>(mk<ram::Sequence>(std::move(loopBody), std::move(joinSizeSequence),
            std::move(updateSequence), std::move(exitSequence), std::move(increment_counter)));''', 'R3'),
]


def rule_limit_parsing(rep):
    """R2: the limit is a NUMBER token (decimal, 0x.., 0b..).  IOTypeAnalysis must read it with the parser used for number constants
    (RamSignedFromString / RamUnsignedFromString): std::stoi stops at the `x` of 0x2F and yields 0 (recursion cut after one round), and a
    base-guessing std::stoul reads 0100 as 64."""
    from engine import tables
    from engine.facts import walk, is_call, kids, strip, expr_key, call_args
    io, = facts.extract([('src/ast/analysis/IOType.cpp', r'analysis/IOType\.(cpp|h)$', r'IOTypeAnalysis::')])
    rep.add_units([io])
    run = [f for f in io.functions if f.is_lambda and 'IOTypeAnalysis::run' in f.qname]
    if not run:
        rep.analysis_broken('IOTypeAnalysis::run visitor not found')
        return
    f = run[0]
    asg = [m for m in f.walk() if m['k'] in ('BinaryOperator', 'CXXOperatorCallExpr') and m.get('op') == '=' and 'limitSize' in expr_key((kids(m) if m['k'] == 'BinaryOperator' else call_args(m))[0])]
    if len(asg) != 1:
        rep.analysis_broken('IOTypeAnalysis::run: assignment of the size limit not found (%d)' % len(asg))
        return
    rhs = (kids(asg[0]) if asg[0]['k'] == 'BinaryOperator' else call_args(asg[0]))[1]
    calls = [m.get('cn') for m in walk(rhs) if is_call(m)]
    parsers = [m for m in walk(rhs) if is_call(m) and m.get('cn') in ('RamSignedFromString', 'RamUnsignedFromString')]
    # base 0 = "detect the 0x / 0b prefix, else decimal": the mode in which number constants are read (a leading 0 is NOT octal there)
    base0 = any(len(call_args(m)) >= 3 and str(strip(call_args(m)[2], casts=True).get('cv', strip(call_args(m)[2], casts=True).get('val'))) == '0' for m in parsers)
    ok = bool(parsers) and base0 and not any(c in ('stoi', 'stol', 'stoul', 'stoull', 'atoi', 'strtol') for c in calls)
    rep.ob('R2-limit-parsed-like-number-constants', 'IOTypeAnalysis::run/limitsize', ok, f.loc(asg[0]),
           '' if ok else 'the limit is parsed by %s: it does not read the NUMBER token the way number constants are read (0x2F -> 0 with stoi; 0100 -> 64 with base 0)' % calls)


def analyse(rep):
    sh = S.Shapes(rep)
    S.rule_exit(rep, sh, size_limit=True)
    S.rule_loop_order(rep, sh)
    rule_limit_parsing(rep)


def run(tier='quick'):
    rep = Report('C23', tier)
    rep.explanation = ('static role typing of generateStratumExitSequence / generateRecursiveStratum: for every relation with a size limit the loop '
                       'has Exit(Constraint(GE|GT, RelationSize(Main), SignedConstant(getSizeLimit(rel)))), emitted only for such relations, after the '
                       'emptiness exit, and the exit sequence sits after the rules and before the table update of the loop.')
    rep.assumptions = ['subset-ness on data follows from C09 + monotonicity and is NOT decided here']
    try:
        analyse(rep)
        ms = [mutate.Mutant(n, f, o, w, e) for (n, f, o, w, e) in MUTANTS]
        mutate.run_mutants(rep, 'C23', ms if tier == 'thorough' else ms[:2], analyse)
    except facts.Broken as e:
        rep.analysis_broken(str(e))
    return rep.finish()

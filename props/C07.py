"""C07 -- query plans preserve results.  Invariance of results under every atom order is a semantic property; what is
visible in the code's shape is that a plan is only ever APPLIED AS A PERMUTATION of the clause's atoms:

R1  PLAN VALIDATION.  ExecutionPlanChecker::transform reports an ERROR (the run then stops, C13) for an order whose length differs
    from the number of body atoms, for an order that does not contain every index 1..n, and for a plan naming a version the clause
    does not have; it is a member of the transformation pipeline (so it runs before translation).
R2  PLAN APPLICATION.  ClauseTranslator maps the user's 1-based order to 0-based positions (i -> i - 1) before re-ordering, and
    ast::reorderAtoms builds the result as result[i] = atoms[newOrder[i]] over all atoms / replaces exactly the atom literals and
    keeps every other literal in place.

Profile-guided auto-scheduling (Selinger-style search in SipsMetric) is NOT decided: that it returns a permutation is a property
of a dynamic-programming loop, and that any permutation preserves results is the semantic half."""
from engine import facts, mutate, roleflow
from engine.facts import kids, walk, strip, is_call, call_args, call_obj, expr_key
from engine.report import Report
from props.parallel_guard import cond_blocks, reach_without, guarded_by
from engine import pathflow

EPC = 'src/ast/transform/ExecutionPlanChecker.cpp'
CT = 'src/ast2ram/seminaive/ClauseTranslator.cpp'
UT = 'src/ast/utility/Utils.cpp'


def is_error_report(n):
    if n['k'] != 'CXXMemberCallExpr':
        return False
    if n.get('cn') == 'addError':
        return True
    if n.get('cn') == 'addDiagnostic':
        return any(m['k'] == 'DeclRefExpr' and m.get('dk') == 'EnumConstant' and m.get('name') == 'ERROR' for m in walk(n))
    return False


def rule_validation(rep, u):
    fs = [f for f in u.functions if f.name == 'transform' and not f.is_lambda and f.cfg]
    if not fs:
        rep.analysis_broken('ExecutionPlanChecker::transform not found')
        return
    f = fs[0]
    errs = [m for m in f.walk() if is_error_report(m)]
    decl = {m['name']: m for m in f.walk() if m['k'] == 'VarDecl' and m.get('name')}

    def is_atom_count(e):
        e = strip(e, casts=True)
        if e['k'] == 'DeclRefExpr' and e.get('name') in decl and kids(decl[e['name']]):
            return is_atom_count(kids(decl[e['name']])[0])
        return any(is_call(x, 'size') for x in walk(e)) and any(is_call(x, 'getBodyLiterals') and 'Atom' in ' '.join(x.get('ta') or []) for x in walk(e))

    def is_order_size(e):
        e = strip(e, casts=True)
        return is_call(e, 'size') and 'order' in expr_key(call_obj(e)).lower()

    # (a) length check
    def size_mismatch(core):
        if core['k'] != 'BinaryOperator' or core.get('op') not in ('!=', '=='):
            return False
        a, b = kids(core)
        return (is_order_size(a) and is_atom_count(b)) or (is_order_size(b) and is_atom_count(a))
    ok_a = False
    for e in errs:
        tb = pathflow.block_of(f, e['id'])
        for b, c, core, neg in cond_blocks(f):
            if size_mismatch(core):
                taken_true = (core['op'] == '!=') != neg      # CFG true edge == "sizes differ"?
                dst = b['s'][0] if taken_true else b['s'][1]
                if isinstance(dst, int) and not reach_without(f, {(b['b'], dst)}, [tb]):
                    ok_a = True
    rep.ob('R1-plan-length-checked', 'ExecutionPlanChecker::transform', ok_a, f.where,
           '' if ok_a else 'no error is reported when an order\'s length differs from the number of body atoms')
    # (b) completeness: a flag set false when some i in 1..size is not contained, and an error guarded by !flag
    flags = []
    for lp in [m for m in f.walk() if m['k'] == 'ForStmt']:
        roles = dict(zip(lp.get('roles', []), lp['c']))
        init, cond, body = roles.get('init'), roles.get('cond'), roles.get('body')
        if init is None or cond is None or body is None:
            continue
        starts1 = any(m['k'] == 'VarDecl' and kids(m) and str(strip(kids(m)[0], casts=True).get('cv', strip(kids(m)[0], casts=True).get('val'))) == '1' for m in walk(init))
        c = strip(cond, casts=True)
        upto = c['k'] == 'BinaryOperator' and c.get('op') == '<=' and is_order_size(kids(c)[1])
        for ifs in [m for m in walk(body) if m['k'] == 'IfStmt']:
            cc = strip(kids(ifs)[0], casts=True)
            if cc['k'] == 'UnaryOperator' and cc.get('op') == '!' and is_call(strip(kids(cc)[0], casts=True), 'contains'):
                for a in walk(kids(ifs)[1]):
                    if a['k'] == 'BinaryOperator' and a.get('op') == '=' and strip(kids(a)[1], casts=True)['k'] == 'CXXBoolLiteralExpr' and not strip(kids(a)[1], casts=True).get('val'):
                        flags.append((strip(kids(a)[0], casts=True).get('name'), starts1 and upto))
    ok_b, why_b = False, 'no completeness scan (every index 1..n contained) found'
    for name, full in flags:
        if not full:
            why_b = 'the completeness scan does not cover 1..order.size()'
            continue
        for e in errs:
            tb = pathflow.block_of(f, e['id'])
            for b, c, core, neg in cond_blocks(f):
                if core['k'] == 'DeclRefExpr' and core.get('name') == name:
                    dst = b['s'][0] if neg else b['s'][1]      # edge on which the flag is FALSE
                    if isinstance(dst, int) and not reach_without(f, {(b['b'], dst)}, [tb]):
                        ok_b = True
        if not ok_b:
            why_b = 'an incomplete order (flag `%s` false) does not lead to an error report' % name
    rep.ob('R1-plan-completeness-checked', 'ExecutionPlanChecker::transform', ok_b, f.where, '' if ok_b else why_b)
    # (c) version bound
    ok_c = False
    for e in errs:
        tb = pathflow.block_of(f, e['id'])
        for b, c, core, neg in cond_blocks(f):
            if core['k'] == 'BinaryOperator' and core.get('op') in ('>=', '>', '<=', '<') and any(x.get('member') == 'first' for x in walk(core)) \
                    and any(x.get('name') == 'version' for x in walk(core)):
                for dst in b['s'][:2]:
                    if isinstance(dst, int) and not reach_without(f, {(b['b'], dst)}, [tb]):
                        ok_c = True
    rep.ob('R1-plan-version-checked', 'ExecutionPlanChecker::transform', ok_c, f.where, '' if ok_c else 'a plan for a version the clause does not have is not reported as an error')
    rep.floor('R1-error-reports', len(errs), 3)


def rule_in_pipeline(rep, md):
    fs = [f for f in md.functions if f.name == 'astTransformationPipeline']
    if not fs:
        rep.analysis_broken('MainDriver::astTransformationPipeline not found')
        return
    ev, paths = roleflow.evaluate(fs[0])
    if not paths or paths[0].ret is None:
        rep.analysis_broken('astTransformationPipeline: could not evaluate the pipeline expression')
        return
    t = paths[0].ret
    direct = [m for m in t[2] if m[0] == 'mk' and m[1] == 'ExecutionPlanChecker'] if t[0] == 'mk' else []
    rep.ob('R1-plan-checker-in-pipeline', 'astTransformationPipeline/ExecutionPlanChecker', len(direct) == 1, fs[0].where,
           '' if len(direct) == 1 else 'ExecutionPlanChecker is not a direct (unconditional) member of the main pipeline')


def rule_application(rep, ct, ut):
    # 1-based -> 0-based
    fs = [f for f in ct.functions if not f.is_lambda and any(is_call(m, 'getExecutionPlan') for m in f.walk()) and any(is_call(m, 'reorderAtoms') for m in f.walk())]
    if not fs:
        rep.analysis_broken('ClauseTranslator: the function applying an execution plan was not found')
        return
    f = fs[0]
    lam = [g for g in ct.functions if g.is_lambda and f.qname.split('(')[0] in g.qname and len(g.d['params']) == 1]
    ok = False
    for g in lam:
        p = g.d['params'][0]['name']
        for r in g.walk():
            if r['k'] == 'ReturnStmt' and kids(r):
                e = strip(kids(r)[0], casts=True)
                if e['k'] == 'BinaryOperator' and e.get('op') == '-' and strip(kids(e)[0], casts=True).get('name') == p \
                        and str(strip(kids(e)[1], casts=True).get('cv', strip(kids(e)[1], casts=True).get('val'))) == '1':
                    ok = True
    tr = [m for m in f.walk() if is_call(m, 'transform')]
    rep.ob('R2-plan-order-made-zero-based', f.name, ok and bool(tr), f.where,
           '' if ok and tr else 'the user\'s 1-based order is not converted with i -> i - 1 before reorderAtoms')
    # reorderAtoms(vector) and reorderAtoms(clause)
    rs = [g for g in ut.functions if g.name == 'reorderAtoms' and not g.is_lambda]
    if len(rs) < 2:
        rep.analysis_broken('ast::reorderAtoms overloads not found (%d)' % len(rs))
        return
    for g in rs:
        kind = 'clause' if 'Clause' in g.d['params'][0]['t'] else 'atoms'
        neworder = g.d['params'][1]['name']
        good = False
        for lp in [m for m in g.walk() if m['k'] == 'ForStmt']:
            roles = dict(zip(lp.get('roles', []), lp['c']))
            body, cond = roles.get('body'), roles.get('cond')
            if body is None or cond is None:
                continue
            c = strip(cond, casts=True)
            full = c['k'] == 'BinaryOperator' and c.get('op') == '<' and is_call(strip(kids(c)[1], casts=True), 'size')
            # somewhere in the body: X[ newOrder[ idx ] ] is read
            reads = [m for m in walk(body) if m['k'] == 'CXXOperatorCallExpr' and m.get('op') == '[]' and
                     any(x['k'] == 'CXXOperatorCallExpr' and x.get('op') == '[]' and strip(call_args(x)[0], casts=True).get('name') == neworder for x in walk(call_args(m)[1]))]
            if full and reads:
                if kind == 'atoms':
                    # result[i] = atoms[newOrder[i]]
                    good = any(a['k'] in ('BinaryOperator', 'CXXOperatorCallExpr') and a.get('op') == '=' and any(x is reads[0] for x in walk(a)) for a in walk(body))
                else:
                    # only atom literals are replaced (guarded by isA<Atom>), every literal is added
                    guarded = any(m['k'] == 'IfStmt' and any(is_call(x, 'isA') and 'Atom' in ' '.join(x.get('ta') or []) for x in walk(kids(m)[0])) and
                                  any(x is reads[0] for x in walk(kids(m)[1])) for m in walk(body))
                    adds = [m for m in walk(body) if is_call(m, 'addToBody')]
                    uncond = bool(adds) and not any(a['k'] == 'IfStmt' and any(x is adds[0] for x in walk(a)) for a in walk(body))
                    good = guarded and uncond
        rep.ob('R2-reorder-is-a-permutation-of-atoms', 'reorderAtoms(%s)' % kind, good, g.where,
               '' if good else 'reorderAtoms(%s) no longer builds its result from atoms[newOrder[i]] over all positions%s' % (
                   kind, '' if kind == 'atoms' else ' while keeping every non-atom literal'))


def analyse(rep):
    u, md, ct, ut = facts.extract([(EPC, r'transform/ExecutionPlanChecker\.cpp$', r'ExecutionPlanChecker::transform'),
                                   ('src/MainDriver.cpp', r'src/MainDriver\.cpp$', r'.*'),
                                   (CT, r'seminaive/ClauseTranslator\.cpp$', r'ClauseTranslator::'),
                                   (UT, r'ast/utility/Utils\.cpp$', r'reorderAtoms')])
    rep.add_units([u, md, ct, ut])
    rule_validation(rep, u)
    rule_in_pipeline(rep, md)
    rule_application(rep, ct, ut)


MUTANTS = [
    ('incomplete-orders-accepted', EPC, '''                    } else if (!isComplete) {
                        report.addError(
                                "Invalid execution order in plan (incomplete)", cur.second->getSrcLoc());
                    }''', '''                    }''', 'R1'),
    ('order-not-shifted', CT, '[](std::size_t i) -> std::size_t { return i - 1; });', '[](std::size_t i) -> std::size_t { return i; });', 'R2'),
    ('completeness-scan-starts-at-2', EPC, 'for (unsigned i = 1; i <= order.size(); i++) {', 'for (unsigned i = 2; i <= order.size(); i++) {', 'R1'),
    ('shorter-orders-accepted', EPC, 'if (order.size() != numAtoms) {', 'if (order.size() > numAtoms) {', 'R1'),
    ('reorder-drops-constraints', UT, '''            literalToAdd = bodyLiterals[atomPositions[newOrder[currentAtom++]]];
        }
        newClause->addToBody(clone(literalToAdd));''', '''            literalToAdd = bodyLiterals[atomPositions[newOrder[currentAtom++]]];
            newClause->addToBody(clone(literalToAdd));
        }''', 'R2'),
]


def run(tier='quick'):
    rep = Report('C07', tier)
    rep.explanation = ('static structural clauses of plan handling: ExecutionPlanChecker reports errors for wrong-length, incomplete and wrong-version '
                       'orders (CFG dominance of the error reports by the corresponding tests) and is a direct member of the pipeline; ClauseTranslator '
                       'shifts the 1-based order to 0-based; reorderAtoms builds atoms[newOrder[i]] over all positions and keeps non-atom literals.')
    rep.assumptions = ['that every permutation yields the same results (the semantic half) and the profile-guided auto-scheduler are NOT decided']
    try:
        analyse(rep)
        ms = [mutate.Mutant(n, f, o, w, e) for (n, f, o, w, e) in MUTANTS]
        mutate.run_mutants(rep, 'C07', ms if tier == 'thorough' else ms[:2], analyse)
    except facts.Broken as e:
        rep.analysis_broken(str(e))
    return rep.finish()

"""C08 -- relation representation is transparent; eqrel holds the closure.  Structural clauses:
R1 typed padding <-> typed comparator in compiled indexes (shared with C02-R4); R2 the interpreter's
bound encoding pads unbound columns with the signed domain extremes (its comparator is signed);
R3 SENTINEL-COLLISION: no lookup decides 'column unbound' by comparing a key with a domain extreme;
R4 the eqrel cache/lock clauses (C28 R1/R2)."""
import os, re
from engine import facts, mutate
from engine.facts import kids, walk, strip, is_call, call_args, call_obj, expr_key
from engine.report import Report
from props import C02, C28, comparators
from props.parallel_guard import guarded_by

LIMIT = re.compile(r'^(MIN|MAX)_RAM_(SIGNED|UNSIGNED|FLOAT)$')
TU = os.path.join(facts.VERIF, 'tu', 'ds_instances.cpp')


def rule_interpreter_bounds(rep, gen):
    n = 0
    for f in gen.functions:
        if f.is_lambda or f.name not in ('getIndexSuperInstInfo', 'getExistenceSuperInstInfo'):
            continue
        for m in f.walk():
            if m['k'] != 'BinaryOperator' or m['op'] != '=':
                continue
            r = strip(kids(m)[1], casts=True)
            if not (r['k'] == 'DeclRefExpr' and LIMIT.match(r.get('name', ''))):
                continue
            n += 1
            lim = LIMIT.match(r['name'])
            lk = expr_key(kids(m)[0])
            side = 'first' if '.first[' in lk else ('second' if '.second[' in lk else '?')
            want = ('MIN', 'SIGNED') if side == 'first' else ('MAX', 'SIGNED')
            ok = (lim.group(1), lim.group(2)) == want
            okg, _ = guarded_by(f, m, lambda core: is_call(core, 'isUndefValue'))
            rep.ob('R2-interpreter-unbound-padding', '%s/%s' % (f.name, side), ok and okg, f.loc(m),
                   '' if (ok and okg) else 'an unbound %s bound is padded with %s (guarded by isUndefValue: %s); the interpreter index comparator is signed: '
                   'lower bounds need MIN_RAM_SIGNED, upper bounds MAX_RAM_SIGNED' % ('lower' if side == 'first' else 'upper', r['name'], okg))
    rep.floor('R2-padding-sites', n, 4)


LOOKUPS = ('lower_bound', 'upper_bound', 'find', 'contains', 'getBoundaries', 'equal_range', 'range', 'lowerUpperRange', 'anteriorIt', 'antpostit', 'closure', 'partition')


def rule_sentinel(rep, ds, extra_units=()):
    """R3: boundness of a key column must come from the search signature, never from comparing the key with a domain extreme"""
    n = 0
    seen = set()
    for u in (ds,) + tuple(extra_units):
        for f in u.functions:
            if f.is_lambda or f.name not in LOOKUPS:
                continue
            n += 1
            params = {p['name'] for p in f.d['params']}
            for m in f.walk():
                if m['k'] == 'BinaryOperator' and m['op'] in ('==', '!='):
                    a, b = [strip(x, casts=True) for x in kids(m)]
                    for x, y in ((a, b), (b, a)):
                        if y['k'] == 'DeclRefExpr' and LIMIT.match(y.get('name', '')):
                            kx = expr_key(x)
                            base = kx.split('[')[0]
                            if base in params and '[' in kx:
                                inst = '%s::%s/%s' % (f.d.get('cls'), f.name, kx)
                                if inst in seen:
                                    continue
                                seen.add(inst)
                                rep.ob('R3-sentinel-collision', inst, False, f.loc(m),
                                       '`%s %s %s` decides whether the column is bound: a query for the legal value %s is treated as unbound '
                                       '(e.g. E(%s, y) on an eqrel returns every pair)' % (kx, m['op'], y['name'], y['name'], y['name']))
            inst0 = '%s::%s/no-sentinel' % (f.d.get('cls'), f.name)
            if inst0 not in seen and not any(s.startswith('%s::%s/' % (f.d.get('cls'), f.name)) for s in seen):
                seen.add(inst0)
                rep.ob('R3-sentinel-collision', inst0, True, f.where, '', nontrivial=False)
    rep.floor('R3-lookup-entry-points', n, 10)


MUTANTS = [
    ('interpreter-upper-padding-min', 'src/interpreter/Generator.cpp', '            indexOperation.second[i] = MAX_RAM_SIGNED;', '            indexOperation.second[i] = MIN_RAM_SIGNED;', 'R2'),
    ('interpreter-padding-unsigned', 'src/interpreter/Generator.cpp', '            superOp.second[i] = MAX_RAM_SIGNED;', '            superOp.second[i] = ramBitCast(MAX_RAM_UNSIGNED);', 'R'),
    ('compiled-float-padding-swapped', 'src/synthesiser/Synthesiser.cpp', '''                        supremum = "ramBitCast<RamDomain>(MIN_RAM_FLOAT)";
                        infimum = "ramBitCast<RamDomain>(MAX_RAM_FLOAT)";''', '''                        supremum = "ramBitCast<RamDomain>(MAX_RAM_FLOAT)";
                        infimum = "ramBitCast<RamDomain>(MIN_RAM_FLOAT)";''', 'R4-unbound'),
]


def analyse(rep):
    syn, rel, gen, ds = facts.extract([
        ('src/synthesiser/Synthesiser.cpp', r'synthesiser/Synthesiser\.cpp$', r'CodeEmitter::getPaddedRangeBounds'),
        ('src/synthesiser/Relation.cpp', r'synthesiser/Relation\.cpp$', r'generateTypeStruct'),
        ('src/interpreter/Generator.cpp', r'interpreter/Generator\.cpp$', r'NodeGenerator::get(Index|Existence)SuperInstInfo'),
        (TU, r'datastructure/(EquivalenceRelation|BTree|BTreeDelete|Brie|EqRel)\.h$', r'::(%s)$' % '|'.join(LOOKUPS))])
    rep.add_units([syn, rel, gen, ds])
    C02.rule_index_typing(rep, syn, rel)          # R1 (rule ids R4-* of C02)
    rule_interpreter_bounds(rep, gen)
    rule_sentinel(rep, ds)
    # R4: eqrel closure clauses shared with C28 (cache staleness, lock pairing)
    u, = facts.extract([(C28.TU, r'datastructure/(EquivalenceRelation|PiggyList)\.h$', r'EquivalenceRelation|PiggyList')])
    C28.analyse_eqrel(rep, u)
    # R5: every element comparator is a sign function of the (signed, lexicographic) order -- all orderings decided
    uc, = facts.extract([comparators.JOB])
    rep.floor('R5-comparator-classes', comparators.rule_comparators(rep, uc, r'comparator|Comparator', 'R5-comparator-order'), 6)


def run(tier='quick'):
    rep = Report('C08', tier)
    rep.explanation = ('static analysis of the representation layer: R1 the compiled index comparator casts and the padding of unbound columns induce the '
                       'same partition f->float, u->unsigned, else signed with minimum/maximum of the right type; R2 the interpreter pads unbound lower '
                       'columns with MIN_RAM_SIGNED and upper ones with MAX_RAM_SIGNED under isUndefValue; R3 no lookup entry point of a relation data '
                       'structure compares a key column with a domain extreme to decide boundness; R4 the eqrel cache-staleness and lock-pairing '
                       'clauses of C28.')
    rep.assumptions = ['container semantics and brie/btree equivalence on data are NOT decided']
    try:
        analyse(rep)
        ms = [mutate.Mutant(n, f, o, w, e) for (n, f, o, w, e) in MUTANTS]
        mutate.run_mutants(rep, 'C08', ms if tier == 'thorough' else ms[:2], analyse)
    except facts.Broken as e:
        rep.analysis_broken(str(e))
    return rep.finish()

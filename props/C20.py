"""C20 -- profiling is transparent and reports true sizes: log nodes are pure wrappers in both
back-ends (R1), the generator measures the right relation version (R2), loaded tuples are counted (R3), the reader files every tuple count
under a key private to its event (R4)."""
from engine import facts, tables, mutate
from engine.facts import kids, walk, strip, is_call, call_args, call_obj, expr_key
from engine.report import Report
from props import seminaive as S, C24

WRAPPERS = ('LogRelationTimer', 'LogTimer', 'DebugInfo')


def rule_wrappers(rep, eng, syn):
    for kind in WRAPPERS + ('LogSize',):
        lam = C24.find_case_lambda(eng, kind)
        if len(lam) != 1:
            rep.analysis_broken('interpreter case %s not found (%d)' % (kind, len(lam)))
            continue
        f = lam[0]
        ex = [m for m in f.walk() if is_call(m, 'execute') and m.get('cc') == 'Engine']
        rets = [r for r in f.walk() if r['k'] == 'ReturnStmt']
        if kind == 'LogSize':
            ok = not ex and len(rets) == 1 and strip(kids(rets[0])[0], casts=True).get('val') == 1
            det = 'LogSize must not execute anything and must return true'
            muts = [m for m in f.walk() if is_call(m) and m.get('cn') in ('insert', 'purge', 'erase', 'swap', 'clear')]
            ok = ok and not muts
        else:
            # executes its child exactly once and returns that status unchanged
            ok = len(ex) == 1 and len(rets) == 1 and strip(kids(rets[0])[0], casts=True) is ex[0] and \
                any(is_call(m, 'getChild') for m in walk(ex[0]))
            det = 'a %s node must execute its child exactly once and return the child\'s status (found %d execute calls, %d returns)' % (kind, len(ex), len(rets))
            loops = [m for m in f.walk() if m['k'] in ('ForStmt', 'WhileStmt', 'DoStmt', 'CXXForRangeStmt', 'IfStmt')]
            ok = ok and not loops
        rep.ob('R1-log-node-pure-wrapper', 'interpreter/%s' % kind, ok, f.where, '' if ok else det)
    for kind in WRAPPERS + ('LogSize',):
        vs = [f for f in syn.funcs(name='visit_') if len(f.d['params']) > 1 and f.d['params'][1]['t'].replace('const ', '').strip(' &') == 'souffle::ram::' + kind]
        if len(vs) != 1:
            rep.analysis_broken('synthesiser visit_(%s) not found' % kind)
            continue
        f = vs[0]
        em = tables.Emit(lambda n: 'child' if is_call(n, 'dispatch') else None)
        ev = em.events(kids(f.body))
        def has_hole(evs):
            return any(e[0] == 'hole' or (e[0] == 'if' and (has_hole(e[2]) or has_hole(e[3]))) or (e[0] == 'loop' and has_hole(e[2])) for e in evs)
        holes = [e for e in ev if e[0] == 'hole']
        # conditional / repeated emission of the child (PRINT_BEGIN_COMMENT-style conditionals that emit no child are fine)
        ctrl = [e for e in ev if (e[0] == 'if' and (has_hole(e[2]) or has_hole(e[3]))) or (e[0] == 'loop' and has_hole(e[2]))]
        lits = ''.join(e[1] for e in ev if e[0] == 'lit')
        if kind == 'LogSize':
            ok = not holes and not ctrl and '->size()' in lits.replace(' ', '')
            det = 'LogSize must only emit the quantity event'
        else:
            ok = len(holes) == 1 and not ctrl
            det = 'the %s emitter must emit its child statement exactly once, unconditionally (%d emissions)' % (kind, len(holes))
            if ok and kind != 'DebugInfo':
                # inside the logger's scope: "{ Logger logger(...); <child> }"
                seq = [(e[0], e[1] if e[0] == 'lit' else '') for e in ev if e[0] in ('lit', 'hole')]
                idx = [i for i, e in enumerate(seq) if e[0] == 'hole'][0]
                before = ''.join(t for k_, t in seq[:idx])
                after = ''.join(t for k_, t in seq[idx + 1:])
                ok = 'Logger logger(' in before and before.count('{') > before.count('}') and '}' in after
                det = 'the child must be emitted inside the scope of the Logger object'
        rep.ob('R1-log-node-pure-wrapper', 'synthesiser/%s' % kind, ok, f.where, '' if ok else det)


def rule_logger_delta(rep, lg):
    """Logger reports size() - preSize"""
    recs = [r for r in lg.records if r['name'] == 'Logger']
    fs = [f for f in lg.functions if f.d.get('cls') == 'Logger']
    ctor = [f for f in fs if f.d.get('ctor')]
    dtor = [f for f in fs if f.d.get('dtor')]
    if not ctor or not dtor:
        rep.analysis_broken('Logger constructor/destructor not found')
        return
    # preSize initialised from size() in (a) constructor; destructor reports size() - preSize
    init_ok = any(any(i['member'] == 'preSize' and any(is_call(m) and 'size' in (expr_key(m)) for m in walk(i['init'])) for i in c.d.get('inits', [])) or
                  any(m['k'] == 'BinaryOperator' and m['op'] == '=' and expr_key(kids(m)[0]) == 'preSize' for m in c.walk()) for c in ctor)
    diff_ok = any(m['k'] == 'BinaryOperator' and m['op'] == '-' and 'preSize' in expr_key(kids(m)[1]) and 'size' in expr_key(kids(m)[0]) for d in dtor for m in d.walk())
    rep.ob('R2-logger-reports-growth', 'Logger', init_ok and diff_ok, dtor[0].where,
           '' if init_ok and diff_ok else 'Logger must record size() on entry and report size() - preSize on exit (init %s, difference %s)' % (init_ok, diff_ok))


MUTANTS = [
    ('interpreter-logtimer-runs-child-twice', 'src/interpreter/Engine.cpp', '''            Logger logger(cur.getMessage(), getIterationNumber());
            return execute(shadow.getChild(), ctxt);''', '''            Logger logger(cur.getMessage(), getIterationNumber());
            execute(shadow.getChild(), ctxt);
            return execute(shadow.getChild(), ctxt);''', 'R1'),
    ('nonrecursive-timer-measures-new', S.UT, 'rule = mk<ram::LogRelationTimer>(std::move(rule), logTimerStatement, mainRelation);\n        }\n\n        // Add debug info\n        std::ostringstream ds;\n        clause->printForDebugInfo(ds);',
     'rule = mk<ram::LogRelationTimer>(std::move(rule), logTimerStatement, getNewRelationName(rel.getQualifiedName()));\n        }\n\n        // Add debug info\n        std::ostringstream ds;\n        clause->printForDebugInfo(ds);', 'R2'),
    ('synth-debuginfo-drops-child', 'src/synthesiser/Synthesiser.cpp', '''            // insert statements of the rule
            dispatch(dbg.getStatement(), out);''', '''            // insert statements of the rule
            if (!glb.config().has("profile")) dispatch(dbg.getStatement(), out);''', 'R1'),
    ('rule-count-filed-under-iteration-key', 'src/include/souffle/profile/EventProcessor.h', '''        db.addSizeEntry({"program", "relation", relation, "iteration", iteration, "recursive-rule", rule,
                                version, "num-tuples"},
                number);''', '''        db.addSizeEntry({"program", "relation", relation, "iteration", iteration, "num-tuples"},
                number);''', 'R4'),
]


def rule_loaded_tuples_counted(rep, sh):
    """R3: the relation-level size the profile reports must be the size of the relation.  The per-relation timer wraps the rules and its
    Logger reports GROWTH (size() - preSize, R2); the only absolute measurement is LogSize.  A relation can have been loaded (.input) before
    its rules run (generateStratum loads first), so every profiled path of generateNonRecursiveRelation that wraps rules in the growth timer
    must also measure the whole relation (LogSize on Main) -- otherwise the loaded tuples are missing from the reported size."""
    f, paths = sh.paths('UnitTranslator', 'generateNonRecursiveRelation')
    if f is None:
        return
    n, bad = 0, None
    for p in paths:
        if not S.guard_has(p, 'config().has(profile)') or S.guard_has(p, 'config().has(profile)', positive=False) or p.ret is None:
            continue
        tim = [x for x in S.subtrees(p.ret) if x[0] == 'mk' and x[1] == 'LogRelationTimer' and any(y[0] == 'call' and y[1] == 'tNonrecursiveRelation' for y in S.subtrees(x))]
        siz = [x for x in S.subtrees(p.ret) if x[0] == 'mk' and x[1] == 'LogSize']
        if tim:
            n += 1
            if not siz:
                bad = p
    ok = bad is None and n > 0
    rep.ob('R3-loaded-tuples-are-counted', 'generateNonRecursiveRelation/relation-with-rules', ok, f.where,
           '' if ok else 'a relation with rules is measured only by the growth its rules cause (LogRelationTimer); tuples loaded by .input before the rules run '
           'are not in the reported size')
    rep.floor('R3-relation-timer-paths', n, 1)


# ---- R4: the profile reader files every measured size under a key no other event can write ------------------------------------------

# the schema key under which the profile keeps a number of tuples (what souffleprof's Reader reads as the size of a relation / rule /
# iteration).  Entries with other leaves (maxRSS, reads, level, usage) are resource figures, not the sizes the property speaks about: the
# unchanged tree files maxRSS/pre of '@t-recursive-relation' and '@c-recursive-relation' under one key, which loses a memory figure only.
SIZE_LEAF = 'num-tuples'


class _Unk(Exception):
    pass


def _peel(n):
    while n is not None:
        m = strip(n, casts=True)
        if m['k'] in ('CXXConstructExpr', 'CXXTemporaryObjectExpr', 'CXXFunctionalCastExpr', 'CXXStdInitializerListExpr') and \
                len([c for c in kids(m) if c['k'] != 'CXXDefaultArgExpr']) == 1:
            m = [c for c in kids(m) if c['k'] != 'CXXDefaultArgExpr'][0]
        if m is n:
            return n
        n = m
    return n


def _comp(e):
    e = _peel(e)
    if e['k'] == 'StringLiteral':
        return ('lit', e.get('str', ''))
    if e['k'] == 'DeclRefExpr':
        return ('var', e.get('name', '?'))
    if is_call(e, 'to_string') and len(call_args(e)) == 1:
        return ('var', expr_key(call_args(e)[0]))
    return ('var', expr_key(e))


def _path_val(n, f, env, depth=0):
    """abstract value of an expression of type vector<string>: a list of ('lit', s) / ('var', name) components.  Understands brace lists,
    const local vectors, and local lambdas that concatenate (p.insert(p.end(), q.begin(), q.end()); return p).  Anything else: _Unk."""
    if depth > 6:
        raise _Unk('nesting')
    n = _peel(n)
    if n['k'] == 'InitListExpr':
        return [_comp(e) for e in kids(n)]
    if n['k'] == 'DeclRefExpr':
        did = n.get('did')
        if did in env:
            return list(env[did])
        decl = [m for m in f.walk() if m['k'] == 'VarDecl' and m.get('did') == did]
        if len(decl) != 1 or not kids(decl[0]) or not decl[0].get('t', '').startswith('const '):
            raise _Unk('%s is not a const local with an initialiser' % n.get('name'))
        return _path_val(kids(decl[0])[0], f, env, depth + 1)
    if n['k'] == 'CXXOperatorCallExpr' and len(kids(n)) >= 2:
        obj = _peel(kids(n)[1])
        lam = None
        if obj['k'] == 'DeclRefExpr':
            decl = [m for m in f.walk() if m['k'] == 'VarDecl' and m.get('did') == obj.get('did')]
            if len(decl) == 1 and kids(decl[0]):
                lam = _peel(kids(decl[0])[0])
        if lam is None or lam['k'] != 'LambdaExpr' or lam.get('captures'):
            raise _Unk('call of something that is not a capture-free local lambda')
        args = kids(n)[2:]
        ps = lam.get('params', [])
        if len(ps) != len(args):
            raise _Unk('lambda arity')
        env2 = {p['did']: _path_val(a, f, env, depth + 1) for p, a in zip(ps, args)}
        body = [c for c in kids(lam) if c['k'] == 'CompoundStmt']
        if len(body) != 1:
            raise _Unk('lambda body')
        for st in kids(body[0]):
            st0 = _peel(st) if st['k'] != 'ReturnStmt' else st
            if st0['k'] == 'ReturnStmt':
                return _path_val(kids(st0)[0], f, env2, depth + 1)
            if is_call(st0, 'insert') and len(call_args(st0)) == 3:
                tgt = _peel(call_obj(st0))
                a0, a1, a2 = [_peel(a) for a in call_args(st0)]
                def of(c, nm):
                    c = _peel(c)
                    return _peel(call_obj(c)) if is_call(c, nm) and call_obj(c) is not None else None
                e0, b1, e2 = of(a0, 'end'), of(a1, 'begin'), of(a2, 'end')
                if tgt['k'] == 'DeclRefExpr' and tgt.get('did') in env2 and e0 is not None and e0.get('did') == tgt.get('did') and \
                        b1 is not None and e2 is not None and b1.get('did') == e2.get('did') and b1.get('did') in env2:
                    env2[tgt['did']] = env2[tgt['did']] + env2[b1['did']]
                    continue
            raise _Unk('lambda statement %s is not the append idiom' % st0['k'])
        raise _Unk('lambda without return')
    raise _Unk('expression kind %s' % n['k'])


def _unifiable(a, b):
    return len(a) == len(b) and all(x[0] == 'var' or y[0] == 'var' or x[1] == y[1] for x, y in zip(a, b))


def _fmt(pth):
    return '/'.join(c[1] if c[0] == 'lit' else '<%s>' % c[1] for c in pth)


def rule_size_keys_private(rep, ep):
    """R4: ProfileDatabase entries are first-write-wins (DirectoryEntry::writeEntry keeps an existing key), so a size the program measured
    reaches the profile only if no other event can file a size under the same key.  Every addSizeEntry path of every event processor is
    evaluated to a key shape (literals and variables; only tuple counts, leaf 'num-tuples', are compared); shapes written for DIFFERENT events (the '@t-x' / '@n-x' processors of one event x are
    alternatives and count as one) must not be unifiable, and one processor must not write two sizes under one shape."""
    procs = {}
    for f in ep.funcs(name='process'):
        cls = f.d.get('cls')
        if cls and cls != 'EventProcessor':
            procs[cls] = f
    events = {}
    for f in ep.functions:
        if f.d.get('ctor') and f.d.get('cls') in procs:
            for m in f.walk():
                if is_call(m, 'registerEventProcessor'):
                    a = _peel(call_args(m)[0])
                    if a['k'] == 'StringLiteral':
                        events[f.d['cls']] = a.get('str', '')
    sites = []
    for cls, f in sorted(procs.items()):
        ev = events.get(cls)
        calls = [m for m in f.walk() if is_call(m, 'addSizeEntry', 'ProfileDatabase')]
        if calls and ev is None:
            rep.analysis_broken('event name of %s not found' % cls)
            continue
        group = ev[3:] if ev and ev[:3] in ('@t-', '@n-') else ev
        for i, c in enumerate(calls):
            try:
                pth = _path_val(call_args(c)[0], f, {})
            except _Unk as e:
                rep.analysis_broken('key of size entry #%d in %s::process cannot be evaluated (%s)' % (i, cls, e))
                continue
            if pth and pth[-1] == ('lit', SIZE_LEAF):
                sites.append((cls, group, i, pth, f.loc(c)))
    for cls in sorted({s[0] for s in sites}):
        mine = [s for s in sites if s[0] == cls]
        bad = []
        for s in mine:
            for o in sites:
                if o is s or (o[0] == cls and o[2] >= s[2] and o[0] == s[0] and o[2] == s[2]):
                    continue
                if o[0] == cls:
                    clash = o[3] == s[3] and o[2] < s[2]
                else:
                    clash = o[1] != s[1] and _unifiable(o[3], s[3])
                if clash:
                    bad.append((s, o))
        ok = not bad
        det = ''
        if bad:
            s, o = bad[0]
            det = ('the size filed by %s under %s can be filed under the same key by %s (%s, %s): the database keeps the first write, the other '
                   'measurement is lost' % (cls, _fmt(s[3]), o[0], _fmt(o[3]), o[4]))
        rep.ob('R4-size-keys-private-to-their-event', cls, ok, bad[0][0][4] if bad else procs[cls].where, det)
    rep.floor('R4-size-entry-sites', len(sites), 10)
    rep.floor('R4-size-writing-processors', len({s[0] for s in sites}), 9)


def analyse(rep):
    eng, syn, lg, ep = facts.extract([
        ('src/interpreter/Engine.cpp', r'interpreter/Engine\.cpp$', r'Engine::execute$', None, r'ram::(LogRelationTimer|LogTimer|DebugInfo|LogSize) &'),
        ('src/synthesiser/Synthesiser.cpp', r'synthesiser/Synthesiser\.cpp$', r'CodeEmitter::visit_'),
        ('src/interpreter/Engine.cpp', r'souffle/profile/Logger\.h$', r'Logger'),
        ('src/interpreter/Engine.cpp', r'souffle/profile/EventProcessor\.h$', r'Processor')])
    rep.add_units([eng, syn, lg, ep])
    rule_wrappers(rep, eng, syn)
    rule_logger_delta(rep, lg)
    sh = S.Shapes(rep)
    S.rule_profile_roles(rep, sh)
    rule_loaded_tuples_counted(rep, sh)
    rule_size_keys_private(rep, ep)


def run(tier='quick'):
    rep = Report('C20', tier)
    rep.explanation = ('static analysis of the profiling path: the RAM log nodes (LogRelationTimer, LogTimer, DebugInfo, LogSize) are pure wrappers in '
                       'the interpreter (child executed exactly once, status returned unchanged) and in the synthesiser (child emitted exactly once, '
                       'unconditionally, inside the logger scope); the generator attaches non-recursive timers / LogSize to role Main and the '
                       'per-iteration timers to role New (the head version); Logger reports size() - preSize; the profile reader files every tuple count under a '
                       'key that no other event can write (the database keeps the first write).')
    rep.assumptions = ['that the sum of the reported quantities equals the final cardinality is NOT decided (EventProcessor arithmetic on run-time events)']
    try:
        analyse(rep)
        ms = [mutate.Mutant(n, f, o, w, e) for (n, f, o, w, e) in MUTANTS]
        mutate.run_mutants(rep, 'C20', ms if tier == 'thorough' else ms[1:4], analyse)
    except facts.Broken as e:
        rep.analysis_broken(str(e))
    return rep.finish()

"""C20 -- profiling is transparent and reports true sizes: log nodes are pure wrappers in both
back-ends (R1), the generator measures the right relation version (R2)."""
from engine import facts, tables, mutate
from engine.facts import kids, walk, strip, is_call, call_args, call_obj, expr_key
from engine.report import Report
from props import seminaive as S, C24

WRAPPERS = ('LogRelationTimer', 'LogTimer', 'DebugInfo')


def rule_wrappers(rep, eng, syn):
    for kind in WRAPPERS + ('LogSize',):
        lam = C24.find_case_lambda(eng, kind)
        if len(lam) != 1:
            rep.analysis_broken('interpreter case %s not found (%d)' % (kind, len(lam)))
            continue
        f = lam[0]
        ex = [m for m in f.walk() if is_call(m, 'execute') and m.get('cc') == 'Engine']
        rets = [r for r in f.walk() if r['k'] == 'ReturnStmt']
        if kind == 'LogSize':
            ok = not ex and len(rets) == 1 and strip(kids(rets[0])[0], casts=True).get('val') == 1
            det = 'LogSize must not execute anything and must return true'
            muts = [m for m in f.walk() if is_call(m) and m.get('cn') in ('insert', 'purge', 'erase', 'swap', 'clear')]
            ok = ok and not muts
        else:
            # executes its child exactly once and returns that status unchanged
            ok = len(ex) == 1 and len(rets) == 1 and strip(kids(rets[0])[0], casts=True) is ex[0] and \
                any(is_call(m, 'getChild') for m in walk(ex[0]))
            det = 'a %s node must execute its child exactly once and return the child\'s status (found %d execute calls, %d returns)' % (kind, len(ex), len(rets))
            loops = [m for m in f.walk() if m['k'] in ('ForStmt', 'WhileStmt', 'DoStmt', 'CXXForRangeStmt', 'IfStmt')]
            ok = ok and not loops
        rep.ob('R1-log-node-pure-wrapper', 'interpreter/%s' % kind, ok, f.where, '' if ok else det)
    for kind in WRAPPERS + ('LogSize',):
        vs = [f for f in syn.funcs(name='visit_') if len(f.d['params']) > 1 and f.d['params'][1]['t'].replace('const ', '').strip(' &') == 'souffle::ram::' + kind]
        if len(vs) != 1:
            rep.analysis_broken('synthesiser visit_(%s) not found' % kind)
            continue
        f = vs[0]
        em = tables.Emit(lambda n: 'child' if is_call(n, 'dispatch') else None)
        ev = em.events(kids(f.body))
        def has_hole(evs):
            return any(e[0] == 'hole' or (e[0] == 'if' and (has_hole(e[2]) or has_hole(e[3]))) or (e[0] == 'loop' and has_hole(e[2])) for e in evs)
        holes = [e for e in ev if e[0] == 'hole']
        # conditional / repeated emission of the child (PRINT_BEGIN_COMMENT-style conditionals that emit no child are fine)
        ctrl = [e for e in ev if (e[0] == 'if' and (has_hole(e[2]) or has_hole(e[3]))) or (e[0] == 'loop' and has_hole(e[2]))]
        lits = ''.join(e[1] for e in ev if e[0] == 'lit')
        if kind == 'LogSize':
            ok = not holes and not ctrl and '->size()' in lits.replace(' ', '')
            det = 'LogSize must only emit the quantity event'
        else:
            ok = len(holes) == 1 and not ctrl
            det = 'the %s emitter must emit its child statement exactly once, unconditionally (%d emissions)' % (kind, len(holes))
            if ok and kind != 'DebugInfo':
                # inside the logger's scope: "{ Logger logger(...); <child> }"
                seq = [(e[0], e[1] if e[0] == 'lit' else '') for e in ev if e[0] in ('lit', 'hole')]
                idx = [i for i, e in enumerate(seq) if e[0] == 'hole'][0]
                before = ''.join(t for k_, t in seq[:idx])
                after = ''.join(t for k_, t in seq[idx + 1:])
                ok = 'Logger logger(' in before and before.count('{') > before.count('}') and '}' in after
                det = 'the child must be emitted inside the scope of the Logger object'
        rep.ob('R1-log-node-pure-wrapper', 'synthesiser/%s' % kind, ok, f.where, '' if ok else det)


def rule_logger_delta(rep, lg):
    """Logger reports size() - preSize"""
    recs = [r for r in lg.records if r['name'] == 'Logger']
    fs = [f for f in lg.functions if f.d.get('cls') == 'Logger']
    ctor = [f for f in fs if f.d.get('ctor')]
    dtor = [f for f in fs if f.d.get('dtor')]
    if not ctor or not dtor:
        rep.analysis_broken('Logger constructor/destructor not found')
        return
    # preSize initialised from size() in (a) constructor; destructor reports size() - preSize
    init_ok = any(any(i['member'] == 'preSize' and any(is_call(m) and 'size' in (expr_key(m)) for m in walk(i['init'])) for i in c.d.get('inits', [])) or
                  any(m['k'] == 'BinaryOperator' and m['op'] == '=' and expr_key(kids(m)[0]) == 'preSize' for m in c.walk()) for c in ctor)
    diff_ok = any(m['k'] == 'BinaryOperator' and m['op'] == '-' and 'preSize' in expr_key(kids(m)[1]) and 'size' in expr_key(kids(m)[0]) for d in dtor for m in d.walk())
    rep.ob('R2-logger-reports-growth', 'Logger', init_ok and diff_ok, dtor[0].where,
           '' if init_ok and diff_ok else 'Logger must record size() on entry and report size() - preSize on exit (init %s, difference %s)' % (init_ok, diff_ok))


MUTANTS = [
    ('interpreter-logtimer-runs-child-twice', 'src/interpreter/Engine.cpp', '''            Logger logger(cur.getMessage(), getIterationNumber());
            return execute(shadow.getChild(), ctxt);''', '''            Logger logger(cur.getMessage(), getIterationNumber());
            execute(shadow.getChild(), ctxt);
            return execute(shadow.getChild(), ctxt);''', 'R1'),
    ('nonrecursive-timer-measures-new', S.UT, 'rule = mk<ram::LogRelationTimer>(std::move(rule), logTimerStatement, mainRelation);\n        }\n\n        // Add debug info\n        std::ostringstream ds;\n        clause->printForDebugInfo(ds);',
     'rule = mk<ram::LogRelationTimer>(std::move(rule), logTimerStatement, getNewRelationName(rel.getQualifiedName()));\n        }\n\n        // Add debug info\n        std::ostringstream ds;\n        clause->printForDebugInfo(ds);', 'R2'),
    ('synth-debuginfo-drops-child', 'src/synthesiser/Synthesiser.cpp', '''            // insert statements of the rule
            dispatch(dbg.getStatement(), out);''', '''            // insert statements of the rule
            if (!glb.config().has("profile")) dispatch(dbg.getStatement(), out);''', 'R1'),
]


def rule_loaded_tuples_counted(rep, sh):
    """R3: the relation-level size the profile reports must be the size of the relation.  The per-relation timer wraps the rules and its
    Logger reports GROWTH (size() - preSize, R2); the only absolute measurement is LogSize.  A relation can have been loaded (.input) before
    its rules run (generateStratum loads first), so every profiled path of generateNonRecursiveRelation that wraps rules in the growth timer
    must also measure the whole relation (LogSize on Main) -- otherwise the loaded tuples are missing from the reported size."""
    f, paths = sh.paths('UnitTranslator', 'generateNonRecursiveRelation')
    if f is None:
        return
    n, bad = 0, None
    for p in paths:
        if not S.guard_has(p, 'config().has(profile)') or S.guard_has(p, 'config().has(profile)', positive=False) or p.ret is None:
            continue
        tim = [x for x in S.subtrees(p.ret) if x[0] == 'mk' and x[1] == 'LogRelationTimer' and any(y[0] == 'call' and y[1] == 'tNonrecursiveRelation' for y in S.subtrees(x))]
        siz = [x for x in S.subtrees(p.ret) if x[0] == 'mk' and x[1] == 'LogSize']
        if tim:
            n += 1
            if not siz:
                bad = p
    ok = bad is None and n > 0
    rep.ob('R3-loaded-tuples-are-counted', 'generateNonRecursiveRelation/relation-with-rules', ok, f.where,
           '' if ok else 'a relation with rules is measured only by the growth its rules cause (LogRelationTimer); tuples loaded by .input before the rules run '
           'are not in the reported size')
    rep.floor('R3-relation-timer-paths', n, 1)


def analyse(rep):
    eng, syn, lg = facts.extract([
        ('src/interpreter/Engine.cpp', r'interpreter/Engine\.cpp$', r'Engine::execute$', None, r'ram::(LogRelationTimer|LogTimer|DebugInfo|LogSize) &'),
        ('src/synthesiser/Synthesiser.cpp', r'synthesiser/Synthesiser\.cpp$', r'CodeEmitter::visit_'),
        ('src/interpreter/Engine.cpp', r'souffle/profile/Logger\.h$', r'Logger')])
    rep.add_units([eng, syn, lg])
    rule_wrappers(rep, eng, syn)
    rule_logger_delta(rep, lg)
    sh = S.Shapes(rep)
    S.rule_profile_roles(rep, sh)
    rule_loaded_tuples_counted(rep, sh)


def run(tier='quick'):
    rep = Report('C20', tier)
    rep.explanation = ('static analysis of the profiling path: the RAM log nodes (LogRelationTimer, LogTimer, DebugInfo, LogSize) are pure wrappers in '
                       'the interpreter (child executed exactly once, status returned unchanged) and in the synthesiser (child emitted exactly once, '
                       'unconditionally, inside the logger scope); the generator attaches non-recursive timers / LogSize to role Main and the '
                       'per-iteration timers to role New (the head version); Logger reports size() - preSize.')
    rep.assumptions = ['that the sum of the reported quantities equals the final cardinality is NOT decided (EventProcessor arithmetic on run-time events)']
    try:
        analyse(rep)
        ms = [mutate.Mutant(n, f, o, w, e) for (n, f, o, w, e) in MUTANTS]
        mutate.run_mutants(rep, 'C20', ms if tier == 'thorough' else ms[1:3], analyse)
    except facts.Broken as e:
        rep.analysis_broken(str(e))
    return rep.finish()

"""C10 -- choice-domain results are functional: the guard that implements a functional dependency
is complete (R2), checked before the insert in both back-ends (R3), and a query containing a
GuardedInsert is never parallelised (R1: the check-then-insert pair is not atomic)."""
from engine import facts, tables, mutate, roleflow
from engine.facts import kids, walk, strip, is_call, call_args, call_obj, expr_key
from engine.roleflow import subtrees, find_mk, show
from engine.report import Report
from props import seminaive as S, parallel_guard
from props.parallel_guard import guarded_by, not_guarded_by


def rule_guard_completeness(rep, sh):
    f, paths = sh.paths('ClauseTranslator', 'getFunctionalDependencies')
    if f is None:
        return
    n = 0
    for p in paths:
        if p.ret is None or p.ret == ('null',) or p.ret[0] != 'call':
            continue
        items = p.ret[2][0] if p.ret[2] else ('list',)
        negs = [x for x in subtrees(items) if x[0] == 'mk' and x[1] == 'Negation']
        if not negs:
            continue
        n += 1
        rec = S.guard_has(p, 'isRecursive()')
        label = 'getFunctionalDependencies[%s]' % ('recursive' if rec else 'non-recursive')
        rels = []
        for ng in negs:
            ex = ng[2][0]
            ok = ex[0] == 'mk' and ex[1] == 'ExistenceCheck'
            rels.append(ex[2][0] if ok else None)
        head = [r for r in rels if r is not None and r[0] == 'call' and r[1] == 'getClauseAtomName']
        main = [r for r in rels if r is not None and S.role_of(r) == 'Main']
        ok = len(head) >= 1 and (len(main) >= 1 if rec else True)
        if not main and not S.guard_has(p, 'isRecursive()', positive=False):
            # the full relation may be left unchecked ONLY when the translator is in non-recursive mode (then the clause inserts into the
            # full relation itself); any other criterion (e.g. a syntactic test of the clause) lets a rule of a recursive stratum
            # insert into @new_R while R already holds the key
            rep.ob('R2-main-guard-omitted-only-in-non-recursive-mode', label, False, f.where,
                   'a path builds the guards without checking the full relation, and that path is not selected by !isRecursive() '
                   '(guards assumed: %s)' % [show(g)[:40] for g in p.guards][:4])
        else:
            rep.ob('R2-main-guard-omitted-only-in-non-recursive-mode', label, True, f.where, '')
        rep.ob('R2-guard-covers-head-and-main', label, ok, f.where,
               '' if ok else 'existence checks are made on %s; a %s rule must check the relation it inserts into%s' % (
                   [show(r) for r in rels], 'recursive' if rec else 'non-recursive', ' AND the full relation' if rec else ''))
        # every functional dependency yields its own guard (inside the loop over the dependencies)
        inloop = all(any(y[0] == 'foreach' and 'getFunctionalDependencies' in y[1] for y in subtrees(items) if ng in list(subtrees(y))) for ng in negs)
        rep.ob('R2-guard-per-dependency', label, inloop, f.where, '' if inloop else 'the guards are not generated per functional dependency')
    rep.floor('R2-guard-paths', n, 2)
    # key pattern: head argument at key attributes, undefined elsewhere -- read off the source: both alternatives under contains(keys, attr)
    src = [m for m in f.walk() if m['k'] == 'IfStmt']
    okk = False
    for m in src:
        parts = dict(zip(m['roles'], m['c']))
        if 'contains(keys' in expr_key(parts['cond']).replace(' ', ''):
            th = [x for x in walk(parts['then']) if is_call(x, 'translateValue')]
            el = [x for x in walk(parts.get('else') or {'k': 'NullStmt'}) if is_call(x, 'mk') and (x.get('ta') or [''])[0].endswith('UndefValue')]
            okk = bool(th) and bool(el)
    rep.ob('R2-key-pattern', 'getFunctionalDependencies', okk, f.where,
           '' if okk else 'the existence-check pattern must bind exactly the key attributes (head value) and leave the others undefined')
    g, ps = sh.paths('ClauseTranslator', 'createInsertion')
    if g is not None:
        anyg = any(p.ret and p.ret[0] == 'mk' and p.ret[1] == 'GuardedInsert' for p in ps)
        rep.ob('R2-insertion-guarded-when-dependencies', 'createInsertion/has-guarded-path', anyg, g.where,
               '' if anyg else 'createInsertion never builds a GuardedInsert: functional dependencies are not enforced at all')
        for p in ps:
            if S.guard_has(p, 'getArity() == 0'):
                continue
            guarded = S.guard_has(p, 'guardedConditions')
            want = 'GuardedInsert' if guarded else 'Insert'
            ok = p.ret[0] == 'mk' and p.ret[1] == want
            if ok and guarded:
                ok = any(y[0] == 'call' and y[1] == 'getFunctionalDependencies' for y in subtrees(p.ret))
            rep.ob('R2-insertion-guarded-when-dependencies', 'createInsertion[%s]' % want, ok, g.where,
                   '' if ok else 'with%s functional dependencies the head insertion is %s' % ('' if guarded else 'out', show(p.ret)[:80]))


def rule_check_then_insert(rep, eng, syn):
    fs = [f for f in eng.functions if f.name == 'evalGuardedInsert' and not f.is_lambda]
    if not fs:
        rep.analysis_broken('Engine::evalGuardedInsert not found')
    else:
        f = fs[0]
        ins = [m for m in f.walk() if is_call(m, 'insert') and m['k'] == 'CXXMemberCallExpr']
        is_cond = lambda core: is_call(core, 'execute') and any(is_call(x, 'getCondition') for x in walk(core))
        ok = bool(ins) and all(guarded_by(f, m, is_cond)[0] for m in ins)
        rep.ob('R3-check-then-insert', 'interpreter/evalGuardedInsert', ok, f.where,
               '' if ok else 'the insertion is reachable without the guard condition having evaluated to true')
    vs = [f for f in syn.funcs(name='visit_') if len(f.d['params']) > 1 and f.d['params'][1]['t'].replace('const ', '').strip(' &') == 'souffle::ram::GuardedInsert']
    if len(vs) != 1:
        rep.analysis_broken('synthesiser visit_(GuardedInsert) not found')
        return
    f = vs[0]
    em = tables.Emit(lambda n: 'cond' if is_call(n, 'dispatch') else None)
    ev = [e for e in em.events(kids(f.body)) if e[0] in ('lit', 'hole', 'dyn')]
    text = ''
    for e in ev:
        text += e[1] if e[0] == 'lit' else ('⟨%s⟩' % (e[1],))
    t = text.replace(' ', '').replace('\n', '')
    i, j, k = t.find('if(⟨cond⟩){'), t.find('insert(tuple'), t.rfind('}')
    ok = i >= 0 and j > i and k > j and t[i:j].count('{') - t[i:j].count('}') >= 1
    rep.ob('R3-check-then-insert', 'synthesiser/visit_(GuardedInsert)', ok, f.where,
           '' if ok else 'the emitted insert is not inside the block of `if (<condition>)`: %s' % t[:160])


def rule_constraint_dedup(rep, fc):
    """R4: getFunctionalDependencies skips a dependency that is `equivalentConstraint` to one already imposed -- sound only if that
    relation is EQUALITY OF THE KEY SETS (a one-way containment test drops the smaller key: it is then never enforced)"""
    fs = [f for f in fc.functions if f.name == 'equivalentConstraint' and not f.is_lambda]
    if not fs:
        rep.analysis_broken('FunctionalConstraint::equivalentConstraint not found')
        return
    f = fs[0]
    other = f.d['params'][0]['name']
    sets = {}
    for lp in [m for m in f.walk() if m['k'] == 'CXXForRangeStmt']:
        rng = expr_key(strip(kids(kids(kids(lp)[0])[0])[0], casts=True)) if kids(kids(kids(lp)[0])[0]) else ''
        for c in walk(kids(lp)[6]):
            if is_call(c, 'insert') and any(is_call(x, 'getName') for x in walk(c)):
                sets[expr_key(call_obj(c))] = 'other' if rng.startswith(other + '.') or rng == other + '.keys' else 'this'
    rets = [m for m in f.walk() if m['k'] == 'ReturnStmt' and kids(m)]
    ok, why = False, ''
    if len(rets) == 1:
        e = strip(kids(rets[0])[0], casts=True)
        while e['k'] in ('ExprWithCleanups', 'ParenExpr') and kids(e):
            e = strip(kids(e)[0], casts=True)
        if e['k'] == 'CXXOperatorCallExpr' and e.get('op') == '==':
            a, b = [expr_key(strip(x, casts=True)) for x in call_args(e)]
            ok = {sets.get(a), sets.get(b)} == {'this', 'other'}
    if not ok:
        # recognise the one-way shape explicitly so that the report says what is wrong
        oneway = len(sets) == 1 and any(is_call(m, 'find') for m in f.walk())
        why = ('only the containment of one key in the other is tested (keys %s): for `choice-domain (a,b), a` the key a is treated as already imposed and never enforced'
               % sorted(sets)) if oneway else 'equivalentConstraint is not recognisable as equality of the two key-name sets'
        if not oneway and not sets:
            rep.analysis_broken('equivalentConstraint: shape not understood')
            return
    rep.ob('R4-constraint-dedup-is-set-equality', 'FunctionalConstraint::equivalentConstraint', ok, f.where, why)


def rule_entry_paths(rep, ut, sc):
    """R5: every way tuples enter a relation with functional dependencies is guarded.  Rule heads go through createInsertion (R2).  The other
    entry is the fact loader: either the translator's load statement or a semantic check must take the dependencies into account."""
    fs = [f for f in ut.functions if f.name == 'generateLoadRelation' and not f.is_lambda]
    if not fs:
        rep.analysis_broken('UnitTranslator::generateLoadRelation not found')
        return
    f = fs[0]
    in_loader = any(is_call(m, 'getFunctionalDependencies') for m in f.walk())
    in_checker = False
    for g in sc.functions:
        if g.is_lambda or g.cfg is None:
            continue
        for e in [m for m in g.walk() if is_call(m, 'addError')]:
            # one error report that is reached only for (input relation) AND (has functional dependencies)
            fd = guarded_by(g, e, lambda core: any(is_call(x, 'getFunctionalDependencies') for x in walk(core)))[0] or \
                not_guarded_by(g, e, lambda core: any(is_call(x, 'getFunctionalDependencies') for x in walk(core)))
            io = guarded_by(g, e, lambda core: any(is_call(x, 'isInput') or is_call(x, 'isIO') for x in walk(core)))[0]
            if fd and io:
                in_checker = True
    ok = in_loader or in_checker
    rep.ob('R5-every-entry-path-guarded', 'io-load', ok, f.where,
           '' if ok else 'facts loaded by .input into a relation with a choice-domain are inserted unguarded (and no semantic check forbids it): the final '
           'relation can hold two tuples that agree on a declared key')


MUTANTS = [
    ('dedup-by-containment', 'src/ast/FunctionalConstraint.cpp', '    return keyNames == otherKeyNames;', '    return std::includes(keyNames.begin(), keyNames.end(), otherKeyNames.begin(), otherKeyNames.end());', 'R4'),
    ('main-guard-selected-by-clause-syntax', S.CT, '''        if (isRecursive()) {
            // If we are in a recursive clause, need to guard both new and original relation.''', '''        if (isRecursiveClause(clause)) {
            // If we are in a recursive clause, need to guard both new and original relation.''', 'R2'),
    ('recursive-guard-forgets-main', S.CT, '''            dependencies.push_back(mk<ram::Negation>(mk<ram::ExistenceCheck>(
                    getConcreteRelationName(relation->getQualifiedName()), std::move(valsCopy))));''', '''            (void)valsCopy;''', 'R2'),
    ('interpreter-insert-before-check', 'src/interpreter/Engine.cpp', '''    if (!execute(shadow.getCondition(), ctxt)) {
        return true;
    }

    constexpr std::size_t Arity = Rel::Arity;
    const auto& superInfo = shadow.getSuperInst();
    souffle::Tuple<RamDomain, Arity> tuple;
    TUPLE_COPY_FROM(tuple, superInfo.first);

    /* TupleElement */
    for (const auto& tupleElement : superInfo.tupleFirst) {
        tuple[tupleElement[0]] = ctxt[tupleElement[1]][tupleElement[2]];
    }
    /* Generic */
    for (const auto& expr : superInfo.exprFirst) {
        tuple[expr.first] = execute(expr.second.get(), ctxt);
    }

    // insert in target relation
    rel.insert(tuple);
    return true;
}

}  // namespace souffle::interpreter''', '''    const bool guard = execute(shadow.getCondition(), ctxt);

    constexpr std::size_t Arity = Rel::Arity;
    const auto& superInfo = shadow.getSuperInst();
    souffle::Tuple<RamDomain, Arity> tuple;
    TUPLE_COPY_FROM(tuple, superInfo.first);

    /* TupleElement */
    for (const auto& tupleElement : superInfo.tupleFirst) {
        tuple[tupleElement[0]] = ctxt[tupleElement[1]][tupleElement[2]];
    }
    /* Generic */
    for (const auto& expr : superInfo.exprFirst) {
        tuple[expr.first] = execute(expr.second.get(), ctxt);
    }

    // insert in target relation
    rel.insert(tuple);
    return guard || true;
}

}  // namespace souffle::interpreter''', 'R3'),
    ('guarded-insert-parallelised', 'src/ram/transform/Parallel.cpp', '        if (visitExists(query, [&](const GuardedInsert&) { return true; })) return;\n', '', 'C03R1'),
    ('insertion-ignores-dependencies', S.CT, '''    if (auto guardedConditions = getFunctionalDependencies(clause)) {
        return mk<ram::GuardedInsert>(headRelationName, std::move(values), std::move(guardedConditions));
    }
''', '', 'R2'),
]


def analyse(rep):
    parallel_guard.check(rep, need=('GuardedInsert',))
    sh = S.Shapes(rep)
    rule_guard_completeness(rep, sh)
    eng, syn = facts.extract([
        ('src/interpreter/Engine.cpp', r'interpreter/Engine\.cpp$', r'Engine::evalGuardedInsert', None, None, None, True),
        ('src/synthesiser/Synthesiser.cpp', r'synthesiser/Synthesiser\.cpp$', r'CodeEmitter::visit_')])
    rep.add_units([eng, syn])
    rule_check_then_insert(rep, eng, syn)
    fc, ut, sc = facts.extract([('src/ast/FunctionalConstraint.cpp', r'src/ast/FunctionalConstraint\.cpp$', r'equivalentConstraint'),
                                ('src/ast2ram/seminaive/UnitTranslator.cpp', r'seminaive/UnitTranslator\.cpp$', r'generateLoadRelation'),
                                ('src/ast/transform/SemanticChecker.cpp', r'transform/SemanticChecker\.cpp$', r'SemanticCheckerImpl::', None, None, r'getFunctionalDependencies')])
    rep.add_units([fc, ut, sc])
    rule_constraint_dedup(rep, fc)
    rule_entry_paths(rep, ut, sc)


def run(tier='quick'):
    rep = Report('C10', tier)
    rep.explanation = ('static analysis of the choice-domain mechanism: a query containing a GuardedInsert is never parallelised (the check-then-insert '
                       'pair is not atomic); getFunctionalDependencies yields, per functional dependency, Negation(ExistenceCheck(head version, key '
                       'pattern)) and in recursive rules additionally the same check on the full relation, key pattern = head values at key '
                       'attributes and undefined elsewhere; createInsertion emits GuardedInsert whenever dependencies exist; both back-ends insert '
                       'only after the guard evaluated to true.')
    rep.assumptions = ['maximality / soundness on data are NOT decided']
    try:
        analyse(rep)
        ms = [mutate.Mutant(n, f, o, w, e) for (n, f, o, w, e) in MUTANTS]
        mutate.run_mutants(rep, 'C10', ms if tier == 'thorough' else [ms[0], ms[3]], analyse)
    except facts.Broken as e:
        rep.analysis_broken(str(e))
    return rep.finish()

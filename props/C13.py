"""C13 -- static checks reject the ill-formed programs: the ERROR DISCIPLINE is structural (which
programs the three analyses classify as ill-formed is not): every transformer ends in the
error exit, evaluation is reachable only through parse-error exit and the checking pipeline, the
semantic checker is an unconditional member placed before every optimisation, it runs the three
checks, and their diagnostics are errors."""
from engine import facts, pathflow, roleflow, mutate
from engine.facts import kids, walk, strip, is_call, call_args, call_obj, expr_key
from engine.roleflow import subtrees, show
from engine.report import Report
from props.parallel_guard import guarded_by, not_guarded_by, reach_without

# transformers whose effect is an optimisation / rewriting named by C04 / C05: they must see checked programs only
AFTER_CHECKER = ('MinimiseProgramTransformer', 'InlineRelationsTransformer', 'RemoveRedundantRelationsTransformer', 'RemoveRelationCopiesTransformer',
                 'RemoveEmptyRelationsTransformer', 'ReplaceSingletonVariablesTransformer', 'ReduceExistentialsTransformer',
                 'SimplifyConstantBinaryConstraintsTransformer', 'RemoveRedundantSumsTransformer', 'MagicSetTransformer', 'PartitionBodyLiteralsTransformer')


def blocks_of_calls(f, pred):
    out = []
    for n in f.walk():
        if is_call(n) and pred(n):
            b = pathflow.block_of(f, n['id'])
            if b is not None:
                out.append((b, n))
    return out


def must_pass(f, target_blocks, via_blocks):
    """every path from the entry to a target block passes through one of via_blocks"""
    cfg = f.cfg
    succ = {b['b']: [s for s in b['s'] if isinstance(s, int)] for b in cfg['blocks']}
    seen, stack = set(), [cfg['entry']]
    via = set(via_blocks)
    while stack:
        x = stack.pop()
        if x in seen or x in via:
            continue
        seen.add(x)
        stack.extend(succ[x])
    return not (seen & set(target_blocks))


def rule_transformer_apply(rep, u):
    fs = [f for f in u.functions if f.qname.endswith('transform::Transformer::apply')]
    if not fs:
        rep.analysis_broken('ast::transform::Transformer::apply not found')
        return
    f = fs[0]
    ex = blocks_of_calls(f, lambda n: n.get('cn') == 'exitIfErrors')
    tr = blocks_of_calls(f, lambda n: n.get('cn') == 'transform')
    ok = bool(ex) and bool(tr)
    if ok:
        # no path from transform() to the function exit avoids exitIfErrors
        cfg = f.cfg
        succ = {b['b']: [s for s in b['s'] if isinstance(s, int)] for b in cfg['blocks']}
        exb = {b for b, _ in ex}
        seen, stack = set(), [tr[0][0]]
        while stack:
            x = stack.pop()
            if x in seen:
                continue
            seen.add(x)
            if x in exb and x != tr[0][0]:
                continue
            stack.extend(succ[x])
        same = tr[0][0] in exb and pathflow.executes_before(f, tr[0][1]['id'], ex[0][1]['id'])
        ok = (cfg['exit'] not in seen) or same
    rep.ob('R1-every-transformer-ends-in-error-exit', 'Transformer::apply', ok, f.where,
           '' if ok else 'a path from transform() to the end of apply() avoids ErrorReport::exitIfErrors(): errors raised by a checker would not stop the run')


def rule_exit_if_errors(rep, u):
    fs = [f for f in u.functions if f.name == 'exitIfErrors' and f.d.get('cls') == 'ErrorReport']
    if not fs:
        rep.analysis_broken('ErrorReport::exitIfErrors not found')
        return
    f = fs[0]
    exits = [n for n in f.walk() if is_call(n, 'exit')]
    ok = bool(exits)
    for n in exits:
        a = call_args(n)[0]
        v = [m.get('cv') for m in walk(a) if 'cv' in m] + [m.get('val') for m in walk(a) if m['k'] == 'IntegerLiteral']
        ok = ok and bool(v) and int(v[0]) != 0
    rep.ob('R1-error-exit-status', 'ErrorReport::exitIfErrors/failing-status', ok, f.where, '' if ok else 'exitIfErrors does not exit with a non-zero status')
    is_zero = lambda core: core['k'] == 'BinaryOperator' and core['op'] in ('==', '!=') and any(is_call(x, 'getNumErrors') for x in walk(core))
    rets = [r for r in f.walk() if r['k'] == 'ReturnStmt']
    okr = all(guarded_by(f, r, lambda core: is_zero(core) and core['op'] == '==')[0] or not_guarded_by(f, r, lambda core: is_zero(core) and core['op'] == '!=') for r in rets)
    oke = all(not_guarded_by(f, n, lambda core: is_zero(core) and core['op'] == '==') or guarded_by(f, n, lambda core: is_zero(core) and core['op'] == '!=')[0] for n in exits)
    rep.ob('R1-error-exit-status', 'ErrorReport::exitIfErrors/iff-errors', okr and oke and bool(rets) or (oke and not rets), f.where,
           '' if (okr and oke) else 'the exit is not taken exactly when getNumErrors() != 0')
    g = [f2 for f2 in u.functions if f2.name == 'getNumErrors' and f2.d.get('cls') == 'ErrorReport']
    lam = [l for l in u.functions if l.is_lambda and 'getNumErrors' in l.qname]
    okc = bool(lam) and any(m['k'] == 'DeclRefExpr' and m.get('name') == 'ERROR' for m in lam[0].walk())
    rep.ob('R1-error-exit-status', 'ErrorReport::getNumErrors/counts-errors', okc, g[0].where if g else f.where, '' if okc else 'getNumErrors does not count Diagnostic::Type::ERROR')
    ae = [f2 for f2 in u.functions if f2.name == 'addError' and f2.d.get('cls') == 'ErrorReport']
    oka = bool(ae) and any(m['k'] == 'DeclRefExpr' and m.get('name') == 'ERROR' for m in ae[0].walk())
    rep.ob('R3-diagnostics-are-errors', 'ErrorReport::addError', oka, ae[0].where if ae else f.where, '' if oka else 'addError does not create a Diagnostic of type ERROR')


def rule_driver(rep, md):
    mains = [f for f in md.functions if not f.is_lambda and any(is_call(n, 'translateUnit') for n in f.walk())]
    if not mains:
        rep.analysis_broken('MainDriver: the function calling translateUnit not found')
        return
    f = mains[0]
    tgt = [b for b, _ in blocks_of_calls(f, lambda n: n.get('cn') in ('translateUnit', 'interpretTranslationUnit'))]
    parse = [b for b, _ in blocks_of_calls(f, lambda n: n.get('cn') == 'parseTranslationUnit')]
    exits = [b for b, n in blocks_of_calls(f, lambda n: n.get('cn') == 'exitIfErrors') ]
    pipe = [b for b, n in blocks_of_calls(f, lambda n: n.get('cn') == 'apply' and n['k'] == 'CXXMemberCallExpr' and 'pipeline' in expr_key(call_obj(n) or {'k': '?'}))]
    ok1 = bool(tgt) and bool(exits) and must_pass(f, tgt, exits)
    rep.ob('R2-evaluation-behind-parse-error-exit', 'MainDriver/translateUnit', ok1, f.where,
           '' if ok1 else 'translation/evaluation is reachable without passing ErrorReport::exitIfErrors() after parsing')
    ok2 = bool(tgt) and bool(pipe) and must_pass(f, tgt, pipe)
    rep.ob('R2-evaluation-behind-pipeline', 'MainDriver/translateUnit', ok2, f.where,
           '' if ok2 else 'translation/evaluation is reachable without pipeline->apply (the semantic checks would be skipped)')
    ok3 = bool(parse) and bool(exits) and all(must_pass(f, [e], parse) for e in exits[:1])
    rep.ob('R2-parse-before-exit', 'MainDriver/parse', ok3, f.where, '' if ok3 else 'the parse-error exit does not follow the parse')


def rule_pipeline(rep, md):
    fs = [f for f in md.functions if f.name == 'astTransformationPipeline']
    if not fs:
        rep.analysis_broken('MainDriver::astTransformationPipeline not found')
        return
    f = fs[0]
    ev, paths = roleflow.evaluate(f)
    if not paths or paths[0].ret is None:
        rep.analysis_broken('astTransformationPipeline: could not evaluate the pipeline expression')
        return
    t = paths[0].ret
    if t[0] != 'mk' or t[1] != 'PipelineTransformer':
        rep.analysis_broken('astTransformationPipeline does not return mk<PipelineTransformer>(...)')
        return
    members = list(t[2])
    direct = [i for i, m in enumerate(members) if m[0] == 'mk' and m[1] == 'SemanticChecker']
    ok = len(direct) == 1
    rep.ob('R2-checker-unconditional-member', 'astTransformationPipeline/SemanticChecker', ok, f.where,
           '' if ok else 'SemanticChecker is not a direct (unconditional) member of the main pipeline')
    if ok:
        pos = direct[0]
        early = []
        for i, m in enumerate(members[:pos]):
            for x in subtrees(m):
                if x[0] == 'mk' and x[1] in AFTER_CHECKER:
                    early.append(x[1])
        rep.ob('R2-checker-before-optimisations', 'astTransformationPipeline/order', not early, f.where,
               '' if not early else 'optimising transformers run before the semantic checker: %s' % early)
        names_after = {x[1] for m in members[pos + 1:] for x in subtrees(m) if x[0] == 'mk'}
        rep.floor('R2-optimisers-after-checker', len([n for n in AFTER_CHECKER if n in names_after]), 8)
        okg = any(x[0] == 'mk' and x[1] == 'GroundedTermsChecker' for m in members for x in subtrees(m))
        rep.ob('R2-grounded-terms-checker-in-pipeline', 'astTransformationPipeline/GroundedTermsChecker', okg, f.where, '' if okg else 'GroundedTermsChecker no longer part of the pipeline')


def rule_checker_runs_checks(rep, sc, gt, tc):
    impl = [f for f in sc.functions if not f.is_lambda and any(is_call(n, 'hasClauseWithNegatedRelation') for n in f.walk())]
    if not impl:
        rep.analysis_broken('SemanticCheckerImpl constructor (stratification check) not found')
        return
    f = impl[0]
    for what, pred in (('grounded-terms', lambda n: n.get('cn') == 'verify' and n.get('cc') == 'GroundedTermsChecker'),
                       ('types', lambda n: n.get('cn') == 'verify' and n.get('cc') == 'TypeChecker')):
        calls = blocks_of_calls(f, pred)
        ok = bool(calls) and must_pass(f, [f.cfg['exit']], [b for b, _ in calls])
        rep.ob('R2-checker-runs-all-checks', 'SemanticCheckerImpl/%s' % what, ok, f.where,
               '' if ok else 'the semantic checker can finish without running the %s check' % what)
    neg = [n for n in f.walk() if is_call(n, 'hasClauseWithNegatedRelation')]
    agg = [n for n in f.walk() if is_call(n, 'hasClauseWithAggregatedRelation')]
    ok = bool(neg) and bool(agg)
    diag = None
    for n in f.walk():
        if n['k'] in ('CXXConstructExpr', 'CXXTemporaryObjectExpr') and n.get('cn') == 'Diagnostic':
            if any(m['k'] == 'StringLiteral' and 'Unable to stratify' in m.get('str', '') for m in walk(n)):
                diag = n
    if ok and diag is not None:
        # the diagnostic is raised whenever negation OR aggregation is cyclic
        cond_vars = set()
        for n in f.walk():
            if n['k'] == 'IfStmt' and any(x is diag for x in walk(n)):
                parts = dict(zip(n['roles'], n['c']))
                c = strip(parts['cond'], casts=True)
                if c['k'] == 'BinaryOperator' and c['op'] == '||':
                    cond_vars = {strip(x, casts=True).get('name') for x in kids(c)}
        decls = {}
        for vd in walk(f.body):
            if vd['k'] == 'VarDecl' and kids(vd):
                i = strip(kids(vd)[0], casts=True)
                if is_call(i):
                    decls[vd['name']] = i.get('cn')
        ok = {decls.get(v) for v in cond_vars} == {'hasClauseWithNegatedRelation', 'hasClauseWithAggregatedRelation'}
    rep.ob('R2-stratification-covers-negation-and-aggregation', 'SemanticCheckerImpl/stratification', ok and diag is not None, f.where,
           '' if (ok and diag is not None) else 'the stratification error is not raised for BOTH cyclic negation and cyclic aggregation')
    if diag is not None:
        oke = any(m['k'] == 'DeclRefExpr' and m.get('name') == 'ERROR' for m in walk(diag))
        rep.ob('R3-diagnostics-are-errors', 'stratification', oke, f.loc(diag), '' if oke else 'the stratification diagnostic is not of type ERROR')
    # grounded-terms and type checker raise errors (addError), not warnings
    for name, u, lit in (('grounded-terms', gt, 'Ungrounded variable'), ('types', tc, None)):
        errs = [n for f2 in u.functions for n in f2.walk() if is_call(n, 'addError')]
        warn = [n for f2 in u.functions for n in f2.walk() if is_call(n, 'addWarning')]
        ok = len(errs) >= (3 if name == 'grounded-terms' else 30)
        if lit:
            ok = ok and any(m['k'] == 'StringLiteral' and lit in m.get('str', '') for n in errs for m in walk(n))
        rep.ob('R3-diagnostics-are-errors', name, ok, 'src/ast/transform/%s.cpp' % ('GroundedTermsChecker' if name == 'grounded-terms' else 'TypeChecker'),
               '' if ok else '%s violations are no longer reported through addError (%d error sites, %d warning sites)' % (name, len(errs), len(warn)))


MUTANTS = [
    ('aggregate-search-flag-overwritten', 'src/ast/utility/Utils.cpp', '        found_in_agg = found_in_agg || visitExists(cur, [&](const Atom& atom) {', '        found_in_agg = visitExists(cur, [&](const Atom& atom) {', 'R4'),
    ('counter-type-not-checked', 'src/ast/transform/TypeChecker.cpp', '''    if (!isOfKind(types, TypeAttribute::Signed)) {
        report.addError("Counter (type mismatch)", counter.getSrcLoc());
    }''', '''    (void)types;''', 'R6'),
    ('apply-skips-error-exit-when-unchanged', 'src/ast/transform/Transformer.cpp', '''    /* Abort evaluation of the program if errors were encountered */
    translationUnit.getErrorReport().exitIfErrors();''', '''    /* Abort evaluation of the program if errors were encountered */
    if (changed) translationUnit.getErrorReport().exitIfErrors();''', 'R1'),
    ('stratification-ignores-aggregation', 'src/ast/transform/SemanticChecker.cpp', 'if (hasNegation || hasAggregate) {', 'if (hasNegation) {', 'R2'),
    ('ungrounded-is-warning', 'src/ast/transform/GroundedTermsChecker.cpp', 'report.addError("Ungrounded variable " + cur.getName(), cur.getSrcLoc());',
     'report.addWarning(WarnType::VarAppearsOnce, "Ungrounded variable " + cur.getName(), cur.getSrcLoc());', 'R3'),
    ('checker-after-minimise', 'src/MainDriver.cpp', 'mk<ast::transform::SubsumptionQualifierTransformer>(), mk<ast::transform::SemanticChecker>(),',
     'mk<ast::transform::SubsumptionQualifierTransformer>(), mk<ast::transform::MinimiseProgramTransformer>(), mk<ast::transform::SemanticChecker>(),', 'R2'),
    ('exit-status-zero', 'src/include/souffle/utility/../../../reports/ErrorReport.h', 'exit(EXIT_FAILURE);', 'exit(EXIT_SUCCESS);', 'R1'),
]


def rule_stratification_search(rep, ut):
    """R4: the stratification check asks `does SOME clause of R negate / aggregate over S?` through two helper searches.  A search flag must
    be monotone (v = v || .., v |= .., v = true) or the function returns true at the first hit: a plain overwrite inside a callback that is
    invoked once per aggregator forgets an earlier hit (the cyclic aggregate is then accepted)."""
    n = 0
    for name in ('hasClauseWithNegatedRelation', 'hasClauseWithAggregatedRelation'):
        fs = [f for f in ut.functions if f.name == name and not f.is_lambda]
        if not fs:
            rep.analysis_broken('ast utility %s not found' % name)
            continue
        f = fs[0]
        n += 1
        bools = {m['name'] for m in f.walk() if m['k'] == 'VarDecl' and m.get('t') == 'bool' and m.get('name')}
        bad = []
        for m in f.walk():
            if m['k'] == 'BinaryOperator' and m.get('op') == '=':
                l, r = [strip(x, casts=True) for x in kids(m)]
                if l.get('name') in bools:
                    r0 = r
                    while r0['k'] in ('ExprWithCleanups', 'ParenExpr') and kids(r0):
                        r0 = strip(kids(r0)[0], casts=True)
                    mono = (r0['k'] == 'CXXBoolLiteralExpr' and r0.get('val')) or \
                           (r0['k'] == 'BinaryOperator' and r0.get('op') == '||' and any(strip(x, casts=True).get('name') == l['name'] for x in kids(r0)))
                    # an overwrite is harmless only if the function leaves the search at once when it is true (no callback / loop in between)
                    in_callback = any(a['k'] in ('LambdaExpr', 'ForStmt', 'CXXForRangeStmt', 'WhileStmt') for a in f.ancestors(m))
                    if not mono and in_callback:
                        bad.append(m)
        rep.ob('R4-stratification-search-is-exhaustive', name, not bad, f.loc(bad[0]) if bad else f.where,
               '' if not bad else 'the search flag `%s` is overwritten inside a callback/loop (line %s): a hit in an earlier aggregator or clause is forgotten, '
               'so a cyclic dependency through that literal is not reported' % (strip(kids(bad[0])[0], casts=True).get('name'), bad[0].get('l')))
    rep.floor('R4-search-helpers', n, 2)


def rule_negated_atom_types(rep, tc):
    """R5: for a NEGATED atom no typing constraint is generated, so TypeChecker's own comparison is the only guard: it must compare the
    argument type with the DECLARED attribute type (identity / equivalence / common constant base), not merely with its kind"""
    fs = [f for f in tc.functions if f.name == 'visit_' and not f.is_lambda and len(f.d['params']) > 1 and f.d['params'][1]['t'].replace('const ', '').strip(' &').endswith('ast::Atom')]
    if not fs:
        rep.analysis_broken('TypeCheckerImpl::visit_(Atom) not found')
        return
    f = fs[0]
    branch = None
    for m in f.walk():
        if m['k'] == 'IfStmt' and any(x.get('member') == 'negatedAtoms' or x.get('name') == 'negatedAtoms' for x in walk(kids(m)[0])):
            parts = dict(zip(m.get('roles', []), m['c']))
            c = strip(parts['cond'], casts=True)
            positive_first = c['k'] == 'BinaryOperator' and c.get('op') == '==' and any(str(strip(x, casts=True).get('cv', strip(x, casts=True).get('val'))) == '0' for x in kids(c))
            branch = parts.get('else') if positive_first else parts.get('then')
    if branch is None:
        rep.analysis_broken('TypeCheckerImpl::visit_(Atom): branch for negated atoms not found')
        return
    attr = {m['name'] for m in f.walk() if m['k'] == 'VarDecl' and 'analysis::Type' in m.get('t', '') and m.get('name')}
    exact = False
    for m in walk(branch):
        if m['k'] in ('BinaryOperator', 'CXXOperatorCallExpr') and m.get('op') == '==':
            names = {x.get('name') for x in walk(m) if x['k'] == 'DeclRefExpr'}
            if names & attr:
                exact = True
        if is_call(m, 'areEquivalentTypes') and any(x.get('name') in attr for x in walk(m) if x['k'] == 'DeclRefExpr'):
            exact = True
    rep.ob('R5-negated-atom-type-identity', 'TypeCheckerImpl::visit_(Atom)/negated', exact, f.loc(branch),
           '' if exact else 'the argument types of a negated atom are no longer compared with the declared attribute type itself: e.g. two unrelated '
           'ADTs (same kind) are accepted in !r(x)')


ARG_EXCEPT = {'UnnamedVariable': 'matches anything: takes the type its position requires', 'Variable': None}


def rule_argument_kinds(rep, tc):
    """R6: TypeCheckerImpl has a check (visit_) for every concrete kind of ast::Argument -- arguments whose type set comes out empty are skipped
    by the atom check as `reported later`, so a kind without its own check is never reported at all"""
    recs = {r['qname']: r for r in tc.records if r['qname'].startswith('souffle::ast::') and r['qname'].count('::') == 2}
    def is_arg(q, seen=()):
        if q == 'souffle::ast::Argument':
            return True
        return any(is_arg(b['qname'], seen + (q,)) for b in recs.get(q, {}).get('bases', []) if b['qname'] not in seen)
    args = {q for q in recs if is_arg(q)}
    bases = {b['qname'] for q in args for b in recs[q].get('bases', [])}
    leaves = sorted(q.split('::')[-1] for q in args if q not in bases)
    if len(leaves) < 12:
        rep.analysis_broken('ast::Argument hierarchy: only %d concrete kinds found (%s)' % (len(leaves), leaves))
        return
    handled = set()
    for f in tc.functions:
        if f.name == 'visit_' and f.d.get('cls') == 'TypeCheckerImpl' and len(f.d['params']) > 1:
            # a check, not just an override: it must be able to report
            if any(is_call(m) and m.get('cn') in ('addError', 'addDiagnostic') for m in f.walk()):
                handled.add(f.d['params'][1]['t'].replace('const ', '').strip(' &').split('::')[-1])
    for leaf in leaves:
        if leaf in ARG_EXCEPT and ARG_EXCEPT[leaf]:
            continue
        ok = leaf in handled
        rep.ob('R6-type-checker-covers-argument-kinds', leaf, ok, 'src/ast/transform/TypeChecker.cpp',
               '' if ok else 'TypeCheckerImpl has no check for ast::%s: used in a column of another type it is accepted (its type set is empty and the atom '
               'check defers to a report that never comes)' % leaf)
    rep.floor('R6-argument-kinds', len(leaves), 12)


def analyse(rep):
    tr, md, sc, gt, tc = facts.extract([
        ('src/ast/transform/Transformer.cpp', r'transform/Transformer\.cpp$|reports/ErrorReport\.h$', r'Transformer::apply|ErrorReport::'),
        ('src/MainDriver.cpp', r'src/MainDriver\.cpp$', r'.*'),
        ('src/ast/transform/SemanticChecker.cpp', r'transform/SemanticChecker\.cpp$', r'SemanticCheckerImpl::SemanticCheckerImpl'),
        ('src/ast/transform/GroundedTermsChecker.cpp', r'transform/GroundedTermsChecker\.cpp$', r'.*'),
        ('src/ast/transform/TypeChecker.cpp', r'transform/TypeChecker\.cpp$', r'.*', None, None, r'^addError$|^addWarning$')])
    rep.add_units([tr, md, sc, gt, tc])
    rule_transformer_apply(rep, tr)
    rule_exit_if_errors(rep, tr)
    rule_driver(rep, md)
    rule_pipeline(rep, md)
    rule_checker_runs_checks(rep, sc, gt, tc)
    ut, tc2 = facts.extract([('src/ast/utility/Utils.cpp', r'ast/utility/Utils\.cpp$', r'hasClauseWith'),
                             ('src/ast/transform/TypeChecker.cpp', r'transform/TypeChecker\.cpp$|src/ast/[A-Za-z]+\.h$', r'TypeCheckerImpl::visit_')])
    rep.add_units([ut, tc2])
    rule_stratification_search(rep, ut)
    rule_negated_atom_types(rep, tc2)
    rule_argument_kinds(rep, tc2)


def run(tier='quick'):
    rep = Report('C13', tier)
    rep.explanation = ('static error-discipline analysis: Transformer::apply reaches ErrorReport::exitIfErrors() on every path after transform(); exitIfErrors '
                       'exits with a failing status iff an ERROR diagnostic exists; in MainDriver translation/evaluation is reachable only through the '
                       'parse-error exit and pipeline->apply; SemanticChecker is a direct, unconditional member of the main pipeline placed before every '
                       'optimising transformer of C04/C05; it runs the grounded-terms and type checks and the stratification loop consulting both '
                       'cyclic negation and cyclic aggregation; the three diagnostics are raised at severity error.')
    rep.assumptions = ['that the three analyses classify programs correctly (acceptance of every well-formed program, rejection of every ill-formed one) is NOT decided']
    try:
        analyse(rep)
        ms = [mutate.Mutant(n, f, o, w, e) for (n, f, o, w, e) in MUTANTS[:4]]
        ms.append(mutate.Mutant('exit-status-zero', 'src/reports/ErrorReport.h', 'exit(EXIT_FAILURE);', 'exit(EXIT_SUCCESS);', 'R1'))
        mutate.run_mutants(rep, 'C13', ms if tier == 'thorough' else ms[:2], analyse)
    except facts.Broken as e:
        rep.analysis_broken(str(e))
    return rep.finish()

"""Shared rule C03-R1 (used by C03, C10, C11, C26): preconditions of the RAM parallelisation pass,
decided on the CFG of ram/transform/Parallel.cpp by edge-removal reachability (every path to the
rewriting call passes through the guarding edge)."""
from engine import facts, pathflow
from engine.facts import kids, walk, strip, is_call, call_args, call_obj, expr_key

UNIT = 'src/ram/transform/Parallel.cpp'
_cache = {}


def unit():
    key = (facts._OVERLAY.dir if facts._OVERLAY else None)
    if key not in _cache:
        _cache[key], = facts.extract([(UNIT, r'ram/transform/Parallel\.cpp$', '.*')])
    return _cache[key]


def reach_without(func, removed_edges, target_blocks):
    """is any target block reachable from the entry when the given (src, dst) edges are removed?"""
    cfg = func.cfg
    succ = {b['b']: [s for s in b['s'] if isinstance(s, int)] for b in cfg['blocks']}
    seen, stack = set(), [cfg['entry']]
    while stack:
        x = stack.pop()
        if x in seen:
            continue
        seen.add(x)
        for s in succ[x]:
            if (x, s) in removed_edges:
                continue
            stack.append(s)
    return bool(seen & set(target_blocks))


def cond_blocks(func):
    """(block, cond node, polarity-stripped core, negated?) for every two-way branch"""
    out = []
    for b in func.cfg['blocks']:
        if b.get('cond', -1) is None or b.get('cond', -1) < 0 or len(b['s']) != 2:
            continue
        c = pathflow.effective_cond(func, b)
        if c is None:
            continue
        neg = False
        x = strip(c, casts=True)
        while x['k'] == 'UnaryOperator' and x.get('op') == '!':
            neg = not neg
            x = strip(kids(x)[0], casts=True)
        out.append((b, c, x, neg))
    return out


def guarded_by(func, target_node, pred):
    """True iff every path to target passes through the edge on which pred(core) holds (positively)."""
    tb = pathflow.block_of(func, target_node['id'])
    if tb is None:
        return False, 'target not in CFG'
    for b, c, core, neg in cond_blocks(func):
        if pred(core):
            # edge taken when core is true
            true_succ, false_succ = b['s'][0], b['s'][1]
            edge_dst = false_succ if neg else true_succ
            if not isinstance(edge_dst, int):
                continue
            if not reach_without(func, {(b['b'], edge_dst)}, [tb]):
                return True, ''
    return False, 'no dominating guard edge'


def not_guarded_by(func, target_node, pred):
    """True iff every path to target passes through the edge on which pred(core) is FALSE"""
    tb = pathflow.block_of(func, target_node['id'])
    for b, c, core, neg in cond_blocks(func):
        if pred(core):
            true_succ, false_succ = b['s'][0], b['s'][1]
            edge_dst = true_succ if neg else false_succ
            if isinstance(edge_dst, int) and not reach_without(func, {(b['b'], edge_dst)}, [tb]):
                return True
    return False


def visit_exists_kind(core):
    """visitExists(query, [&](const X&) { return true; }) -> 'X'"""
    if not is_call(core, 'visitExists'):
        return None
    for a in call_args(core):
        x = strip(a, casts=True)
        if x['k'] == 'LambdaExpr' and x.get('params'):
            t = x['params'][0]['t']
            body = kids(x)[0]
            rets = [r for r in walk(body) if r['k'] == 'ReturnStmt']
            always_true = len(rets) == 1 and kids(rets[0]) and strip(kids(rets[0])[0], casts=True).get('k') == 'CXXBoolLiteralExpr' \
                and strip(kids(rets[0])[0], casts=True)['val'] == 1 and not [m for m in walk(body) if m['k'] in ('IfStmt', 'ConditionalOperator')]
            name = t.replace('const ', '').replace('&', '').strip().split('::')[-1]
            return name if always_true else name + '?conditional'
    return None


REWRITES = {'ParallelScan': 'Scan', 'ParallelIfExists': 'IfExists', 'ParallelIndexScan': 'IndexScan',
            'ParallelIndexIfExists': 'IndexIfExists', 'ParallelAggregate': 'Aggregate', 'ParallelIndexAggregate': 'IndexAggregate'}


def check(rep, need=('GuardedInsert', 'Erase'), rewrites=False):
    u = unit()
    rep.add_units([u])
    ql = [f for f in u.functions if f.is_lambda and f.d['params'] and f.d['params'][0]['t'] == 'souffle::ram::Query &']
    if len(ql) != 1:
        rep.analysis_broken('Parallel.cpp: per-query lambda of parallelizeOperations not found (%d)' % len(ql))
        return
    q = ql[0]
    applies = [n for n in q.walk() if n['k'] == 'CXXMemberCallExpr' and n.get('cn') == 'apply' and n.get('cc') in ('Query', 'Node')]
    if not applies:
        rep.analysis_broken('Parallel.cpp: rewriting call query.apply(...) not found')
        return
    for kind in need:
        for ap in applies:
            ok = not_guarded_by(q, ap, lambda core, kind=kind: visit_exists_kind(core) == kind)
            rep.ob('C03R1-not-parallelised', 'parallelizeOperations/no-%s' % kind, ok, q.loc(ap),
                   '' if ok else 'the parallelising rewrite is reachable for a query that contains ram::%s (no dominating '
                   '`if (visitExists<%s>) return` guard)' % (kind, kind))
    if rewrites:
        gl = [f for f in u.functions if f.is_lambda and len(f.d['params']) == 2 and 'Own<' in f.d['params'][1]['ts']]
        if len(gl) != 1:
            rep.analysis_broken('Parallel.cpp: node-mapper lambda not found (%d)' % len(gl))
            return
        g = gl[0]
        found = set()
        for n in g.walk():
            if is_call(n, 'mk') and n.get('ta'):
                t = n['ta'][0].split('::')[-1]
                if t not in REWRITES:
                    continue
                found.add(t)
                src = REWRITES[t]

                def is_tid0(core, src=src):
                    if core['k'] != 'BinaryOperator' or core.get('op') != '==':
                        return False
                    a, b = [strip(x, casts=True) for x in kids(core)]
                    for x, y in ((a, b), (b, a)):
                        if is_call(x, 'getTupleId') and y['k'] == 'IntegerLiteral' and y['val'] == '0':
                            o = strip(call_obj(x), casts=True) if call_obj(x) is not None else None
                            return o is not None and ('ram::' + src + ' ') in o.get('t', '') + ' '
                    return False
                ok, why = guarded_by(g, n, is_tid0)
                rep.ob('C03R1-outermost-only', 'parallelizeOperations/%s' % t, ok, g.loc(n),
                       '' if ok else 'mk<%s> is not guarded by %s->getTupleId() == 0 (only the outermost loop may be parallelised)' % (t, src))
                if 'Aggregate' in t:
                    ok1, _ = guarded_by(g, n, lambda core: is_call(core, 'isA') and 'IntrinsicAggregator' in ' '.join(core.get('ta', [])))
                    rep.ob('C03R1-intrinsic-aggregator-only', 'parallelizeOperations/%s' % t, ok1, g.loc(n),
                           '' if ok1 else 'mk<%s> is not guarded by isA<IntrinsicAggregator> (user-defined aggregators have no reduction)' % t)
                    ok2 = not_guarded_by(g, n, lambda core: is_call(core, 'isNullary'))
                    rep.ob('C03R1-non-nullary', 'parallelizeOperations/%s' % t, ok2, g.loc(n),
                           '' if ok2 else 'mk<%s> is not guarded by !rel.isNullary()' % t)
        missing = set(REWRITES) - found
        if missing:
            rep.analysis_broken('Parallel.cpp: rewrites not found: %s' % sorted(missing))


def erase_reachability(rep):
    """C26-R2: the interpreter dispatches ram::Erase only to BtreeDelete relations; evalErase is the only caller of
    relation erase; the synthesiser emits an erase() member only for relations created with the delete flag."""
    eng, rel = facts.extract([('src/interpreter/Engine.cpp', r'interpreter/Engine\.cpp$', r'Engine::execute$|Engine::evalErase', None, r'ram::Erase &'),
                              ('src/synthesiser/Relation.cpp', r'synthesiser/Relation\.cpp$', r'getSynthesiserRelation|DirectRelation::generateTypeStruct')])
    rep.add_units([eng, rel])
    n = 0
    for f in eng.functions:
        if not f.is_lambda:
            continue
        curs = [vd for s in kids(f.body)[:3] if s['k'] == 'DeclStmt' for vd in kids(s) if vd.get('name') == 'cur']
        if not curs or curs[0].get('t', '').replace('const ', '').strip(' &') != 'souffle::ram::Erase':
            continue
        n += 1
        rels = [vd for vd in walk(f.body) if vd['k'] == 'VarDecl' and vd.get('name') == 'rel']
        ok = bool(rels) and 'BtreeDelete' in rels[0].get('t', '')
        rep.ob('C26R2-erase-only-on-btree-delete', 'interpreter/Erase-case', ok, f.loc(f.body),
               '' if ok else 'ram::Erase dispatched to relation type %s' % (rels[0].get('t') if rels else '?'), nontrivial=(n == 1))
    rep.floor('C26R2-erase-only-on-btree-delete', n, 1, '(interpreter Erase cases)')
    # synthesiser: the only `new DirectRelation(..., true)` with the erase flag is under the BTREE_DELETE representation test
    gs = rel.funcs(name='getSynthesiserRelation')
    if not gs:
        rep.analysis_broken('synthesiser getSynthesiserRelation not found')
        return
    g = gs[0]
    cnt = 0
    for nw in g.walk():
        if nw['k'] == 'CXXNewExpr' and 'DirectRelation' in nw.get('alloc', ''):
            ctor = [c for c in walk(nw) if c['k'] == 'CXXConstructExpr' and c.get('cn') == 'DirectRelation']
            if not ctor:
                continue
            args = kids(ctor[0])
            flag = strip(args[-1], casts=True) if args else None
            if flag is not None and flag['k'] == 'CXXBoolLiteralExpr' and flag['val'] == 1:
                cnt += 1

                def is_delete_test(core):
                    if core['k'] != 'BinaryOperator' or core.get('op') != '==':
                        return False
                    return any(m['k'] == 'DeclRefExpr' and m.get('name') == 'BTREE_DELETE' for m in walk(core))
                ok, _ = guarded_by(g, nw, is_delete_test)
                rep.ob('C26R2-erase-member-only-for-delete-relations', 'synthesiser/getSynthesiserRelation', ok, g.loc(nw),
                       '' if ok else 'a relation with an erase() member is created outside the BTREE_DELETE representation branch')
    rep.floor('C26R2-erase-member-only-for-delete-relations', cnt, 1)

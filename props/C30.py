"""C30 -- OptimisticReadWriteLock: the parity algebra of the protocol, checked on the source.
Each method is abstractly interpreted over its CFG (E1) with symbolic values for the results of
the atomic operations on `version` (E4); the per-path summary (effective atomic events, facts
about the returned/observed versions, return value) must match the lemma of the usual
rely/guarantee argument (DESIGN.md section C30)."""
import os
from engine import facts, pathflow, atomics
from engine.facts import kids, walk, strip, is_call, call_args, call_obj, expr_key
from engine.report import Report

LOCK = 'OptimisticReadWriteLock'
FIELD = 'version'


class Unrecognised(Exception):
    pass


def val_of(n, env, func):
    n = strip(n, casts=True)
    if n is None:
        return ('unk',)
    k = n['k']
    if k == 'IntegerLiteral':
        return ('const', int(n['val']))
    if 'cv' in n and k not in ('DeclRefExpr',):
        try:
            return ('const', int(n['cv']))
        except ValueError:
            pass
    if k == 'DeclRefExpr':
        for d, v in env:
            if d == n.get('did'):
                return v
        return ('unk',)
    if k == 'MemberExpr' and n.get('member') == 'version' and n.get('mcls') == 'Lease':
        return ('leasever',)
    a = atomics.atomic_op(n)
    if a is not None and a.get('objkey') == FIELD:
        return ('op', n['id'])
    if k in ('CXXConstructExpr', 'CXXTemporaryObjectExpr', 'CXXFunctionalCastExpr') and n.get('cn') == 'Lease' or (
            k == 'CXXFunctionalCastExpr' and 'Lease' in n.get('t', '')):
        cs = kids(n)
        if cs:
            return ('lease', val_of(cs[0], env, func))
    if is_call(n) and n.get('cc') == LOCK:
        return ('callret', n.get('cn'))
    return ('unk',)


def pred_of(c, env, func):
    """boolean expression -> (val, pred, polarity) ; pred in odd | eqlease ; or ('callret', name, pol)"""
    c = strip(c, casts=False)
    if c is None:
        raise Unrecognised('empty condition')
    k = c['k']
    if k == 'ImplicitCastExpr' and c.get('ck') in ('IntegralToBoolean', 'IntegralCast'):
        inner = strip(kids(c)[0])
        if inner['k'] == 'BinaryOperator' and inner['op'] == '&':
            x, m = kids(inner)
            mv, xv = val_of(m, env, func), val_of(x, env, func)
            if mv == ('const', 1):
                return (xv, 'odd', True)
            if xv == ('const', 1):
                return (mv, 'odd', True)
        if inner['k'] == 'BinaryOperator' and inner['op'] == '%':
            x, m = kids(inner)
            if val_of(m, env, func) == ('const', 2):
                return (val_of(x, env, func), 'odd', True)
        return pred_of(kids(c)[0], env, func)
    if k in ('ParenExpr', 'ExprWithCleanups', 'ImplicitCastExpr', 'CXXBoolLiteralExpr') and k != 'CXXBoolLiteralExpr':
        return pred_of(kids(c)[0], env, func)
    if k == 'CXXBoolLiteralExpr':
        return (('const', int(c['val'])), 'true', True)
    if k == 'UnaryOperator' and c['op'] == '!':
        v, p, pol = pred_of(kids(c)[0], env, func)
        return (v, p, not pol)
    if k == 'BinaryOperator' and c['op'] in ('==', '!='):
        a, b = kids(c)
        pol = c['op'] == '=='
        for x, y in ((a, b), (b, a)):
            xs = strip(x, casts=True)
            yv = val_of(y, env, func)
            if xs['k'] == 'BinaryOperator' and xs['op'] in ('&', '%') and yv[0] == 'const':
                l, r = kids(xs)
                rv = val_of(r, env, func)
                if (xs['op'] == '&' and rv == ('const', 1)) or (xs['op'] == '%' and rv == ('const', 2)):
                    if yv[1] == 1:
                        return (val_of(l, env, func), 'odd', pol)
                    if yv[1] == 0:
                        return (val_of(l, env, func), 'odd', not pol)
        av, bv = val_of(a, env, func), val_of(b, env, func)
        if av == ('leasever',) and bv[0] == 'op':
            return (bv, 'eqlease', pol)
        if bv == ('leasever',) and av[0] == 'op':
            return (av, 'eqlease', pol)
    if k == 'BinaryOperator' and c['op'] in ('<', '<=', '>', '>='):
        a, b = kids(c)
        av, bv = val_of(a, env, func), val_of(b, env, func)
        if av == ('leasever',) and bv[0] == 'op':
            return (bv, 'ordered:' + c['op'], True)
        if bv == ('leasever',) and av[0] == 'op':
            return (av, 'ordered:' + c['op'], True)
    if is_call(c) and c.get('cc') == LOCK:
        return (('callret', c.get('cn')), 'true', True)
    raise Unrecognised('condition not a recognised predicate over the version: %s' % expr_key(c))


def lookup(factset, v, p):
    for (fv, fp, fb) in factset:
        if fv == v and fp == p:
            return fb
    return None


class LockClient(pathflow.Client):
    """state = (env, facts, trace, ret)"""

    def initial(self, func):
        return (frozenset(), frozenset(), (), None)

    def _event(self, st, ev, opid=None):
        env, fs, tr, ret = st
        if opid is not None:
            fs = frozenset(f for f in fs if f[0] != ('op', opid))
        if not tr or tr[-1] != ev:
            tr = tr + (ev,)
        return (env, fs, tr, ret)

    def transfer(self, st, n, func):
        if 'k' not in n:
            return [st]
        env, fs, tr, ret = st
        k = n['k']
        a = atomics.atomic_op(n)
        if a is not None:
            if a['kind'] == 'fence':
                return [self._event(st, ('fence', a['order']))]
            if a.get('objkey') != FIELD:
                return [st]
            if a['kind'] == 'load':
                return [self._event(st, ('load', a['order'], n['id']), n['id'])]
            if a['kind'] == 'rmw':
                c = val_of(a['operand'], env, func) if a.get('operand') is not None else ('const', 1) if a.get('unit') else ('unk',)
                return [self._event(st, ('rmw', a['op'], c, a['order'], n['id']), n['id'])]
            return [self._event(st, ('other', a['kind'], n['id']), n['id'])]
        if is_call(n) and n.get('cc') == LOCK and n['k'] == 'CXXMemberCallExpr':
            return [self._event(st, ('call', n.get('cn')))]
        if k == 'DeclStmt':
            e = dict(env)
            for vd in kids(n):
                if vd['k'] == 'VarDecl' and kids(vd):
                    e[vd['did']] = val_of(kids(vd)[0], env, func)
            return [(frozenset(e.items()), fs, tr, ret)]
        if k == 'BinaryOperator' and n['op'] == '=':
            lhs = strip(kids(n)[0])
            if lhs['k'] == 'DeclRefExpr':
                e = dict(env)
                e[lhs['did']] = val_of(kids(n)[1], env, func)
                return [(frozenset(e.items()), fs, tr, ret)]
        if k == 'ReturnStmt':
            cs = kids(n)
            if not cs:
                return [(env, fs, tr, 'void')]
            rt = func.d['ret']
            if rt == 'bool':
                try:
                    v, p, pol = pred_of(cs[0], env, func)
                except Unrecognised as e:
                    raise facts.Broken('%s: return expression: %s' % (func.name, e))
                if p == 'true':
                    if v[0] == 'const':
                        return [(env, fs, tr, bool(v[1]) == pol)]
                    return [(env, fs, tr, ('callret', v[1], pol))]
                known = lookup(fs, v, p)
                if known is not None:
                    return [(env, fs, tr, known == pol)]
                out = []
                for b in (True, False):
                    out.append((env, fs | {(v, p, b)}, tr, b == pol))
                return out
            return [(env, fs, tr, val_of(cs[0], env, func))]
        return [st]

    def branch(self, st, cond, truth, func, tk):
        env, fs, tr, ret = st
        try:
            v, p, pol = pred_of(cond, env, func)
        except Unrecognised as e:
            # a condition over something else than the lock word (a spin budget, a flag of the caller) cannot constrain the version: both
            # outcomes are explored and nothing is learnt.  A condition that does mention a version-derived value in an idiom the
            # abstraction does not know stays analysis-broken (guessing there could raise a false alarm).
            def _ver(m):
                try:
                    return val_of(m, env, func)[0] in ('op', 'leasever', 'lease', 'callret')
                except Exception:
                    return True
            if any(_ver(m) for m in walk(cond) if 'k' in m and m['k'] in ('DeclRefExpr', 'MemberExpr', 'CallExpr', 'CXXMemberCallExpr', 'CXXOperatorCallExpr')):
                raise facts.Broken('%s: %s' % (func.name, e))
            return st
        want = (truth == pol)
        if p == 'true' and v[0] == 'const':
            return st if bool(v[1]) == want else None
        known = lookup(fs, v, p)
        if known is not None:
            return st if known == want else None
        return (env, fs | {(v, p, want)}, tr, ret)


def effective(trace, fs):
    """drop fetch_or(1) events whose result is known odd: x | 1 == x, no effect on the lock word"""
    out = []
    for ev in trace:
        if ev[0] == 'rmw' and ev[1] == '|' and ev[2] == ('const', 1) and lookup(fs, ('op', ev[4]), 'odd') is True:
            continue
        out.append(ev)
    return out


def fmt_trace(tr):
    return '[' + ', '.join('%s' % (':'.join(str(x[1]) if isinstance(x, tuple) else str(x) for x in ev[:-1]) if ev[0] in ('load', 'rmw') else ':'.join(map(str, ev))) for ev in tr) + ']'


def is_acquire_rmw(ev, fs):
    return (ev[0] == 'rmw' and ev[1] == '|' and ev[2] == ('const', 1) and ev[3] in atomics.ACQUIRE_OK
            and lookup(fs, ('op', ev[4]), 'odd') is False)


def check_method(rep, f, res):
    name = f.name
    where = f.where

    def ob(rule, ok, detail, path=None):
        inst = '%s::%s' % (LOCK, name)
        if path is not None and not ok:
            detail += ' [path lines %s]' % pathflow.path_lines(f, path)
        rep.ob(rule, inst, ok, where, detail)
        return ok

    exits = res.exits
    if not exits:
        ob('L5-progress', False, 'no path reaches the end of the method (spin loop without exit)')
        return
    if name in ('start_write', 'try_start_write', 'try_upgrade_to_write'):
        all_ok = True
        for (env, fs, tr, ret), path in exits:
            eff = effective(tr, fs)
            if ret is None and f.d['ret'] == 'void':
                ret = 'void'
            success = (ret == 'void') or ret is True
            if name == 'start_write' and ret != 'void':
                all_ok &= ob('L1-acquire-odd-from-even', False, 'unexpected return value %r' % (ret,), path)
                continue
            if success:
                ok = len(eff) == 1 and is_acquire_rmw(eff[0], fs)
                if ok and name == 'try_upgrade_to_write':
                    ok = lookup(fs, ('op', eff[0][4]), 'eqlease') is True
                all_ok &= ob('L1-acquire-odd-from-even', ok,
                             'success exit whose effective atomic events are %s; required: exactly one fetch_or(1, acquire) that '
                             'returned an even version%s' % (fmt_trace(eff), ' equal to the lease' if name == 'try_upgrade_to_write' else ''), path)
            elif ret is False:
                # failure: the lock word must be exactly as found: nothing effective, or an own acquire undone by abort_write
                ok = len(eff) == 0 or (len(eff) == 2 and is_acquire_rmw(eff[0], fs) and eff[1] == ('call', 'abort_write')) or (
                    len(eff) == 2 and is_acquire_rmw(eff[0], fs) and eff[1][0] == 'rmw' and eff[1][1] == '-' and eff[1][2] == ('const', 1)
                    and eff[1][3] in atomics.RELEASE_OK)
                if ok and len(eff) == 2 and name == 'try_upgrade_to_write':
                    ok = lookup(fs, ('op', eff[0][4]), 'eqlease') is False
                all_ok &= ob('L2-failure-leaves-word-unchanged', ok,
                             'failure exit with effective atomic events %s; required: none, or own acquire undone by abort_write' % fmt_trace(eff), path)
            else:
                all_ok &= ob('L1-acquire-odd-from-even', False, 'return value %r not decided by the observed version' % (ret,), path)
        if name != 'start_write':
            ob('L1-both-outcomes', any(s[0][3] is True for s in exits) and any(s[0][3] is False for s in exits),
               'method must be able to report success and failure')
    elif name in ('end_write', 'abort_write'):
        want = '+' if name == 'end_write' else '-'
        for (env, fs, tr, ret), path in exits:
            ok = len(tr) == 1 and tr[0][0] == 'rmw' and tr[0][1] == want and tr[0][2] == ('const', 1) and tr[0][3] in atomics.RELEASE_OK
            ob('L3-release', ok, 'events %s; required: exactly one fetch_%s(1) with release order' % (fmt_trace(tr), 'add' if want == '+' else 'sub'), path)
    elif name == 'start_read':
        for (env, fs, tr, ret), path in exits:
            ok = all(ev[0] == 'load' and ev[1] in atomics.ACQUIRE_OK for ev in tr) and len(tr) >= 1
            ok = ok and isinstance(ret, tuple) and ret[0] == 'lease' and ret[1][0] == 'op' and lookup(fs, ret[1], 'odd') is False \
                and ret[1][1] == tr[-1][2]
            ob('L4-read-lease-even', ok, 'events %s, returns %r; required: only acquire loads, lease = last load, known even' % (fmt_trace(tr), ret), path)
    elif name in ('validate', 'end_read'):
        for (env, fs, tr, ret), path in exits:
            if isinstance(ret, tuple) and ret[0] == 'callret':
                ok = ret[1] == 'validate' and ret[2] is True and list(tr) == [('call', 'validate')] and name == 'end_read'
                ob('L4-validate-equality', ok, 'delegates to %s (events %s)' % (ret[1], fmt_trace(tr)), path)
                continue
            loads = [ev for ev in tr if ev[0] == 'load']
            muts = [ev for ev in tr if ev[0] not in ('load', 'fence')]
            ok = len(loads) == 1 and not muts
            if ok:
                ld = loads[0]
                fenced = any(ev[0] == 'fence' and ev[1] in atomics.ACQUIRE_OK for ev in tr[:tr.index(ld)])
                ok = (fenced or ld[1] in atomics.ACQUIRE_OK) and lookup(fs, ('op', ld[2]), 'eqlease') == ret
            ob('L4-validate-equality', ok, 'events %s, returns %r; required: acquire fence (or acquire load) then one load compared '
               'for equality with the lease' % (fmt_trace(tr), ret), path)
    elif name == 'is_write_locked':
        for (env, fs, tr, ret), path in exits:
            loads = [ev for ev in tr if ev[0] == 'load']
            ok = len(loads) == 1 and len(tr) == 1 and lookup(fs, ('op', loads[0][2]), 'odd') == ret
            ob('L4-is-write-locked', ok, 'events %s returns %r; required: true iff the loaded version is odd' % (fmt_trace(tr), ret), path)


def check_loops(rep, f):
    """L5: every spin loop re-reads the atomic inside the loop"""
    dom, succ, pred, reach = pathflow.dominators(f)
    blocks = {b['b']: b for b in f.cfg['blocks']}
    n = 0
    for b in reach:
        for h in succ[b]:
            if h in dom[b]:      # back edge b -> h
                body, stack = {h}, [b]
                while stack:
                    x = stack.pop()
                    if x in body:
                        continue
                    body.add(x)
                    stack.extend(pred[x])
                has = False
                for x in body:
                    for e in blocks[x]['e']:
                        nd = f.node(e) if isinstance(e, int) else None
                        a = atomics.atomic_op(nd) if nd else None
                        if a and a.get('objkey') == FIELD and a['kind'] in ('load', 'rmw', 'cas'):
                            has = True
                n += 1
                rep.ob('L5-progress', '%s::%s/loop' % (LOCK, f.name), has, f.where,
                       '' if has else 'spin loop does not re-read the version inside the loop')
    return n


EXPECTED = ('start_read', 'validate', 'end_read', 'start_write', 'try_start_write', 'try_upgrade_to_write',
            'abort_write', 'end_write', 'is_write_locked')


def analyse_unit(rep, u, label=''):
    fs = [f for f in u.functions if f.d.get('cls') == LOCK and not f.d.get('ctor')]
    names = {f.name for f in fs}
    for f in fs:
        if f.name not in EXPECTED:
            muts = [a for a in atomics.atomic_ops_in(f.body) if a.get('objkey') == FIELD and a['kind'] not in ('load',)]
            if muts:
                rep.analysis_broken('%s::%s mutates the version but is not a known protocol method' % (LOCK, f.name))
            continue
        try:
            res = pathflow.run(f, LockClient())
        except facts.Broken as e:
            rep.analysis_broken(str(e))
            continue
        check_method(rep, f, res)
        check_loops(rep, f)
    return names


MUTANTS = [
    ('end_write-relaxed', 'version.fetch_add(1, std::memory_order_release);', 'version.fetch_add(1, std::memory_order_relaxed);', 'L3'),
    ('abort_write-adds', 'version.fetch_sub(1, std::memory_order_release);', 'version.fetch_add(1, std::memory_order_release);', 'L3'),
    ('start_write-spin-on-load', """            // get an updated version
            v = version.fetch_or(0x1, std::memory_order_acquire);""", """            // get an updated version
            v = version.load(std::memory_order_acquire);""", 'L1'),
    ('upgrade-no-abort', """        // if there was, undo write update
        abort_write();""", """        // if there was, undo write update""", 'L2'),
    ('upgrade-ignores-writer', "        if (v & 0x1) return false;  // there is another writer already", "", 'L'),
    ('validate-ordered', 'return lease.version == version.load(std::memory_order_relaxed);', 'return lease.version >= version.load(std::memory_order_relaxed);', 'L4'),
    ('validate-no-fence', '        std::atomic_thread_fence(std::memory_order_acquire);\n        return lease.version', '        return lease.version', 'L4'),
    ('start_read-no-wait', """        while ((v & 0x1) == 1) {
            // wait for a moment
            wait();
            // get an updated version
            v = version.load(std::memory_order_acquire);
        }

        // done
        return Lease(v);""", """        // done
        return Lease(v);""", 'L4'),
    ('try_start_write-or2', """    bool try_start_write() {
        auto v = version.fetch_or(0x1, std::memory_order_acquire);""", """    bool try_start_write() {
        auto v = version.fetch_or(0x2, std::memory_order_acquire);""", 'L'),
    ('lease-narrower-than-version', 'std::atomic<int> version{0};', 'std::atomic<long> version{0};', 'L0'),
    ('start_write-spin-no-reread', """            wait();
            // get an updated version
            v = version.fetch_or(0x1, std::memory_order_acquire);
        }

        // done
    }""", """            wait();
        }

        // done
    }""", 'L5'),
]


def analyse(rep):
    src = os.path.join(facts.VERIF, 'tu', 'lock_only.cpp')
    par, = facts.extract([(src, r'utility/ParallelUtil\.h$', LOCK)])
    seq, = facts.extract([(src, r'utility/ParallelUtil\.h$', LOCK, facts.compile_flags(openmp=False))])
    rep.add_units([par, seq])
    rec = par.record(LOCK)
    if rec is None:
        rep.analysis_broken('record %s not found' % LOCK)
        return
    fld = [x for x in rec['fields'] if x['name'] == FIELD]
    hdr = 'src/include/souffle/utility/ParallelUtil.h'
    ok = bool(fld) and fld[0]['t'] in ('std::atomic<int>', 'std::atomic<unsigned int>', 'std::atomic<long>', 'std::atomic<unsigned long>')
    rep.ob('L0-version-atomic', '%s::version' % LOCK, ok, '%s:%s' % (hdr, fld[0]['l'] if fld else rec['line']),
           'lock word must be a std::atomic integer' if not ok else '')
    if fld and fld[0].get('init') is not None:
        lits = [int(n['val']) for n in walk(fld[0]['init']) if n['k'] == 'IntegerLiteral']
        ok = bool(lits) and lits[0] % 2 == 0
        rep.ob('L0-initial-even', '%s::version' % LOCK, ok, '%s:%s' % (hdr, fld[0]['l']),
               '' if ok else 'initial version %s is not even (a fresh lock would look write-locked)' % lits)
    # the lease must store the version at full width: a narrower lease compares unequal for ever once the
    # version exceeds its range (validate / try_upgrade_to_write then never succeed again)
    lease = [r for r in par.records if r['name'] == 'Lease' and LOCK in r['qname']]
    lf = [x for x in (lease[0]['fields'] if lease else []) if x['name'] == 'version']
    if fld and lf:
        vt = fld[0]['t'][len('std::atomic<'):-1]
        ok = lf[0]['t'] == vt
        rep.ob('L0-lease-width', '%s::Lease::version' % LOCK, ok, '%s:%s' % (hdr, lf[0]['l']),
               '' if ok else 'the lease stores the version as `%s` but the lock word is `%s`: leases taken after the version leaves the '
               'range of the lease type never validate or upgrade again' % (lf[0]['t'], vt))
    else:
        rep.analysis_broken('Lease::version field not found')
    names = analyse_unit(rep, par)
    missing = [n for n in EXPECTED if n not in names]
    if missing:
        rep.analysis_broken('protocol methods not found: %s' % missing)
    seqnames = {f.name for f in seq.functions if f.d.get('cls') == LOCK and not f.d.get('ctor')}
    rep.ob('L6-sequential-api-parity', LOCK + '/sequential', set(EXPECTED) <= seqnames, hdr,
           '' if set(EXPECTED) <= seqnames else 'sequential variant lacks %s' % sorted(set(EXPECTED) - seqnames))
    # the sequential variant must grant every request (single-threaded: always succeed / always valid)
    for f in seq.functions:
        if f.d.get('cls') == LOCK and f.d['ret'] == 'bool':
            rets = [strip(kids(n)[0], casts=True) for n in f.walk() if n['k'] == 'ReturnStmt' and kids(n)]
            ok = bool(rets) and all(r['k'] == 'CXXBoolLiteralExpr' and r['val'] == 1 for r in rets)
            rep.ob('L6-sequential-grants', '%s::%s/sequential' % (LOCK, f.name), ok, f.where, '' if ok else 'sequential variant must return true')


def run(tier='quick'):
    rep = Report('C30', tier)
    rep.explanation = ('static abstract interpretation of every method of OptimisticReadWriteLock over its clang CFG: atomic events on '
                       '`version` (operation, constant, memory order) and branch facts (parity of the observed version, equality with '
                       'the lease) are collected per path; each path summary must match the protocol lemma for that method '
                       '(acquire makes odd from even; failure leaves the word unchanged; release adds/subtracts one; read lease even; '
                       'validate is an equality test after an acquire fence; spin loops re-read); plus API parity of the sequential variant. '
                       'All paths of all 9 methods are enumerated (exhaustive over the finite abstract state space).')
    rep.assumptions = ['the standard rely/guarantee argument: lemmas L1-L4 imply writer mutual exclusion and reader validation; not re-proved here',
                       'std::atomic<int> operations behave per the C++ memory model; clients keep the pairing discipline (checked under C25/C26)']
    try:
        analyse(rep)
        from engine import mutate
        ms = [mutate.Mutant(n, 'src/include/souffle/utility/ParallelUtil.h', o, w, e) for (n, o, w, e) in MUTANTS]
        if tier != 'thorough':
            ms = ms[:3]       # quick: three positive controls; thorough: the whole mutant set
        mutate.run_mutants(rep, 'C30', ms, analyse)
    except facts.Broken as e:
        rep.analysis_broken(str(e))
    rep.exhaustive = True
    rep.floor('all-rules', len(rep.obligations), 20)
    return rep.finish()

"""C26 -- deletable B-tree: the insert path is a hand-copied sibling of BTree.h and must satisfy the
C25 rules independently; a cross-check reports any lock event present in one sibling's function and
absent from the other's; erase takes no lock, therefore must never run concurrently (C03-R1 guard)."""
from props import C25
from props import parallel_guard

MUTANTS = [(n, o, w, e) for (n, o, w, e) in C25.MUTANTS_BTREE]
MUTANTS.insert(1, ('right-sibling-last-child-not-moved', '''            for (size_type i = to_move; i <= right->getNumElements(); ++i) {
                auto child = right_children[i];''', '''            for (size_type i = to_move; i < right->getNumElements(); ++i) {
                auto child = right_children[i];''', 'R7'))


def run(tier='quick'):
    def extra(rep):
        parallel_guard.check(rep, need=('Erase',))
        parallel_guard.erase_reachability(rep)
    return C25.run_for('C26', ('btree_delete',), 'src/include/souffle/datastructure/BTreeDelete.h',
                       'static path-sensitive typestate analysis of the btree_delete insert path (same rules as C25, analysed '
                       'independently on BTreeDelete.h), a sibling cross-check of lock events against BTree.h, and the structural '
                       'guard that makes lock-free erase safe: ram::Erase is never inside a parallelised query and erase is '
                       'reachable only through the BTREE_DELETE dispatch. The sorted-set behaviour of erase itself (merge / '
                       'rebalance arithmetic over all histories) is NOT decided.',
                       dict(acquire=9, release=9, transfer=2, drain=2), MUTANTS, sibling=('btree', 'btree_delete'), tier=tier,
                       extra=extra)

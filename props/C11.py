"""C11 -- subsumption leaves exactly the non-dominated derivable tuples: role typing of the
subsumptive fragment of the generator (getAtomName table, reject/delete sequence, erase guards)."""
from engine import facts, mutate
from engine.report import Report
from props import seminaive as S, parallel_guard

MUTANTS = [
    ('subsumption-interleaved-per-relation', S.UT, '''        appendStmt(loopBody, mk<ram::Sequence>(std::move(relClauses)));
    }

    // translating subsumptive clauses
    for (const ast::Relation* rel : scc) {
        auto relClauses = translateSubsumptiveRecursiveClauses(scc, rel);''', '''        appendStmt(loopBody, mk<ram::Sequence>(std::move(relClauses)));
        relClauses = translateSubsumptiveRecursiveClauses(scc, rel);''', 'R2'),
    ('dominating-head-reads-new-in-delete', S.UTILS, '                case SubsumeDeleteCurrentDelta: return getDeltaRelationName(atom->getQualifiedName());',
     '                case SubsumeDeleteCurrentDelta: return getNewRelationName(atom->getQualifiedName());', 'R1'),
    ('reject-not-cleared', S.UT, '    appendStmt(code, mk<ram::Clear>(rejectRelation));\n', '', 'R2'),
    ('delta-from-new-without-reject-filter', S.UT, 'appendStmt(code, generateMergeRelationsWithFilter(rel, deltaRelation, newRelation, rejectRelation));',
     'appendStmt(code, generateMergeRelations(rel, deltaRelation, newRelation));', 'R2'),
    ('delete-pass-always-current', S.UT, '(version >= 1) ? SubsumeDeleteCurrentCurrent : SubsumeDeleteCurrentDelta', '(version >= 0) ? SubsumeDeleteCurrentCurrent : SubsumeDeleteCurrentDelta', 'R2'),
    ('no-distinct-for-reject-new-new', S.CT, 'if (mode == SubsumeRejectNewNew || mode == SubsumeDeleteCurrentCurrent) {', 'if (mode == SubsumeDeleteCurrentCurrent) {', 'R2'),
    ('nonrecursive-delete-skipped-without-plain-rules', S.UT, '''    if (!context->hasSubsumptiveClause(rel.getQualifiedName())) {
        return mk<ram::Sequence>(std::move(code));
    }

    std::string mainRelation = getConcreteRelationName(rel.getQualifiedName());
    std::string deleteRelation = getDeleteRelationName(rel.getQualifiedName());''', '''    if (!context->hasSubsumptiveClause(rel.getQualifiedName())) {
        return mk<ram::Sequence>(std::move(code));
    }
    if (context->getProgram()->getClauses(rel).size() < 2) {
        return mk<ram::Sequence>(std::move(code));
    }

    std::string mainRelation = getConcreteRelationName(rel.getQualifiedName());
    std::string deleteRelation = getDeleteRelationName(rel.getQualifiedName());''', 'R2'),
    ('erase-may-be-parallel', 'src/ram/transform/Parallel.cpp', '        if (visitExists(query, [&](const Erase&) { return true; })) return;\n', '', 'C03R1'),
]


def analyse(rep):
    sh = S.Shapes(rep)
    n = S.rule_atom_name(rep, sh, 'sub')
    rep.floor('R1-abstract-inputs', n or 0, 30)
    S.rule_subsumption_sequence(rep, sh)
    S.rule_loop_body_phases(rep, sh)
    S.rule_table_updates(rep, sh, want=('subsumptive',))
    S.rule_exit(rep, sh)
    # R3: Erase is never parallelised (erase takes no lock) -- shared rule C03-R1
    parallel_guard.check(rep, need=('Erase',))


def run(tier='quick'):
    rep = Report('C11', tier)
    rep.explanation = ('static role typing of the subsumptive fragment of the AST->RAM generator: getAtomName enumerated exhaustively over '
                       '{recursive} x 4 subsumption modes x atom kinds (head -> Reject/Delete, dominated head -> New/Main, dominating head -> '
                       'New/Main/Delta by mode); the per-iteration sequence Clear(Delta); reject passes; Delta := New \\ Reject; Clear(Reject); '
                       'Clear(New); delete passes (CurrentDelta for version 0, CurrentCurrent after); Main -= Delete; Clear(Delete); a tuple is never '
                       'compared with itself in the two same-version modes; ram::Erase is never parallelised.')
    rep.assumptions = ['decides the shape of the generated reject/delete scheme; does NOT decide order-independence of the result on data']
    try:
        analyse(rep)
        ms = [mutate.Mutant(n, f, o, w, e) for (n, f, o, w, e) in MUTANTS]
        mutate.run_mutants(rep, 'C11', ms if tier == 'thorough' else ms[:2] + [m for m in ms if m.name == 'nonrecursive-delete-skipped-without-plain-rules'], analyse)
    except facts.Broken as e:
        rep.analysis_broken(str(e))
    rep.exhaustive = True
    return rep.finish()

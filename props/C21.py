"""C21 -- the C++ embedding API is consistent with file-based runs.  Behaviour over call histories is not decidable
statically; two structural necessary conditions are:

R1  THE API WRAPPER IS A PURE DELEGATE.  RelationWrapper<RelType> (CompiledSouffle.h) answers insert / contains / size / purge /
    begin / end by exactly one call of the same-named member of the wrapped relation, returns that call's result, and converts
    tuples column by column over the whole arity (loop bound is the constant Arity, same index on both sides); the iterator
    wrapper advances / compares the wrapped iterator and copies all Arity columns after rewinding the API tuple.  Hence
    membership, size and iteration seen through the API are those of the relation the generated program computes with.
R2  BULK IO OF THE API IS THE FILE-BASED IO.  Synthesiser::generateCode builds loadAll / printAll from the same ram::IO nodes
    the run function executes (input -> load set; output and printsize -> store set), with the same reader / writer protocol
    (IOSystem::getReader(..)->readAll(*rel) / getWriter(..)->writeAll(*rel)), the node's own directive map, and the same
    directory override keys ("fact-dir" / "output-dir") as the IO statement emitter (CodeEmitter::visit_(IO))."""
import os, re
from engine import facts, tables, mutate
from engine.facts import kids, walk, strip, is_call, call_args, call_obj, expr_key
from engine.report import Report

TU = os.path.join(facts.VERIF, 'tu', 'api_instances.cpp')
HDR = 'src/include/souffle/CompiledSouffle.h'
SYN = 'src/synthesiser/Synthesiser.cpp'
DELEGATES = {'insert': ('insert', True), 'contains': ('contains', True), 'size': ('size', False), 'purge': ('purge', False),
             'begin': ('begin', False), 'end': ('end', False)}


def copy_loop(f, dst_is_local):
    """the `for (i = 0; i < Arity; i++) dst[i] = src[i];` loop: returns (ok, why)"""
    loops = [m for m in f.walk() if m['k'] == 'ForStmt']
    if len(loops) != 1:
        return False, 'expected exactly one copy loop, found %d' % len(loops)
    lp = loops[0]
    roles = dict(zip(lp.get('roles', []), lp['c'])) if lp.get('roles') else None
    cond = roles.get('cond') if roles else None
    if cond is None:
        return False, 'loop without condition'
    c = strip(cond, casts=True)
    if not (c['k'] == 'BinaryOperator' and c.get('op') == '<'):
        return False, 'loop condition is not `i < Arity`'
    bound = strip(kids(c)[1], casts=True)
    if not (bound.get('name') == 'Arity' or expr_key(bound).endswith('Arity')):
        return False, 'loop bound is %s, not the arity of the relation' % expr_key(bound)
    ivar = strip(kids(c)[0], casts=True).get('name')
    init = roles.get('init')
    zero = init is not None and any(m['k'] == 'VarDecl' and m.get('name') == ivar and kids(m) and str(strip(kids(m)[0], casts=True).get('cv', strip(kids(m)[0], casts=True).get('val'))) == '0' for m in walk(init))
    if not zero:
        return False, 'copy loop does not start at column 0'
    asg = [m for m in walk(roles.get('body')) if (m['k'] == 'BinaryOperator' and m.get('op') == '=') or (m['k'] == 'CXXOperatorCallExpr' and m.get('op') == '=')]
    if len(asg) != 1:
        return False, 'loop body is not a single column assignment'
    a = asg[0]
    l, r = (kids(a) if a['k'] == 'BinaryOperator' else call_args(a))[:2]

    def index_of(e):
        e = strip(e, casts=True)
        if e['k'] == 'CXXOperatorCallExpr' and e.get('op') == '[]':
            aa = call_args(e)
            return expr_key(strip(aa[0], casts=True)), strip(aa[1], casts=True).get('name')
        if e['k'] == 'ArraySubscriptExpr':
            return expr_key(strip(kids(e)[0], casts=True)), strip(kids(e)[1], casts=True).get('name')
        return None, None
    (lb, li), (rb, ri) = index_of(l), index_of(r)
    if li != ivar or ri != ivar:
        return False, 'columns are not copied index by index (%s[%s] = %s[%s])' % (lb, li, rb, ri)
    return True, (lb, rb)


def rule_wrapper(rep, u):
    fs = {f.name: f for f in u.functions if f.d.get('cls') == 'RelationWrapper' and not f.is_lambda}
    n = 0
    for name, (target, has_tuple) in DELEGATES.items():
        f = fs.get(name)
        if f is None:
            rep.analysis_broken('RelationWrapper::%s not found' % name)
            continue
        n += 1
        calls = [m for m in f.walk() if m['k'] == 'CXXMemberCallExpr' and expr_key(call_obj(m)).split('.')[-1] == 'relation']
        ok = len(calls) == 1 and calls[0].get('cn') == target
        why = '' if ok else 'delegates to %s (expected exactly one call of relation.%s)' % ([c.get('cn') for c in calls], target)
        if ok and f.d.get('ret', 'void') != 'void':
            # the call's value is what is returned (possibly wrapped into the API iterator)
            rets = [m for m in f.walk() if m['k'] == 'ReturnStmt']
            ok = len(rets) == 1 and any(x is calls[0] for x in walk(rets[0]))
            if ok:
                # ... unmodified: between the return and the call there are only conversions / wrapper constructions
                for a in f.ancestors(calls[0]):
                    if a is rets[0]:
                        break
                    if a['k'] in ('BinaryOperator', 'UnaryOperator', 'ConditionalOperator', 'CompoundAssignOperator'):
                        ok = False
            why = '' if ok else 'the result of relation.%s is not (unmodified) what the wrapper returns' % target
        if ok and has_tuple:
            good, info = copy_loop(f, True)
            if not good:
                ok, why = False, info
            else:
                arg = strip(call_args(calls[0])[0], casts=True)
                p0 = f.d['params'][0]['name']
                ok = info == (arg.get('name'), p0)
                why = '' if ok else 'the tuple handed to relation.%s is not the column-wise copy of the API tuple (copy %s <- %s, passed %s)' % (
                    target, info[0], info[1], expr_key(arg))
        rep.ob('R1-wrapper-delegates', 'RelationWrapper::%s' % name, ok, f.where, why)
    rep.floor('R1-wrapper-methods', n, 6)
    # iterator wrapper
    its = {f.name: f for f in u.functions if f.d.get('cls') == 'iterator_wrapper' and not f.is_lambda}
    f = its.get('operator*')
    if f is None or 'operator++' not in its or 'equal' not in its:
        rep.analysis_broken('RelationWrapper::iterator_wrapper members not found')
        return
    good, info = copy_loop(f, False)
    rew = [m for m in f.walk() if is_call(m, 'rewind')]
    lp = [m for m in f.walk() if m['k'] == 'ForStmt']
    ok = good and bool(rew) and bool(lp) and rew[0].get('l', 0) <= lp[0].get('l', 0)
    src_ok = False
    if good:
        # the source of the copy is the dereferenced wrapped iterator
        vd = [m for m in f.walk() if m['k'] == 'VarDecl' and m.get('name') == info[1]]
        src_ok = bool(vd) and any(x.get('member') == 'it' or x.get('name') == 'it' for x in walk(vd[0]))
    rep.ob('R1-iterator-copies-all-columns', 'iterator_wrapper::operator*', ok and src_ok, f.where,
           '' if ok and src_ok else (info if not good else 'the API tuple is not rewound before / filled from the wrapped iterator\'s value'))
    inc = its['operator++']
    ok = any(m['k'] == 'UnaryOperator' and m.get('op', '').startswith('++') or m.get('op', '').endswith('++') for m in inc.walk() if m['k'] == 'UnaryOperator') or \
        any(m['k'] == 'CXXOperatorCallExpr' and m.get('op') == '++' for m in inc.walk())
    tgt = [expr_key(x) for m in inc.walk() if m['k'] in ('UnaryOperator', 'CXXOperatorCallExpr') for x in kids(m)[-1:]]
    ok = ok and any(t.split('.')[-1] == 'it' for t in tgt)
    rep.ob('R1-iterator-advances-wrapped', 'iterator_wrapper::operator++', ok, inc.where, '' if ok else 'operator++ does not advance the wrapped iterator')
    eq = its['equal']
    cmp_ = [m for m in eq.walk() if (m['k'] == 'BinaryOperator' or m['k'] == 'CXXOperatorCallExpr') and m.get('op') == '==']
    ok = len(cmp_) == 1 and sorted(expr_key(strip(x, casts=True)).split('.')[-1] for x in (kids(cmp_[0]) if cmp_[0]['k'] == 'BinaryOperator' else call_args(cmp_[0]))) == ['it', 'it']
    rep.ob('R1-iterator-equality-is-wrapped-equality', 'iterator_wrapper::equal', ok, eq.where, '' if ok else 'iterator equality is not equality of the wrapped iterators')


def rule_bulk_io(rep, gen, emit):
    g = [f for f in gen.functions if f.name == 'generateCode' and not f.is_lambda]
    lam = [f for f in gen.functions if f.is_lambda and 'generateCode' in f.qname and f.d['params'] and f.d['params'][0]['t'].replace('const ', '').strip(' &').endswith('ram::IO')]
    io = [f for f in emit.functions if f.name == 'visit_' and len(f.d['params']) > 1 and f.d['params'][1]['t'].replace('const ', '').strip(' &').endswith('ram::IO')]
    if not g or not lam or not io:
        rep.analysis_broken('C21: generateCode / IO collector / visit_(IO) not found (%d/%d/%d)' % (len(g), len(lam), len(io)))
        return
    g, lam, io = g[0], lam[0], io[0]
    # classification of IO nodes
    cls = {}
    for n in lam.walk():
        if n['k'] == 'IfStmt':
            lits = sorted(m.get('str') for m in walk(kids(n)[0]) if m['k'] == 'StringLiteral')
            then = kids(n)[1]
            ins = sorted({expr_key(call_obj(m)) for m in walk(then) if is_call(m, 'insert') and 'IOs' in expr_key(call_obj(m))})
            # only the statements of THIS if (not the nested else-if)
            then_only = [m for m in walk(then)]
            if lits and ins:
                for l in lits:
                    cls.setdefault(l, set()).update(ins)
    want = {'input': {'loadIOs'}, 'output': {'storeIOs'}, 'printsize': {'storeIOs'}}
    for op, sets in want.items():
        ok = cls.get(op) == sets
        rep.ob('R2-api-io-sets', 'generateCode/%s' % op, ok, lam.where, '' if ok else 'ram::IO nodes with operation "%s" are collected into %s (expected %s): the API\'s bulk IO differs from the run function\'s' % (
            op, sorted(cls.get(op, [])), sorted(sets)))
    # the two loops of generateCode building printAll / loadAll
    def loop_over(name):
        return [m for m in g.walk() if m['k'] == 'CXXForRangeStmt' and any(x.get('name') == name for x in walk(kids(kids(m)[0])[0]))]
    def lits_of(nodes):
        return ''.join(m.get('str', '') for n in nodes for m in walk(n) if m['k'] == 'StringLiteral')
    io_lits = lits_of([io.body])
    for (setname, api, reader, allfn, key) in (('loadIOs', 'loadAll', 'getReader', 'readAll', 'fact-dir'), ('storeIOs', 'printAll', 'getWriter', 'writeAll', 'output-dir')):
        loops = [l for l in loop_over(setname) if any(x.get('name') == api for x in walk(l))]
        if not loops:
            rep.analysis_broken('generateCode: loop building %s from %s not found' % (api, setname))
            continue
        txt = lits_of([kids(loops[0])[6]])
        uses_node_directives = any(is_call(m, 'getDirectives') for m in walk(kids(loops[0])[6]))
        ok = ('IOSystem::getInstance().%s(' % reader) in txt and (')->%s(*' % allfn) in txt and ('directiveMap["%s"]' % key) in txt and uses_node_directives
        why = []
        if ('IOSystem::getInstance().%s(' % reader) not in txt or (')->%s(*' % allfn) not in txt:
            why.append('%s does not go through IOSystem::%s(..)->%s(*rel)' % (api, reader, allfn))
        if ('directiveMap["%s"]' % key) not in txt:
            why.append('%s does not override "%s"' % (api, key))
        if not uses_node_directives:
            why.append('%s does not use the IO node\'s own directive map' % api)
        rep.ob('R2-api-bulk-io-protocol', 'generateCode/%s' % api, ok, g.loc(loops[0]), '; '.join(why))
        # sibling: the IO statement emitter uses the same protocol and key
        ok2 = ('IOSystem::getInstance().%s(' % reader) in io_lits and (')->%s(*' % allfn) in io_lits and ('directiveMap["%s"]' % key) in io_lits
        rep.ob('R2-api-bulk-io-protocol', 'visit_(IO)/%s' % reader, ok2, io.where, '' if ok2 else 'the IO statement emitter no longer uses %s / %s / "%s" (the API sibling does)' % (reader, allfn, key))


def analyse(rep):
    u, gen, emit = facts.extract([(TU, r'souffle/CompiledSouffle\.h$', r'RelationWrapper'),
                                  (SYN, r'synthesiser/Synthesiser\.cpp$', r'Synthesiser::generateCode'),
                                  (SYN, r'synthesiser/Synthesiser\.cpp$', r'CodeEmitter::visit_')])
    rep.add_units([u, gen, emit])
    rule_wrapper(rep, u)
    rule_bulk_io(rep, gen, emit)


MUTANTS = [
    ('contains-copies-one-column-less', HDR, '''        assert(arg.size() == Arity && "wrong tuple arity");
        for (std::size_t i = 0; i < Arity; i++) {
            t[i] = arg[i];
        }
        return relation.contains(t);''', '''        assert(arg.size() == Arity && "wrong tuple arity");
        for (std::size_t i = 0; i + 1 < Arity; i++) {
            t[i] = arg[i];
        }
        return relation.contains(t);''', 'R1'),
    ('printall-skips-printsize', SYN, '        } else if (op == "printsize" || op == "output") {\n            storeRelations.insert(io.getRelation());',
     '        } else if (op == "output") {\n            storeRelations.insert(io.getRelation());', 'R2'),
    ('size-of-wrapper-not-relation', HDR, '        return relation.size();', '        return relation.size() - numAuxAttribs;', 'R1'),
    ('loadall-ignores-directory', SYN, '        loadAll.body() << R"_(directiveMap["fact-dir"] = inputDirectoryArg;)_";', '        loadAll.body() << R"_(directiveMap["factdir"] = inputDirectoryArg;)_";', 'R2'),
]


def run(tier='quick'):
    rep = Report('C21', tier)
    rep.explanation = ('static delegation / sibling-agreement analysis of the embedding API: RelationWrapper\'s insert/contains/size/purge/begin/end are '
                       'single calls of the wrapped relation\'s same-named member with a full-arity column-wise tuple copy, the iterator wrapper advances, '
                       'compares and copies from the wrapped iterator; generateCode builds loadAll/printAll from the same ram::IO nodes, protocol and '
                       'directory-override keys as the IO statement emitter.')
    rep.assumptions = ['results over API call histories (insert/run/purge sequences) are NOT decided; the wrapped relation\'s own semantics is C08/C25-C28']
    try:
        analyse(rep)
        ms = [mutate.Mutant(n, f, o, w, e) for (n, f, o, w, e) in MUTANTS]
        mutate.run_mutants(rep, 'C21', ms if tier == 'thorough' else ms[:2], analyse)
    except facts.Broken as e:
        rep.analysis_broken(str(e))
    return rep.finish()

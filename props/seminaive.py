"""Shared role-typing rules over the AST->RAM translator (E3 roleflow), used by C01, C09, C11, C12,
C20, C23: the generator functions of ast2ram/seminaive/UnitTranslator.cpp, ClauseTranslator.cpp and
ast2ram/utility/Utils.cpp are evaluated symbolically; rules are statements about the RAM trees
(with relation names replaced by their role) that every path of a generator returns."""
import itertools
from engine import facts, roleflow
from engine.roleflow import subtrees, find_mk, flatten, show
from engine.facts import kids, walk, strip, is_call, call_args, expr_key

UT = 'src/ast2ram/seminaive/UnitTranslator.cpp'
CT = 'src/ast2ram/seminaive/ClauseTranslator.cpp'
UTILS = 'src/ast2ram/utility/Utils.cpp'
JOBS = [(UT, r'seminaive/UnitTranslator\.cpp$', r'UnitTranslator::'),
        (CT, r'seminaive/ClauseTranslator\.cpp$', r'ClauseTranslator::'),
        (UTILS, r'ast2ram/utility/Utils\.cpp$', r'ast2ram::')]

MODES = ('DEFAULT', 'Auxiliary', 'SubsumeRejectNewNew', 'SubsumeRejectNewCurrent', 'SubsumeDeleteCurrentDelta', 'SubsumeDeleteCurrentCurrent')
ATOMS = ('head', 'dominated', 'dominating', 'scc_v', 'scc_v1', 'other')


class Shapes:
    def __init__(self, rep):
        self.rep = rep
        ut, ct, ul = facts.extract(JOBS)
        rep.add_units([ut, ct, ul])
        self.units = {'UnitTranslator': ut, 'ClauseTranslator': ct, 'Utils': ul}
        self.cache = {}
        self.nsites = 0

    def func(self, unit, name, nparams=None):
        fs = [f for f in self.units[unit].functions if f.name == name and not f.is_lambda and (nparams is None or len(f.d['params']) == nparams)]
        if not fs:
            self.rep.analysis_broken('%s::%s not found' % (unit, name))
            return None
        return fs[0]

    def paths(self, unit, name, nparams=None):
        key = (unit, name, nparams)
        if key not in self.cache:
            f = self.func(unit, name, nparams)
            if f is None:
                self.cache[key] = (None, [])
            else:
                ev, ps = roleflow.evaluate(f)
                self.nsites += len(ev.sites)
                self.cache[key] = (f, ps)
        return self.cache[key]


def role_of(t):
    return t[1] if isinstance(t, tuple) and t and t[0] == 'role' else None


def guard_has(p, text, positive=True):
    """does the path assume `text` (substring of a rendered guard) positively / negatively?"""
    for g in p.guards:
        s = show(g)
        neg = 0
        while s.startswith('!'):
            neg += 1
            s = s[1:]
        if text in s:
            if (neg % 2 == 0) == positive:
                return True
    return False


# ================================================================================================
# C09-R1 / C11-R1: getAtomName decision table (exhaustive over the abstract input space)

def _holds(g, F):
    k = g[0]
    if k == 'not':
        v = _holds(g[1], F)
        return None if v is None else not v
    if k == 'op' and g[1] in ('||', '&&'):
        a, b = _holds(g[2], F), _holds(g[3], F)
        if a is None or b is None:
            return None
        return (a or b) if g[1] == '||' else (a and b)
    if k == 'call' and g[1].startswith('isA<SubsumptiveClause>'):
        return F['kind'] == 'sub'
    if k == 'var' and g[1] == 'isRecursive':
        return F['rec']
    if k == 'op' and g[1] == '==':
        a, b = g[2], g[3]
        for x, y in ((a, b), (b, a)):
            if y == ('var', 'atom'):
                ak = _atom_kind(x)
                if ak is not None:
                    return F['atom'] == ak
            if x == ('var', 'mode') and y[0] == 'enum':
                return F['mode'] == y[1]
        return None
    if k == 'case':
        return F['mode'] in g[2] if g[1] == ('var', 'mode') else None
    if k == 'default':
        return F['mode'] not in g[2] if g[1] == ('var', 'mode') else None
    return None


def _atom_kind(x):
    if x[0] == 'call' and x[1] == 'getHead':
        return 'head'
    if x == ('?', 'body[0]'):
        return 'dominated'
    if x == ('?', 'body[1]'):
        return 'dominating'
    if x[0] == 'call' and x[1] == 'at' and len(x) > 3 and x[3] == 'sccAtoms':
        a = x[2][0]
        if a == ('var', 'version'):
            return 'scc_v'
        if a in (('op', '+', ('var', 'version'), ('int', 1)), ('op', '+', ('int', 1), ('var', 'version'))):
            return 'scc_v1'
    return None


def oracle_plain(F):
    """textbook semi-naive scheme (property C09): version v reads Delta for its v-th SCC atom, Main elsewhere, writes New"""
    if F['rec']:
        if F['atom'] == 'head':
            return 'New'
        if F['atom'] == 'scc_v':
            return 'Delta'
        return 'Main'
    if F['atom'] == 'head' and F['mode'] == 'Auxiliary':
        return 'New'          # lattice relations collect into @new also outside recursion
    return 'Main'


def oracle_subsumptive(F):
    """property C11 / comments of translateSubsumptiveRecursiveClauses"""
    m = F['mode']
    rej = m in ('SubsumeRejectNewNew', 'SubsumeRejectNewCurrent')
    if F['atom'] == 'head':
        return 'Reject' if rej else 'Delete'
    if F['atom'] == 'dominated':
        return 'New' if rej else 'Main'
    if F['atom'] == 'dominating':
        return {'SubsumeRejectNewNew': 'New', 'SubsumeRejectNewCurrent': 'Main', 'SubsumeDeleteCurrentCurrent': 'Main',
                'SubsumeDeleteCurrentDelta': 'Delta'}[m]
    if F['rec'] and F['atom'] == 'scc_v1':
        return 'Delta'
    return 'Main'


def rule_atom_name(rep, sh, fragment):
    """fragment: 'plain' (C09) or 'sub' (C11)"""
    f, paths = sh.paths('Utils', 'getAtomName')
    if f is None:
        return
    n = 0
    for rec, mode, atom in itertools.product((True, False), MODES, ATOMS):
        if fragment == 'plain':
            if mode not in ('DEFAULT', 'Auxiliary') or atom in ('dominated', 'dominating', 'scc_v1'):
                continue
            F = dict(kind='plain', rec=rec, mode=mode, atom=atom)
            want = oracle_plain(F)
        else:
            if not mode.startswith('Subsume') or atom == 'scc_v':
                continue
            F = dict(kind='sub', rec=rec, mode=mode, atom=atom)
            want = oracle_subsumptive(F)
        hits = []
        for p in paths:
            vs = [_holds(g, F) for g in p.guards]
            if any(v is None for v in vs):
                bad = show(p.guards[vs.index(None)])
                if 'sccAtoms' in bad:
                    rep.ob('R1-atom-version-table', 'getAtomName/scc-atom-selector', False, f.where,
                           'the SCC atom that reads a non-Main version is selected by `%s`; it must be the atom at index `version` '
                           '(plain clauses) / `version + 1` (subsumptive clauses)' % bad)
                else:
                    rep.analysis_broken('getAtomName: branch condition outside the abstraction: %s' % bad)
                return
            if all(vs):
                hits.append(p)
        n += 1
        got = [role_of(p.ret) for p in hits]
        ok = len(hits) == 1 and got[0] == want
        rep.ob('R1-atom-version-table', 'getAtomName/%s/%s/%s/%s' % (fragment, 'recursive' if rec else 'non-recursive', mode, atom), ok, f.where,
               '' if ok else 'reads/writes %s; the %s scheme requires %s' % (got, 'semi-naive' if fragment == 'plain' else 'subsumption', want))
    return n


# ================================================================================================
# C09-R2: later-delta exclusion and head filter

def rule_negated_atoms(rep, sh):
    f, paths = sh.paths('ClauseTranslator', 'addBodyLiteralConstraints')
    if f is None:
        return
    for p in paths:
        t = p.ret
        sub = guard_has(p, 'isA<SubsumptiveClause>')
        rec = guard_has(p, 'isRecursive()')
        calls = [x for x in subtrees(t) if x[0] == 'call']
        nd = [x for x in calls if x[1] == 'addNegatedDeltaAtom']
        na = [x for x in calls if x[1] == 'addNegatedAtom']
        label = 'addBodyLiteralConstraints[%s]' % ','.join(show(g)[:28] for g in p.guards[1:])
        if sub or not rec:
            ok = not nd and not na
            rep.ob('R2-delta-exclusion', label, ok, f.where, '' if ok else 'negated (delta) atoms are emitted for a %s clause' % ('subsumptive' if sub else 'non-recursive'))
            continue
        # recursive plain clause: exclusion of Delta for every SCC atom after `version`
        ok = len(nd) == 1
        det = 'no addNegatedDeltaAtom on the recursive path'
        if ok:
            arg = nd[0][2][1]
            lv = [x for x in subtrees(arg) if x[0] == 'loopvar']
            ok = arg[0] == 'call' and arg[1] == 'at' and arg[3] == 'sccAtoms' and len(lv) == 1
            det = 'the excluded atom is %s, not sccAtoms.at(i)' % show(arg)
            if ok:
                start, bound = lv[0][2], lv[0][3].replace(' ', '')
                ok = start in (('op', '+', ('var', 'version'), ('int', 1)), ('op', '+', ('int', 1), ('var', 'version'))) and \
                    bound in ('(i<sccAtoms.size())', '(sccAtoms.size()>i)', '(i!=sccAtoms.size())')
                det = 'the loop ranges over [%s; %s), expected [version+1; sccAtoms.size())' % (show(start), bound)
        rep.ob('R2-delta-exclusion', label, ok, f.where, '' if ok else det)
        if guard_has(p, 'getArity() > 0'):
            ok = len(na) == 1 and any(x[0] == 'call' and x[1] == 'getHead' for x in subtrees(na[0]))
            rep.ob('R2-head-filter', label, ok, f.where, '' if ok else 'a recursive rule does not filter head tuples already present in the full relation')
    for name, role in (('addNegatedDeltaAtom', 'Delta'), ('addNegatedAtom', 'Main')):
        g, ps = sh.paths('ClauseTranslator', name)
        if g is None:
            continue
        for p in ps:
            t = p.ret
            nullary = guard_has(p, 'getArity() == 0') or guard_has(p, 'arity == 0')
            ok = t[0] == 'mk' and t[1] == 'Filter'
            det = 'does not build a Filter'
            if ok:
                cond = t[2][0]
                if nullary:
                    ok = cond[0] == 'mk' and cond[1] == 'EmptinessCheck' and role_of(cond[2][0]) == role
                    det = 'nullary case filters on %s, expected EmptinessCheck(%s)' % (show(cond), role)
                else:
                    ok = cond[0] == 'mk' and cond[1] == 'Negation' and cond[2][0][0] == 'mk' and cond[2][0][1] == 'ExistenceCheck' and \
                        role_of(cond[2][0][2][0]) == role
                    det = 'filters on %s, expected Negation(ExistenceCheck(%s, ...))' % (show(cond)[:120], role)
            rep.ob('R2-negated-atom-shape', '%s/%s' % (name, 'nullary' if nullary else 'n-ary'), ok, g.where, '' if ok else det)


# ================================================================================================
# C09-R3: table updates, exit, preamble / postamble, loop order

def rule_table_updates(rep, sh, want=('plain', 'subsumptive', 'lattice')):
    f, paths = sh.paths('UnitTranslator', 'generateStratumTableUpdates')
    if f is None:
        return
    seen = set()
    for p in paths:
        lattice = guard_has(p, 'getAuxiliaryArity() > 0')
        subs = (not lattice) and not guard_has(p, 'hasSubsumptiveClause', positive=False)
        kind = 'lattice' if lattice else ('subsumptive' if subs else 'plain')
        if kind in seen or kind not in want:
            continue
        seen.add(kind)
        items = flatten(p.ret)
        # the per-relation update is the first foreach item (possibly wrapped in LogRelationTimer)
        upd = items[0] if items else None
        while upd and upd[0] == 'foreach':
            upd = upd[2]
        if upd and upd[0] == 'mk' and upd[1] == 'LogRelationTimer':
            upd = upd[2][0]
        seq = flatten(upd) if upd else []
        sig = [_sig(x) for x in seq]
        if kind == 'plain':
            wantsig = [('merge', 'Main', 'New'), ('Swap', 'Delta', 'New'), ('Clear', 'New')]
        elif kind == 'lattice':
            wantsig = [('Clear', 'Delta'), ('lub', True), ('merge', 'Main', 'Delta')]
        else:
            wantsig = [('merge', 'Main', 'Delta')]
        ok = sig == wantsig
        rep.ob('R3-table-update', 'generateStratumTableUpdates/%s' % kind, ok, f.where,
               '' if ok else 'update sequence is %s; the scheme requires %s' % (sig, wantsig))
        same = all(len({x[2] for x in subtrees(s) if x[0] == 'role'}) <= 1 for s in seq)
        rep.ob('R3-table-update', 'generateStratumTableUpdates/%s/same-relation' % kind, same, f.where, '' if same else 'roles of different relations are mixed in one update')
    for k in want:
        if k not in seen:
            rep.analysis_broken('generateStratumTableUpdates: no path for %s relations' % k)


def _sig(x):
    if x[0] == 'mk' and x[1] in ('Swap', 'Clear', 'MergeExtend'):
        return (x[1],) + tuple(role_of(a) for a in x[2])
    if x[0] == 'call' and x[1] == 'generateMergeRelations':
        return ('merge', role_of(x[2][1]), role_of(x[2][2]))
    if x[0] == 'call' and x[1] == 'generateMergeRelationsWithFilter':
        return ('merge-filter', role_of(x[2][1]), role_of(x[2][2]), role_of(x[2][3]))
    if x[0] == 'call' and x[1] == 'generateEraseTuples':
        return ('erase', role_of(x[2][1]), role_of(x[2][2]))
    if x[0] == 'call' and x[1] == 'generateStratumLubSequence':
        return ('lub', x[2][1][1] if x[2][1][0] == 'bool' else '?')
    if x[0] == 'call' and x[1] in ('translateRecursiveClause', 'translateNonRecursiveClause'):
        modes = [y[1] for y in subtrees(x) if y[0] == 'enum']
        return ('clause', tuple(modes))
    if x[0] == 'foreach':
        return _sig(x[2])
    if x[0] == 'mk' and x[1] in ('DebugInfo', 'LogRelationTimer'):
        return _sig(x[2][0])
    return (x[0], x[1] if len(x) > 1 and isinstance(x[1], str) else '?')


def rule_swaps(rep, sh):
    """every ram::Swap built anywhere in ast2ram/seminaive exchanges Delta and New of the same relation"""
    n = 0
    for unit in ('UnitTranslator', 'ClauseTranslator'):
        for f in sh.units[unit].functions:
            if f.is_lambda or not any(is_call(m, 'mk') and (m.get('ta') or [''])[0].endswith('ram::Swap') for m in f.walk()):
                continue
            ev, ps = roleflow.evaluate(f)
            for tr, node in ev.sites:
                if tr[1] == 'Swap':
                    n += 1
                    a, b = tr[2][0], tr[2][1]
                    ok = {role_of(a), role_of(b)} == {'Delta', 'New'} and a[2] == b[2]
                    rep.ob('R3-swap-delta-new', '%s/Swap@%s' % (f.name, n), ok, f.loc(node), '' if ok else 'Swap(%s, %s)' % (show(a), show(b)))
    rep.floor('R3-swap-sites', n, 1)


def rule_exit(rep, sh, size_limit=False):
    f, paths = sh.paths('UnitTranslator', 'generateStratumExitSequence')
    if f is None:
        return
    for p in paths:
        items = flatten(p.ret)
        exits = [x for x in items if (x[0] == 'mk' and x[1] == 'Exit') or (x[0] == 'foreach' and x[2][0] == 'mk' and x[2][1] == 'Exit')]
        subs = not guard_has(p, 'hasSubsumptiveClause', positive=False)
        lim = guard_has(p, 'hasSizeLimit')
        label = 'generateStratumExitSequence[%s%s]' % ('subsumptive' if subs else 'plain', ',limit' if lim else '')
        if not size_limit:
            first = exits[0] if exits else None
            ec = [x for x in subtrees(first) if x[0] == 'mk' and x[1] == 'EmptinessCheck'] if first else []
            want = 'Delta' if subs else 'New'
            ok = bool(ec) and all(role_of(x[2][0]) == want for x in ec) and first[0] == 'mk'
            rep.ob('R3-exit-on-empty-new', label, ok, f.where,
                   '' if ok else 'the loop exit tests %s; it must test emptiness of %s for every relation of the SCC' % ([show(x) for x in ec], want))
            conj = [x for x in subtrees(first) if x[0] == 'mk' and x[1] == 'Conjunction'] if first else []
            rep.ob('R3-exit-conjoins-all', label, bool(conj), f.where, '' if conj else 'the emptiness tests of the SCC relations are not conjoined (exit as soon as ONE relation is unchanged)')
        else:
            lims = exits[1:] if exits else []
            if lim:
                ok = len(lims) == 1
                det = 'no size-limit exit emitted'
                if ok:
                    e = lims[0][2] if lims[0][0] == 'foreach' else lims[0]
                    c = e[2][0]
                    ok = c[0] == 'mk' and c[1] == 'Constraint' and c[2][0] in (('enum', 'GE'), ('enum', 'GT')) and \
                        c[2][1][0] == 'mk' and c[2][1][1] == 'RelationSize' and role_of(c[2][1][2][0]) == 'Main' and \
                        c[2][2][0] == 'mk' and c[2][2][1] == 'SignedConstant' and any(y[0] == 'call' and y[1] == 'getSizeLimit' for y in subtrees(c[2][2]))
                    det = 'size-limit exit is %s; required Exit(Constraint(GE|GT, RelationSize(Main), SignedConstant(getSizeLimit(rel))))' % show(e)[:200]
                rep.ob('R1-size-limit-exit', label, ok, f.where, '' if ok else det)
                # several limited relations in one stratum: "holds at least the limit's number of tuples" for EACH of them requires that the
                # loop does not stop while another limited relation is still below its own limit, i.e. ONE exit over the conjunction
                per_relation = bool(lims) and lims[0][0] == 'foreach'
                rep.ob('R1-size-limits-of-a-stratum-are-conjoined', label, not per_relation, f.where,
                       '' if not per_relation else 'one Exit per limited relation is emitted: the first relation to reach its limit ends the loop although another '
                       'limited relation of the same stratum is still below its limit')
                # the emptiness exit precedes the limit exits
                okp = bool(exits) and exits[0][0] == 'mk' and any(x[0] == 'mk' and x[1] == 'EmptinessCheck' for x in subtrees(exits[0]))
                rep.ob('R1-size-limit-after-emptiness', label, okp, f.where, '' if okp else 'the size-limit exit is not placed after the emptiness exit')
            else:
                rep.ob('R1-size-limit-exit', label, not lims, f.where, '' if not lims else 'a limit exit is emitted for a relation without size limit')


def rule_loop_order(rep, sh):
    f, paths = sh.paths('UnitTranslator', 'generateRecursiveStratum')
    if f is None:
        return
    for p in paths:
        items = flatten(p.ret)
        names = [x[1] if x[0] == 'call' else (x[1] if x[0] == 'mk' else '?') for x in items]
        loop = [x for x in items if x[0] == 'mk' and x[1] == 'Loop']
        ok = bool(loop) and names.index('generateStratumPreamble') < names.index('Loop') < names.index('generateStratumPostamble') if \
            {'generateStratumPreamble', 'Loop', 'generateStratumPostamble'} <= set(names) else False
        rep.ob('R3-stratum-order', 'generateRecursiveStratum/preamble-loop-postamble', ok, f.where, '' if ok else 'order is %s' % names)
        if loop:
            body = flatten(loop[0][2][0])
            bn = [x[1] for x in body if x[0] == 'call']
            want = ['generateStratumLoopBody', 'generateStratumExitSequence', 'generateStratumTableUpdates']
            got = [x for x in bn if x in want]
            ok = got == want
            rep.ob('R3-stratum-order', 'generateRecursiveStratum/rules-exit-update', ok, f.where,
                   '' if ok else 'the loop body runs %s; required: rules, then exit test, then table update' % got)
    f, paths = sh.paths('UnitTranslator', 'generateStratumPostamble')
    if f is not None:
        for p in paths:
            sig = sorted(_sig(x) for x in flatten(p.ret))
            ok = sig == [('Clear', 'Delta'), ('Clear', 'New')]
            rep.ob('R3-postamble', 'generateStratumPostamble', ok, f.where, '' if ok else 'postamble is %s; it must clear exactly Delta and New' % sig)
    f, paths = sh.paths('UnitTranslator', 'generateStratumPreamble')
    if f is not None:
        for p in paths:
            sig = [_sig(x) for x in flatten(p.ret)]
            names = [x[1] if x[0] in ('call',) else None for x in [y[2] if y[0] == 'foreach' else y for y in flatten(p.ret)]]
            ok = ('merge', 'Delta', 'Main') in sig and 'generateNonRecursiveRelation' in names and \
                names.index('generateNonRecursiveRelation') < sig.index(('merge', 'Delta', 'Main'))
            rep.ob('R3-preamble-primes-delta', 'generateStratumPreamble[%s]' % ','.join(show(g)[:20] for g in p.guards), ok, f.where,
                   '' if ok else 'preamble is %s; after the non-recursive rules Delta must be primed from Main' % sig)


def rule_versions(rep, sh):
    """C09-R4: one version per SCC atom of the body"""
    f, paths = sh.paths('UnitTranslator', 'generateClauseVersions')
    if f is None:
        return
    for p in paths[:1]:
        lv = [x for x in subtrees(p.ret) if x[0] == 'loopvar']
        calls = [x for x in subtrees(p.ret) if x[0] == 'call' and x[1] == 'translateRecursiveClause']
        ok = len(calls) == 1 and len(lv) >= 1 and lv[0][2] == ('int', 0) and lv[0][3].replace(' ', '') in ('(version<sccAtoms.size())', '(sccAtoms.size()>version)')
        ok = ok and calls[0][2][2][0] == 'loopvar'
        rep.ob('R4-one-version-per-scc-atom', 'generateClauseVersions', ok, f.where,
               '' if ok else 'versions are generated as %s; required: version over [0, sccAtoms.size())' % show(p.ret)[:200])
    g, ps = sh.paths('UnitTranslator', 'getSccAtoms')
    if g is not None:
        # sccAtoms = body atoms whose relation is in the SCC
        lam = [l for l in sh.units['UnitTranslator'].functions if l.is_lambda and 'getSccAtoms' in l.qname]
        ok = bool(lam) and any(is_call(m, 'contains') for m in lam[0].walk()) and any(is_call(m, 'getBodyLiterals') for m in g.walk())
        rep.ob('R4-one-version-per-scc-atom', 'getSccAtoms', ok, g.where, '' if ok else 'sccAtoms is not the filter of the body atoms by SCC membership')


# ================================================================================================
# C11-R2: subsumption sequence

def rule_loop_body_phases(rep, sh):
    """the body of the fixpoint loop evaluates the recursive rules of EVERY relation of the stratum before the subsumption bookkeeping
    of ANY relation: the bookkeeping of R clears and refills @delta_R, which the rules of the other relations still have to read"""
    f, paths = sh.paths('UnitTranslator', 'generateStratumLoopBody')
    if f is None:
        return
    for p in paths:
        top = p.ret
        if top is None:
            continue
        byloop = {}
        for x in subtrees(top):
            if x[0] == 'foreach':
                calls = {y[1] for y in subtrees(x) if y[0] == 'call'}
                rec, sub = 'translateRecursiveClauses' in calls, 'translateSubsumptiveRecursiveClauses' in calls
                if rec or sub:
                    a, b = byloop.get(x[1], (False, False))
                    byloop[x[1]] = (a or rec, b or sub)
        phases = [byloop[k] for k in sorted(byloop, key=lambda k: int(k.rsplit('#', 1)[-1]))]
        ok = phases == [(True, False), (False, True)]
        rep.ob('R2-rules-of-all-relations-before-any-subsumption', 'generateStratumLoopBody', ok, f.where,
               '' if ok else 'loop body phases (recursive rules, subsumption) per loop over the stratum: %s; required: one loop with the rules of all relations, '
               'then one loop with the subsumption bookkeeping' % phases)
        return
    rep.analysis_broken('generateStratumLoopBody: no evaluable path')


def rule_subsumption_sequence(rep, sh):
    f, paths = sh.paths('UnitTranslator', 'translateSubsumptiveRecursiveClauses')
    if f is None:
        return
    full = [p for p in paths if guard_has(p, 'hasSubsumptiveClause') and len(flatten(p.ret)) >= 8]
    if not full:
        rep.analysis_broken('translateSubsumptiveRecursiveClauses: full path not found')
        return
    p = max(full, key=lambda q: len(flatten(q.ret)))
    sig = [_sig(x) for x in flatten(p.ret)]
    want = [('Clear', 'Delta'), ('clause', ('SubsumeRejectNewNew',)), ('clause', ('SubsumeRejectNewCurrent',)),
            ('merge-filter', 'Delta', 'New', 'Reject'), ('Clear', 'Reject'), ('Clear', 'New'),
            ('clause', ('SubsumeDeleteCurrentCurrent', 'SubsumeDeleteCurrentDelta')), ('erase', 'Main', 'Delete'), ('Clear', 'Delete')]
    ok = sig == want
    rep.ob('R2-subsumption-sequence', 'translateSubsumptiveRecursiveClauses', ok, f.where,
           '' if ok else 'sequence is %s; required %s' % (sig, want))
    # delete passes: Delta for version 0, Current afterwards
    ites = [x for x in subtrees(p.ret) if x[0] == 'ite' and any(y[0] == 'enum' for y in subtrees(x))]
    ok = False
    if ites:
        c, a, b = ites[0][1], ites[0][2], ites[0][3]
        cs = show(c).replace(' ', '')
        ok = (a == ('enum', 'SubsumeDeleteCurrentCurrent') and b == ('enum', 'SubsumeDeleteCurrentDelta') and ('>=1' in cs or '>0' in cs)) or \
             (a == ('enum', 'SubsumeDeleteCurrentDelta') and b == ('enum', 'SubsumeDeleteCurrentCurrent') and ('==0' in cs or '<1' in cs))
    rep.ob('R2-delete-pass-modes', 'translateSubsumptiveRecursiveClauses', ok, f.where,
           '' if ok else 'delete passes must use DeleteCurrentDelta for version 0 and DeleteCurrentCurrent afterwards')
    g, ps = sh.paths('UnitTranslator', 'generateNonRecursiveDelete')
    if g is not None:
        fullp = [q for q in ps if any(_sig(x)[0] == 'clause' for x in flatten(q.ret))]
        for q in fullp[:1]:
            sig = [_sig(x) for x in flatten(q.ret)]
            ok = sig == [('clause', ('SubsumeDeleteCurrentCurrent',)), ('erase', 'Main', 'Delete'), ('Clear', 'Delete')]
            rep.ob('R2-nonrecursive-delete', 'generateNonRecursiveDelete', ok, g.where, '' if ok else 'sequence is %s' % sig)
        # every way a relation gets tuples before/without rules (facts, .input, rules of any kind) ends in this delete pass: it may be
        # skipped only for relations without a subsumptive clause
        emptyp = [q for q in ps if q.ret is not None and not any(_sig(x)[0] == 'erase' for x in flatten(q.ret))]
        badp = [q for q in emptyp if not guard_has(q, 'hasSubsumptiveClause', positive=False)]
        rep.ob('R2-nonrecursive-delete-skipped-only-without-subsumptive-clauses', 'generateNonRecursiveDelete', not badp and bool(fullp), g.where,
               '' if not badp and fullp else 'a path returns without the erase step (Main -= Delete) although the relation has subsumptive clauses (guards: %s): dominated tuples that were '
               'loaded by .input or given as facts stay in the relation' % [show(x) for x in (badp[0].guards if badp else [])][:4])
    # merge-with-filter / erase shapes
    g, ps = sh.paths('UnitTranslator', 'generateMergeRelationsWithFilter')
    if g is not None:
        for q in ps:
            if guard_has(q, 'getArity() == 0'):
                continue
            scans = find_mk(q.ret, 'Scan')
            ins = find_mk(q.ret, 'Insert')
            ex = find_mk(q.ret, 'ExistenceCheck')
            neg = find_mk(q.ret, 'Negation')
            ok = bool(scans) and scans[0][2][0] == ('param', 'srcRelation') and bool(ins) and ins[0][2][0] == ('param', 'destRelation') and \
                bool(ex) and ex[0][2][0] == ('param', 'filterRelation') and bool(neg)
            rep.ob('R2-merge-filter-shape', 'generateMergeRelationsWithFilter[%s]' % show(q.guards[-1])[:30], ok, g.where,
                   '' if ok else 'must scan src, insert into dest the tuples NOT in filter: %s' % show(q.ret)[:200])
    g, ps = sh.paths('UnitTranslator', 'generateEraseTuples')
    if g is not None:
        for q in ps:
            er = find_mk(q.ret, 'Erase')
            sc = find_mk(q.ret, 'Scan')
            ok = bool(er) and er[0][2][0] == ('param', 'destRelation') and bool(sc) and sc[0][2][0] == ('param', 'srcRelation')
            rep.ob('R2-erase-shape', 'generateEraseTuples', ok, g.where, '' if ok else show(q.ret)[:200])
    # addDistinct exactly in the two modes whose dominated and dominating atoms range over the same version
    f2, ps = sh.paths('ClauseTranslator', 'addBodyLiteralConstraints')
    if f2 is not None:
        for q in ps:
            if not guard_has(q, 'isA<SubsumptiveClause>'):
                continue
            has = any(x[0] == 'call' and x[1] == 'addDistinct' for x in subtrees(q.ret))
            gtxt = ' '.join(show(g) for g in q.guards)
            pos = guard_has(q, 'mode == SubsumeRejectNewNew')
            ok = has == pos and (not has or ('SubsumeRejectNewNew' in gtxt and 'SubsumeDeleteCurrentCurrent' in gtxt))
            rep.ob('R2-distinct-same-version', 'addBodyLiteralConstraints[%s]' % ('distinct' if has else 'no-distinct'), ok, f2.where,
                   '' if ok else 'addDistinct must be applied exactly for RejectNewNew and DeleteCurrentCurrent (a tuple must not subsume itself)')


# ================================================================================================
# C12: lattice lub sequence

def rule_lub_sequence(rep, sh):
    f, paths = sh.paths('UnitTranslator', 'generateStratumLubSequence')
    if f is None:
        return
    for p in paths:
        inloop = guard_has(p, 'inRecursiveLoop')
        items = flatten(p.ret)
        label = 'generateStratumLubSequence[%s]' % ('in-loop' if inloop else 'outside-loop')
        kinds = [(x[1] if x[0] == 'mk' else x[0]) for x in items]
        # Step 1: Lub populated from New by Scan(New) with lub aggregates over New; then Clear(New)
        q1 = items[0] if items else None
        ok = q1 is not None and q1[0] == 'mk' and q1[1] == 'Query'
        det = 'first statement is not the @lub population query'
        if ok:
            scan = find_mk(q1, 'Scan')
            ins = find_mk(q1, 'Insert')
            agg = find_mk(q1, 'Aggregate')
            ok = bool(scan) and role_of(scan[0][2][0]) == 'New' and bool(ins) and role_of(ins[0][2][0]) == 'Lub' and bool(agg) and \
                all(role_of(a[2][2]) == 'New' for a in agg) and any(y[0] == 'call' and y[1] == 'getLatticeTypeLubAggregator' for y in subtrees(q1))
            det = 'step 1 must be Scan(New){Aggregate<lub>(New)... Insert(Lub)}: %s' % show(q1)[:200]
        rep.ob('R1-lub-population', label, ok, f.where, '' if ok else det)
        ok = len(items) > 1 and _sig(items[1]) == ('Clear', 'New')
        rep.ob('R1-lub-clears-new', label, ok, f.where, '' if ok else 'New is not cleared after the lub population (second statement %s)' % (kinds[1:2],))
        ok = bool(items) and _sig(items[-1]) == ('Clear', 'Lub')
        rep.ob('R1-lub-clears-lub', label, ok, f.where, '' if ok else 'the sequence does not end with Clear(Lub)')
        rest = items[2:-1]
        if inloop:
            ok = len(rest) == 2 and all(x[0] == 'mk' and x[1] == 'Query' for x in rest)
            det = 'expected two queries populating Delta'
            if ok:
                a, b = rest
                insa, insb = find_mk(a, 'Insert'), find_mk(b, 'Insert')
                sa = [role_of(s[2][0]) for s in find_mk(a, 'Scan')]
                sb = [role_of(s[2][0]) for s in find_mk(b, 'Scan')]
                exb = find_mk(b, 'ExistenceCheck')
                ok = bool(insa) and role_of(insa[0][2][0]) == 'Delta' and set(sa) == {'Lub', 'Main'} and \
                    any(y[0] == 'call' and y[1] == 'getLatticeTypeLubFunctor' for y in subtrees(a)) and \
                    bool(insb) and role_of(insb[0][2][0]) == 'Delta' and sb == ['Lub'] and bool(exb) and role_of(exb[0][2][0]) == 'Main' and \
                    bool(find_mk(b, 'Negation'))
                det = 'step 2/3: Delta must receive lub(Main value, Lub value) when it differs for an equal key, or the Lub tuple when no Main tuple has the key'
                # "differs" = NOT (every lattice column equals its lub): a tuple in which only SOME lattice columns grow must still reach Delta
                lubcons = [c for c in subtrees(a) if c[0] == 'mk' and c[1] == 'Constraint' and any(y[0] == 'call' and y[1] == 'getLatticeTypeLubFunctor' for y in subtrees(c))]
                ops = {c[2][0][1] if c[2] and c[2][0][0] == 'enum' else '?' for c in lubcons}
                negf = [x for x in find_mk(a, 'Filter') if x[2][0][0] == 'mk' and x[2][0][1] == 'Negation' and
                        any(y[0] == 'call' and y[1] == 'getLatticeTypeLubFunctor' for y in subtrees(x[2][0]))]
                # (the evaluator does not model that `condition` is empty after std::move, so the later key-equality filter may
                #  appear to contain the same constraints again: only the existence of the negated filter and the operators are required)
                changed_ok = bool(negf) and ops == {'EQ'}
                rep.ob('R1-lub-delta-when-any-column-changes', label, changed_ok, f.where,
                       '' if changed_ok else 'the Delta update must be filtered by NOT(all lattice columns equal their lub); a conjunction of inequalities drops tuples '
                       'in which only some lattice columns grow')
            rep.ob('R1-lub-delta-update', label, ok, f.where, '' if ok else det)
        else:
            ok = len(rest) == 1 and rest[0][0] == 'mk' and rest[0][1] == 'Query'
            if ok:
                ins, sc = find_mk(rest[0], 'Insert'), find_mk(rest[0], 'Scan')
                ok = bool(ins) and role_of(ins[0][2][0]) == 'Main' and bool(sc) and role_of(sc[0][2][0]) == 'Lub'
            rep.ob('R1-lub-into-main', label, ok, f.where, '' if ok else 'outside the loop Main must receive the content of Lub')


# ================================================================================================
# C20-R2 measured relation roles

def rule_profile_roles(rep, sh):
    f, paths = sh.paths('UnitTranslator', 'generateNonRecursiveRelation')
    if f is not None:
        n = 0
        for p in paths:
            for x in subtrees(p.ret):
                if x[0] == 'mk' and x[1] in ('LogRelationTimer', 'LogSize'):
                    n += 1
                    r = x[2][-1] if x[1] == 'LogRelationTimer' else x[2][0]
                    ok = role_of(r) == 'Main'
                    rep.ob('R2-profile-measures-main', 'generateNonRecursiveRelation/%s' % x[1], ok, f.where,
                           '' if ok else 'the non-recursive %s measures %s, the profile sums Main' % (x[1], show(r)))
        rep.floor('R2-profile-log-sites', n, 2)
    for name in ('generateStratumLoopBody', 'generateStratumTableUpdates'):
        f, paths = sh.paths('UnitTranslator', name)
        if f is None:
            continue
        n = 0
        for p in paths:
            for x in subtrees(p.ret):
                if x[0] == 'mk' and x[1] == 'LogRelationTimer':
                    n += 1
                    ok = role_of(x[2][-1]) == 'New'
                    rep.ob('R2-profile-measures-new', '%s/LogRelationTimer' % name, ok, f.where,
                           '' if ok else 'per-iteration timer measures %s; new tuples of an iteration are in New' % show(x[2][-1]))
        rep.floor('R2-profile-%s' % name, n, 1)
    f, paths = sh.paths('ClauseTranslator', 'translateRecursiveClause')
    if f is not None:
        for p in paths:
            for x in subtrees(p.ret):
                if x[0] == 'mk' and x[1] == 'LogRelationTimer':
                    r = x[2][-1]
                    ok = r[0] == 'call' and r[1] == 'getClauseAtomName' and any(y[0] == 'call' and y[1] == 'getHead' for y in subtrees(r))
                    rep.ob('R2-profile-measures-new', 'translateRecursiveClause/LogRelationTimer', ok, f.where,
                           '' if ok else 'the recursive rule timer must measure the relation the rule inserts into (the head version)')


# ================================================================================================
# C01-R3: stratum statement order / program order

def rule_stratum_order(rep, sh):
    f, paths = sh.paths('UnitTranslator', 'generateStratum')
    if f is None:
        return
    for p in paths:
        items = flatten(p.ret)
        names = []
        for x in items:
            y = x[2] if x[0] == 'foreach' else x
            names.append(y[1] if y[0] in ('call', 'mk') else '?')
        def idx(n):
            return names.index(n) if n in names else None
        load, store = idx('generateLoadRelation'), idx('generateStoreRelation')
        comp = idx('generateRecursiveStratum') if guard_has(p, 'isRecursiveSCC') else idx('generateNonRecursiveRelation')
        ok = None not in (load, store, comp) and load < comp < store
        rep.ob('R3-stratum-statement-order', 'generateStratum[%s]' % ','.join(show(g)[:24] for g in p.guards), ok, f.where,
               '' if ok else 'statement order is %s; required load < compute < store' % names)
        if not guard_has(p, 'isRecursiveSCC') and guard_has(p, 'getAuxiliaryArity() > 0'):
            lub = idx('generateStratumLubSequence')
            ok = None not in (lub, comp, store) and comp < lub < store
            rep.ob('R3-stratum-statement-order', 'generateStratum/lattice-lub-before-store', ok, f.where, '' if ok else names)
        dele = idx('generateNonRecursiveDelete')
        if not guard_has(p, 'isRecursiveSCC'):
            ok = None not in (dele, comp, store) and comp < dele < store
            rep.ob('R3-stratum-statement-order', 'generateStratum/delete-before-store[%s]' % len(names), ok, f.where, '' if ok else names)

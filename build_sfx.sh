#!/bin/sh
# builds the libTooling fact extractor into /verif/build/sfx (offline; ~12 s)
set -e
cd "$(dirname "$0")"
mkdir -p build
if [ ! -x build/sfx ] || [ tools/sfx/sfx.cc -nt build/sfx ]; then
  clang++ $(llvm-config-14 --cxxflags) -std=c++17 -fno-rtti -O1 -w tools/sfx/sfx.cc -o build/sfx.tmp \
    /usr/lib/llvm-14/lib/libclang-cpp.so.14 /usr/lib/llvm-14/lib/libLLVM-14.so
  mv build/sfx.tmp build/sfx
fi

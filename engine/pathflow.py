"""E1 pathflow: path-sensitive forward dataflow over one function's clang CFG with a finite
disjunctive state.  The client supplies the transfer function per CFG element and the branch
refinement; the engine enumerates (block, state) pairs to a fixpoint and hands back the states
reaching the exit, each with one witness path (list of block ids / lines)."""
from .facts import kids, strip, Broken

MAX_STATES = 20000


class Client:
    """override in rule modules; states must be hashable"""

    def initial(self, func):
        return ()

    def transfer(self, state, node, func):
        """node: AST node dict (each sub-expression appears once, in evaluation order) or a dict with
        'dtor' (implicit destructor of a local) / 'init'.  Return an iterable of successor states."""
        return (state,)

    def branch(self, state, cond, truth, func, term_kind):
        """refine by the outcome of a two-way terminator; return state or None if infeasible"""
        return state

    def switch_edge(self, state, cond, label_node, func):
        return state


class Result:
    def __init__(self):
        self.exits = []        # (state, path)   normal exits (function end / return)
        self.aborts = []       # (state, path)   paths ending in a noreturn call
        self.nstates = 0
        self.nblocks = 0


def run(func, client, max_states=MAX_STATES):
    cfg = func.cfg
    if cfg is None:
        raise Broken('no CFG for %s' % func.qname)
    func.index()
    blocks = {b['b']: b for b in cfg['blocks']}
    entry, exit_ = cfg['entry'], cfg['exit']
    res = Result()
    res.nblocks = len(blocks)
    seen = {}
    work = []

    def push(bid, st, pred):
        key = (bid, st)
        if key in seen:
            return
        seen[key] = pred
        work.append(key)
        if len(seen) > max_states:
            raise Broken('state explosion in %s (> %d states)' % (func.qname, max_states))

    for st0 in _as_list(client.initial(func)):
        push(entry, st0, None)

    def path_of(key):
        out = []
        while key is not None:
            out.append(key[0])
            key = seen[key]
        out.reverse()
        return out

    while work:
        key = work.pop()
        bid, st = key
        b = blocks[bid]
        if bid == exit_:
            res.exits.append((st, path_of(key)))
            continue
        states = [st]
        for e in b['e']:
            if isinstance(e, int):
                n = func.node(e)
            elif 'syn' in e:
                n = e['syn']
            else:
                n = e
            nxt = []
            for s in states:
                nxt.extend(_as_list(client.transfer(s, n, func)))
            states = nxt
            if not states:
                break
        if not states:
            continue
        if b.get('noreturn'):
            for s in states:
                res.aborts.append((s, path_of(key)))
            continue
        succs = b['s']
        tk = b.get('tk')
        cond = effective_cond(func, b)
        if len(succs) == 2 and tk in ('IfStmt', 'WhileStmt', 'ForStmt', 'DoStmt', 'ConditionalOperator',
                                      'BinaryOperator', 'CXXForRangeStmt', 'BinaryConditionalOperator') and cond is not None:
            for s in states:
                for truth, sb in ((True, succs[0]), (False, succs[1])):
                    if sb is None or isinstance(sb, dict):
                        continue
                    s2 = client.branch(s, cond, truth, func, tk)
                    if s2 is not None:
                        push(sb, s2, key)
        elif tk == 'SwitchStmt':
            for sb in succs:
                if sb is None or isinstance(sb, dict):
                    continue
                lab = blocks[sb].get('label')
                ln = func.node(lab) if lab is not None and lab >= 0 else None
                for s in states:
                    s2 = client.switch_edge(s, cond, ln, func)
                    if s2 is not None:
                        push(sb, s2, key)
        else:
            for sb in succs:
                if sb is None or isinstance(sb, dict):
                    continue
                for s in states:
                    push(sb, s, key)
    res.nstates = len(seen)
    return res


def effective_cond(func, b):
    """the expression whose value decides a two-way terminator.  For `if (A || (B && C))` clang gives the
    last block the WHOLE condition as terminator condition although only its last operand is evaluated
    there: descend to the right-most operand of logical operators."""
    ci = b.get('cond', -1)
    if ci is None or ci < 0:
        return None
    c = func.node(ci)
    if c is None:
        return None
    while True:
        x = c
        while x is not None and x['k'] in ('ParenExpr', 'ImplicitCastExpr', 'ExprWithCleanups') and x.get('c'):
            x = x['c'][0]
        if x is not None and x['k'] == 'BinaryOperator' and x.get('op') in ('&&', '||'):
            c = kids(x)[1]
            continue
        return c


def _as_list(x):
    """clients return a list of states (a state itself is any hashable non-list value)"""
    if x is None:
        return []
    if isinstance(x, list):
        return x
    return [x]


def path_lines(func, path):
    """source lines of the first statement of each block on a witness path"""
    blocks = {b['b']: b for b in func.cfg['blocks']}
    out = []
    for bid in path:
        for e in blocks[bid]['e']:
            n = func.node(e) if isinstance(e, int) else (e.get('syn') if isinstance(e, dict) else None)
            if n is not None and n.get('l'):
                if not out or out[-1] != n['l']:
                    out.append(n['l'])
                break
    return out


# ----------------------------------------------------------------------------------------
# dominance on the block graph (for must-pass-through / dominated-by-edge rules)

def dominators(func):
    cfg = func.cfg
    blocks = {b['b']: b for b in cfg['blocks']}
    succ = {bid: [s for s in b['s'] if isinstance(s, int)] for bid, b in blocks.items()}
    pred = {bid: [] for bid in blocks}
    for bid, ss in succ.items():
        for s in ss:
            pred[s].append(bid)
    entry = cfg['entry']
    # reachable
    order, seen, stack = [], set(), [entry]
    while stack:
        x = stack.pop()
        if x in seen:
            continue
        seen.add(x)
        order.append(x)
        stack.extend(succ[x])
    dom = {b: set(seen) for b in seen}
    dom[entry] = {entry}
    changed = True
    while changed:
        changed = False
        for b in order:
            if b == entry:
                continue
            ps = [dom[p] for p in pred[b] if p in seen]
            new = set.intersection(*ps) if ps else set()
            new = new | {b}
            if new != dom[b]:
                dom[b] = new
                changed = True
    return dom, succ, pred, seen


def block_of(func, node_id):
    for b in func.cfg['blocks']:
        for e in b['e']:
            if e == node_id:
                return b['b']
            if isinstance(e, dict) and 'syn' in e and e['syn'].get('id') == node_id:
                return b['b']
    return None


def executes_before(func, a_id, b_id, dom=None):
    """statement a is executed before b on every path reaching b (block dominance, or earlier element of the same block)"""
    if dom is None:
        dom = dominators(func)[0]
    ba, bb = block_of(func, a_id), block_of(func, b_id)
    if ba is None or bb is None:
        return False
    if ba != bb:
        return ba in dom.get(bb, ())
    for blk in func.cfg['blocks']:
        if blk['b'] == ba:
            ids = [e if isinstance(e, int) else (e.get('syn', {}).get('id') if isinstance(e, dict) else None) for e in blk['e']]
            return ids.index(a_id) < ids.index(b_id)
    return False

"""E3 roleflow: a type-and-effect evaluator for the AST->RAM generator.  A generator function is
evaluated *symbolically over its syntax tree* (not executed): every path through its if/else
structure yields the RAM tree it builds, with relation-name strings replaced by their ROLE
(Main / Delta / New / Lub / Reject / Delete, given by the name constructor that produced them) and
loops executed once under a ('foreach', range, item) marker.

Trees (hashable tuples):
  ('mk', 'Swap', (a, b))            mk<ram::Swap>(a, b)
  ('role', 'Delta', 'rel')          getDeltaRelationName(rel->getQualifiedName())
  ('param', 'destRelation')         string parameter (role supplied by the caller)
  ('call', 'generateMergeRelations', (args))
  ('list', items...)                VecOwn built by appendStmt / push_back
  ('foreach', rangekey, item)       item appended inside a loop over rangekey
  ('enum', name) ('int', v) ('op', o, a, b) ('not', a) ('ite', c, a, b) ('var', name) ('?', key)
"""
from .facts import kids, walk, strip, is_call, call_args, call_obj, expr_key, Broken

ROLE_CTORS = {'getConcreteRelationName': 'Main', 'getDeltaRelationName': 'Delta', 'getNewRelationName': 'New',
              'getLubRelationName': 'Lub', 'getRejectRelationName': 'Reject', 'getDeleteRelationName': 'Delete'}
UNWRAP_CALLS = ('move', 'clone', 'forward', 'mk_own')
MAX_PATHS = 4096


class Path:
    __slots__ = ('env', 'guards', 'ret', 'done', 'broke')

    def __init__(self, env=None, guards=(), ret=None, done=False):
        self.env = dict(env or {})
        self.guards = tuple(guards)
        self.ret = ret
        self.done = done
        self.broke = False      # left the innermost loop body via continue/break

    def fork(self):
        p = Path(self.env, self.guards, self.ret, self.done)
        p.broke = self.broke
        return p


class Evaluator:
    def __init__(self, func, lambdas=None):
        self.func = func
        self.lambdas = dict(lambdas or {})     # name -> LambdaExpr node
        self.sites = []                         # every ('mk', X, ...) created, with node (for floors)
        self.loopdepth = 0

    # ---- expressions -------------------------------------------------------------------------
    def tree(self, n, env):
        if n is None:
            return ('?', 'none')
        n0 = n
        n = strip(n, casts=True)
        k = n['k']
        if k in ('CXXConstructExpr', 'CXXTemporaryObjectExpr', 'CXXFunctionalCastExpr') and len(kids(n)) == 1:
            return self.tree(kids(n)[0], env)
        if k == 'CXXConstructExpr' and not kids(n):
            return ('list',) if 'vector' in n.get('t', '') else ('?', 'default-constructed ' + n.get('cn', ''))
        if k == 'LambdaExpr':
            return ('lambda', n['id'])
        if k in ('CallExpr', 'CXXMemberCallExpr', 'CXXOperatorCallExpr'):
            cn = n.get('cn')
            if k == 'CXXOperatorCallExpr':
                op = n.get('op')
                ops = kids(n)[1:]
                if op == '()' and ops:
                    tgt = strip(ops[0], casts=True)
                    if tgt['k'] == 'DeclRefExpr' and tgt.get('name') in self.lambdas:
                        return self.call_lambda(tgt['name'], ops[1:], env)
                if op in ('*', '->') and len(ops) == 1:
                    return self.tree(ops[0], env)
                if op in ('==', '!=', '<', '>', '<=', '>=') and len(ops) == 2:
                    return ('op', op, self.tree(ops[0], env), self.tree(ops[1], env))
                if op == '!' and len(ops) == 1:
                    return ('not', self.tree(ops[0], env))
                return ('?', expr_key(n))
            if cn == 'mk' and n.get('ta'):
                t = n['ta'][0]
                if t.startswith('souffle::'):
                    tr = ('mk', t.split('<')[0].split('::')[-1], tuple(self.tree(a, env) for a in call_args(n) if a['k'] != 'CXXDefaultArgExpr'))
                    self.sites.append((tr, n))
                    return tr
            if cn in UNWRAP_CALLS and call_args(n):
                return self.tree(call_args(n)[0], env)
            if cn in ROLE_CTORS:
                a = call_args(n)
                who = expr_key(a[0]) if a else '?'
                who = who.replace('.getQualifiedName()', '').replace('->getQualifiedName()', '').replace('getQualifiedName()', 'this')
                extra = ()
                if len(a) > 1 and a[1]['k'] != 'CXXDefaultArgExpr':
                    extra = (self.tree(a[1], env),)
                return ('role', ROLE_CTORS[cn], who.split('.')[0].split('->')[0]) + extra
            args = tuple(self.tree(a, env) for a in call_args(n) if a['k'] != 'CXXDefaultArgExpr')
            if cn in ('isA', 'as') and n.get('ta'):
                cn = '%s<%s>' % (cn, n['ta'][0].split('::')[-1])
            if k == 'CXXMemberCallExpr':
                o = call_obj(n)
                ok_ = expr_key(o) if o is not None else ''
                if cn in ('get',) and not args:
                    return self.tree(o, env)
                return ('call', cn, args, ok_ if ok_ not in ('this', '') else '')
            return ('call', cn, args, '')
        if k == 'DeclRefExpr':
            nm = n.get('name')
            if n.get('dk') == 'EnumConstant':
                return ('enum', nm)
            if nm in env:
                return env[nm]
            if n.get('dk') == 'Parm' and 'basic_string' in n.get('t', ''):
                return ('param', nm)
            return ('var', nm)
        if k == 'IntegerLiteral':
            return ('int', int(n['val']))
        if k == 'CXXBoolLiteralExpr':
            return ('bool', bool(n['val']))
        if k == 'StringLiteral':
            return ('str', n.get('str', ''))
        if k == 'CXXNullPtrLiteralExpr':
            return ('null',)
        if k == 'UnaryOperator':
            if n['op'] == '!':
                return ('not', self.tree(kids(n)[0], env))
            if n['op'] in ('*', '&'):
                return self.tree(kids(n)[0], env)
            return ('op', n['op'], self.tree(kids(n)[0], env))
        if k == 'BinaryOperator':
            return ('op', n['op'], self.tree(kids(n)[0], env), self.tree(kids(n)[1], env))
        if k == 'ConditionalOperator':
            c, a, b = kids(n)
            return ('ite', self.tree(c, env), self.tree(a, env), self.tree(b, env))
        if k == 'MemberExpr':
            return ('var', expr_key(n))
        if k == 'InitListExpr':
            return ('list',) + tuple(self.tree(c, env) for c in kids(n))
        if k == 'CXXStdInitializerListExpr':
            return self.tree(kids(n)[0], env)
        if k == 'CXXThisExpr':
            return ('var', 'this')
        return ('?', expr_key(n))

    def call_lambda(self, name, args, env):
        lam = self.lambdas[name]
        params = lam.get('params', [])
        env2 = dict(env)
        for p, a in zip(params, args):
            env2[p['name']] = self.tree(a, env)
        paths = self.block(kids(lam), [Path(env2)])
        # write back reference parameters (first path: helper lambdas here are straight-line)
        if not paths:
            return ('?', 'lambda')
        p0 = paths[0]
        for p, a in zip(params, args):
            if '&' in p.get('ts', '') and 'const' not in p.get('ts', ''):
                tgt = strip(a, casts=True)
                if tgt['k'] == 'DeclRefExpr':
                    env[tgt['name']] = p0.env.get(p['name'], env.get(tgt['name']))
        return p0.ret if p0.ret is not None else ('?', 'void')

    # ---- statements --------------------------------------------------------------------------
    def block(self, stmts, paths):
        for s in stmts:
            nxt = []
            for p in paths:
                if p.done or p.broke:
                    nxt.append(p)
                else:
                    nxt.extend(self.stmt(s, p))
            paths = nxt
            if len(paths) > MAX_PATHS:
                raise Broken('roleflow: path explosion in %s' % self.func.qname)
        return paths

    def merged_if(self, parts, g, p):
        """inside a counting loop both branches of an `if` are joined into one path:
        variables that differ become ('either', then, else); list items appended by a branch are kept, tagged ('when', guard, item)"""
        a, b = p.fork(), p.fork()
        ra = self.stmt(parts['then'], a)
        rb = self.stmt(parts.get('else'), b) if parts.get('else') is not None else [b]
        qa, qb = ra[0], rb[0]
        out = p
        keys = set(qa.env) | set(qb.env)
        for key in keys:
            va, vb = qa.env.get(key), qb.env.get(key)
            if va == vb:
                out.env[key] = va
                continue
            base = p.env.get(key)
            if isinstance(va, tuple) and va[:1] == ('list',) and isinstance(vb, tuple) and vb[:1] == ('list',) and isinstance(base, tuple) and base[:1] == ('list',):
                n = len(base)
                out.env[key] = base + tuple(('when', g, x) for x in va[n:]) + tuple(('when', ('not', g), x) for x in vb[n:])
            elif va is None:
                out.env[key] = vb
            elif vb is None:
                out.env[key] = va
            else:
                out.env[key] = ('either', va, vb)
        out.broke = qa.broke and qb.broke
        if qa.done and qb.done:
            out.done, out.ret = True, ('either', qa.ret, qb.ret)
        return out

    def wrap(self, item, p):
        for lk in p.env.get('$loops', ()):
            item = ('foreach', lk, item)
        return item

    def stmt(self, s, p):
        if s is None:
            return [p]
        k = s['k']
        if k == 'CompoundStmt':
            return self.block(kids(s), [p])
        if k == 'DeclStmt':
            for vd in kids(s):
                if vd['k'] != 'VarDecl':
                    continue
                init = kids(vd)[0] if kids(vd) else None
                if init is not None and strip(init, casts=True)['k'] == 'LambdaExpr':
                    self.lambdas[vd['name']] = strip(init, casts=True)
                    continue
                if init is None:
                    p.env[vd['name']] = ('list',) if 'vector' in vd.get('t', '') else ('unset',)
                else:
                    p.env[vd['name']] = self.tree(init, p.env)
                    if p.env[vd['name']] == ('?', 'none'):
                        p.env[vd['name']] = ('unset',)
            return [p]
        if k == 'ReturnStmt':
            p.ret = self.tree(kids(s)[0], p.env) if kids(s) else ('void',)
            p.done = True
            return [p]
        if k in ('ContinueStmt', 'BreakStmt'):
            p.broke = True
            return [p]
        if k == 'IfStmt':
            parts = dict(zip(s['roles'], s['c']))
            if parts.get('init') is not None:
                self.stmt(parts['init'], p)
            if parts.get('condvar') is not None:
                self.stmt(parts['condvar'], p)
            g = self.tree(parts['cond'], p.env)
            if p.env.get('$merge', 0) > 0:
                return [self.merged_if(parts, g, p)]
            a, b = p.fork(), p.fork()
            a.guards = a.guards + (g,)
            b.guards = b.guards + (('not', g),)
            out = self.stmt(parts['then'], a)
            out += self.stmt(parts.get('else'), b) if parts.get('else') is not None else [b]
            return out
        if k in ('ForStmt', 'CXXForRangeStmt', 'WhileStmt', 'DoStmt'):
            roles = s.get('roles')
            parts = dict(zip(roles, s['c'])) if roles else {}
            body = parts.get('body') if roles else kids(s)[-1]
            if k == 'CXXForRangeStmt':
                rng = parts.get('range')
                rk = '?'
                if rng is not None:
                    vds = [v for v in walk(rng) if v['k'] == 'VarDecl' and kids(v)]
                    if vds:
                        rk = expr_key(kids(vds[0])[0])
                lv = parts.get('loopvar')
            else:
                rk = expr_key(parts.get('cond')) if parts.get('cond') is not None else 'loop'
                if parts.get('init') is not None:
                    self.stmt(parts['init'], p)
                    if parts['init']['k'] == 'DeclStmt':
                        for vd in kids(parts['init']):
                            if vd['k'] == 'VarDecl':
                                p.env[vd['name']] = ('loopvar', vd['name'], p.env.get(vd['name']), rk)
                lv = None
            # give every loop STATEMENT its own identity: two loops over the same range are different phases
            ids = self.__dict__.setdefault('_loopids', {})
            rk = '%s#%d' % (rk, ids.setdefault(s.get('id'), len(ids) + 1))
            p.env['$loops'] = p.env.get('$loops', ()) + (rk,)
            if k != 'CXXForRangeStmt':
                p.env['$merge'] = p.env.get('$merge', 0) + 1      # counting loops: if/else inside is joined, not forked
            if lv is not None:
                for vd in kids(lv):
                    if vd['k'] == 'VarDecl':
                        p.env[vd['name']] = ('var', vd['name'])
            outs = self.stmt(body, p)
            for q in outs:
                q.broke = False
                q.env['$loops'] = q.env.get('$loops', ())[:-1]
                if k != 'CXXForRangeStmt':
                    q.env['$merge'] = max(0, q.env.get('$merge', 1) - 1)
            return outs
        if k in ('NullStmt',):
            return [p]
        if k == 'SwitchStmt':
            from .tables import SwitchTable
            sw = SwitchTable(s, self.func)
            subj = self.tree(sw.cond, p.env)
            all_labels = tuple(l for g in sw.groups for l in g.labels)
            outs = []
            for g in sw.groups:
                q = p.fork()
                if g.labels:
                    q.guards = q.guards + (('case', subj, tuple(g.labels) + (('default',) if g.is_default else ())),)
                if g.is_default:
                    q.guards = q.guards + (('default', subj, all_labels),) if not g.labels else q.guards
                    if g.labels:
                        q.guards = q.guards[:-1] + (('case-or-default', subj, tuple(g.labels), all_labels),)
                res = self.block(g.flat(), [q])
                for r in res:
                    r.broke = False
                outs.extend(res)
            if not sw.has_default:
                q = p.fork()
                q.guards = q.guards + (('default', subj, all_labels),)
                outs.append(q)
            return outs
        # expression statements
        e = strip(s, casts=True)
        ek = e['k']
        if ek in ('BinaryOperator',) and e.get('op') == '=' or (ek == 'CXXOperatorCallExpr' and e.get('op') == '='):
            ops = kids(e)[-2:]
            tgt = strip(ops[0], casts=True)
            if tgt['k'] == 'DeclRefExpr':
                p.env[tgt['name']] = self.tree(ops[1], p.env)
            return [p]
        if is_call(e):
            cn = e.get('cn')
            a = call_args(e)
            if cn == 'appendStmt' and len(a) == 2:
                tgt = strip(a[0], casts=True)
                if tgt['k'] == 'DeclRefExpr':
                    item = self.wrap(self.tree(a[1], p.env), p)
                    cur = p.env.get(tgt['name'], ('list',))
                    p.env[tgt['name']] = (cur if cur and cur[0] == 'list' else ('list',)) + (item,)
                return [p]
            if cn in ('push_back', 'emplace_back') and e['k'] == 'CXXMemberCallExpr':
                o = strip(call_obj(e), casts=True) if call_obj(e) is not None else None
                if o is not None and o['k'] == 'DeclRefExpr' and a:
                    item = self.wrap(self.tree(a[0], p.env), p)
                    cur = p.env.get(o['name'], ('list',))
                    p.env[o['name']] = (cur if cur and cur[0] == 'list' else ('list',)) + (item,)
                return [p]
            if cn == 'clear' and e['k'] == 'CXXMemberCallExpr':
                o = strip(call_obj(e), casts=True) if call_obj(e) is not None else None
                if o is not None and o['k'] == 'DeclRefExpr':
                    p.env[o['name']] = ('list',)
                return [p]
            if e['k'] == 'CXXOperatorCallExpr' and e.get('op') == '()':
                self.tree(e, p.env)       # helper lambda called for its effect
                return [p]
            self.tree(e, p.env)
            return [p]
        return [p]

    def run(self):
        body = self.func.body
        env = {}
        for prm in self.func.d['params']:
            if 'basic_string' in prm['t']:
                env[prm['name']] = ('param', prm['name'])
        paths = self.block(kids(body), [Path(env)])
        return paths


def evaluate(func):
    ev = Evaluator(func)
    paths = ev.run()
    return ev, paths


# ---- tree queries -----------------------------------------------------------------------------
def subtrees(t):
    """all tagged sub-trees (tuples whose first component is a string tag)"""
    if isinstance(t, tuple):
        if t and isinstance(t[0], str):
            yield t
        for c in t:
            if isinstance(c, tuple):
                yield from subtrees(c)


def find_mk(t, kind):
    return [x for x in subtrees(t) if x and x[0] == 'mk' and x[1] == kind]


def show(t, depth=0):
    if not isinstance(t, tuple) or not t:
        return str(t)
    k = t[0]
    if k == 'mk':
        return '%s(%s)' % (t[1], ', '.join(show(a) for a in t[2]))
    if k == 'role':
        return '%s[%s]' % (t[1], t[2])
    if k == 'param':
        return '$' + t[1]
    if k == 'call':
        return '%s%s(%s)' % ((t[3] + '.') if len(t) > 3 and t[3] else '', t[1], ', '.join(show(a) for a in t[2]))
    if k == 'list':
        return '[' + '; '.join(show(a) for a in t[1:]) + ']'
    if k == 'foreach':
        return 'foreach %s: %s' % (t[1], show(t[2]))
    if k == 'enum':
        return t[1]
    if k in ('int', 'bool', 'str', 'var'):
        return str(t[1])
    if k == 'op':
        return '(' + (' %s ' % t[1]).join(show(a) for a in t[2:]) + ')'
    if k == 'not':
        return '!' + show(t[1])
    if k == 'loopvar':
        return '%s∈[%s; %s)' % (t[1], show(t[2]), t[3])
    if k == 'either':
        return '{%s | %s}' % (show(t[1]), show(t[2]))
    if k == 'when':
        return 'when %s: %s' % (show(t[1])[:40], show(t[2]))
    if k in ('case', 'default', 'case-or-default'):
        return '%s %s in %s' % (k, show(t[1]), t[2:])
    if k == 'ite':
        return '(%s ? %s : %s)' % (show(t[1]), show(t[2]), show(t[3]))
    return '%s' % (t,)


def flatten(t):
    """list items of a ('list', ...) / Sequence tree in order, looking through foreach markers"""
    out = []
    if not isinstance(t, tuple) or not t:
        return out
    if t[0] == 'list':
        for x in t[1:]:
            out.extend(flatten(x) if x and (x[0] in ('list',) or (x[0] == 'mk' and x[1] == 'Sequence')) else [x])
        return out
    if t[0] == 'mk' and t[1] == 'Sequence':
        for a in t[2]:
            out.extend(flatten(a) if a and a[0] in ('list',) or (a and a[0] == 'mk' and a[1] == 'Sequence') else [a])
        return out
    return [t]

"""The two non-C++ sources of the front end, read as tables: the scanner's literal patterns (parser/scanner.ll)
and the bison grammar (parser/parser.yy); plus an Earley recogniser for SENTENTIAL FORMS (token names and
nonterminal names mixed), used to decide whether the text a printer emits -- with its sub-terms left as
nonterminal holes -- can be derived by the grammar.  Nothing is executed; both files are parsed as text."""
import re
from engine import facts


class GrammarError(facts.Broken):
    pass


def scanner_table(text=None):
    """literal pattern -> token name, for the rules of the INITIAL start condition"""
    if text is None:
        text = facts.read_repo('src/parser/scanner.ll')
    parts = text.split('\n%%')
    if len(parts) < 2:
        raise GrammarError('scanner.ll: rules section not found')
    rules = parts[1]
    out = {}
    for line in rules.split('\n'):
        m = re.match(r'^"((?:[^"\\]|\\.)+)"(?:/\{WS\})?\s+\{\s*return\s+yy::parser::make_(\w+)\(', line)
        if m:
            lit = re.sub(r'\\(.)', r'\1', m.group(1))
            out.setdefault(lit, m.group(2))
    if len(out) < 60:
        raise GrammarError('scanner.ll: only %d literal patterns recognised' % len(out))
    return out


def _strip_comments(s):
    out, i, n = [], 0, len(s)
    while i < n:
        if s.startswith('/*', i):
            j = s.find('*/', i + 2)
            i = n if j < 0 else j + 2
            out.append(' ')
        elif s.startswith('//', i):
            j = s.find('\n', i)
            i = n if j < 0 else j
        elif s[i] == '"':
            j = i + 1
            while j < n and s[j] != '"':
                j += 2 if s[j] == '\\' else 1
            out.append(s[i:j + 1])
            i = j + 1
        elif s[i] == "'":
            j = i + 1
            while j < n and s[j] != "'":
                j += 2 if s[j] == '\\' else 1
            out.append(s[i:j + 1])
            i = j + 1
        else:
            out.append(s[i])
            i += 1
    return ''.join(out)


class Grammar:
    def __init__(self, text=None):
        if text is None:
            text = facts.read_repo('src/parser/parser.yy')
        secs = re.split(r'^%%\s*$', text, flags=re.M)
        if len(secs) < 2:
            raise GrammarError('parser.yy: rules section not found')
        self.tokens = set(re.findall(r'^%token\s+(?:<[^>]*>\s*)?(\w+)', secs[0], flags=re.M))
        self.rules = {}           # lhs -> [(rhs symbols, action text)]
        self._parse_rules(_strip_comments(secs[1]))
        if len(self.rules) < 50:
            raise GrammarError('parser.yy: only %d nonterminals recognised' % len(self.rules))
        self.nullable = self._nullable()

    def _parse_rules(self, s):
        i, n = 0, len(s)
        lhs, rhs, action = None, [], ''

        def flush():
            nonlocal rhs, action
            if lhs is not None:
                self.rules.setdefault(lhs, []).append((tuple(rhs), action))
            rhs, action = [], ''
        while i < n:
            c = s[i]
            if c.isspace():
                i += 1
            elif c == '{':
                depth, j = 0, i
                while j < n:
                    if s[j] == '"':
                        j += 1
                        while j < n and s[j] != '"':
                            j += 2 if s[j] == '\\' else 1
                    elif s[j] == "'":
                        j += 1
                        while j < n and s[j] != "'":
                            j += 2 if s[j] == '\\' else 1
                    elif s[j] == '{':
                        depth += 1
                    elif s[j] == '}':
                        depth -= 1
                        if depth == 0:
                            break
                    j += 1
                action += s[i:j + 1]
                i = j + 1
            elif c == '|':
                flush()
                i += 1
            elif c == ';':
                flush()
                lhs = None
                i += 1
            elif c == '%':
                m = re.match(r'%(\w+)', s[i:])
                word = m.group(1) if m else ''
                i += len(word) + 1
                if word == 'prec':
                    m2 = re.match(r'\s*(\w+)', s[i:])
                    i += m2.end() if m2 else 0
            elif c == '[':
                j = s.find(']', i)
                i = j + 1
            else:
                m = re.match(r'[A-Za-z_][A-Za-z_0-9.]*', s[i:])
                if not m:
                    i += 1
                    continue
                word = m.group(0)
                i += len(word)
                m2 = re.match(r'\s*:(?!:)', s[i:])
                if m2:
                    # `name :` starts a rule (bison allows the previous rule to end without ';')
                    if lhs is not None:
                        flush()
                    lhs = word
                    i += m2.end()
                    rhs, action = [], ''
                elif lhs is None:
                    # a rule header without ':' yet (newline between name and ':') -- look ahead
                    lhs = word
                    m3 = re.match(r'\s*:', s[i:])
                    if m3:
                        i += m3.end()
                else:
                    rhs.append(word)

    def _nullable(self):
        nl = set()
        changed = True
        while changed:
            changed = False
            for a, alts in self.rules.items():
                if a not in nl and any(all(x in nl for x in rhs) for rhs, _ in alts):
                    nl.add(a)
                    changed = True
        return nl

    def derives(self, start, form):
        """can nonterminal `start` derive the sentential form (list of token / nonterminal names; '?' = any one symbol)?"""
        n = len(form)
        S = [set() for _ in range(n + 1)]
        GOAL = ('$goal', (start,), 0, 0)
        S[0].add(GOAL)
        for k in range(n + 1):
            work = list(S[k])
            while work:
                (a, rhs, dot, org) = work.pop()
                if dot < len(rhs):
                    x = rhs[dot]
                    if x in self.rules:
                        for r, _ in self.rules[x]:
                            it = (x, r, 0, k)
                            if it not in S[k]:
                                S[k].add(it)
                                work.append(it)
                        if x in self.nullable:
                            it = (a, rhs, dot + 1, org)
                            if it not in S[k]:
                                S[k].add(it)
                                work.append(it)
                    if k < n and (form[k] == x or form[k] == '?'):
                        S[k + 1].add((a, rhs, dot + 1, org))
                else:
                    for (b, r2, d2, o2) in list(S[org]):
                        if d2 < len(r2) and r2[d2] == a:
                            it = (b, r2, d2 + 1, o2)
                            if it not in S[k]:
                                S[k].add(it)
                                work.append(it)
        return ('$goal', (start,), 1, 0) in S[n]


def tokenize(text, table):
    """split printer text into scanner tokens: longest literal match; words that are no keyword -> IDENT; digits -> NUMBER;
    holes are written as \\x00NAME\\x00"""
    lits = sorted(table, key=len, reverse=True)
    out, i, n = [], 0, len(text)
    while i < n:
        c = text[i]
        if c.isspace():
            i += 1
            continue
        if c == '\x00':
            j = text.index('\x00', i + 1)
            out.append(text[i + 1:j])
            i = j + 1
            continue
        if c == '"':
            j = i + 1
            while j < n and text[j] != '"':
                j += 2 if text[j] == '\\' else 1
            out.append('STRING')
            i = j + 1
            continue
        m = re.match(r'[A-Za-z_?][A-Za-z_0-9?]*', text[i:])
        if m:
            w = m.group(0)
            # keywords that contain non-word characters (choice-domain)
            ext = next((l for l in lits if text.startswith(l, i) and len(l) > len(w)), None)
            if ext:
                out.append(table[ext])
                i += len(ext)
                continue
            out.append(table.get(w, 'IDENT'))
            i += len(w)
            continue
        m = re.match(r'[0-9]+\.[0-9]+', text[i:])
        if m:
            out.append('FLOAT')
            i += m.end()
            continue
        m = re.match(r'[0-9]+', text[i:])
        if m:
            out.append('NUMBER')
            i += m.end()
            continue
        lit = next((l for l in lits if text.startswith(l, i)), None)
        if lit is None:
            out.append('INVALID(%s)' % text[i])
            i += 1
            continue
        # ".decl" etc. need following whitespace in the scanner; the printers always emit it
        out.append(table[lit])
        i += len(lit)
    return out

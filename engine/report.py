"""Verdict bookkeeping shared by all checks: obligations, violations, known findings, evidence."""
import json, os, sys, time

VERIF = os.path.dirname(os.path.dirname(os.path.abspath(__file__)))


class Report:
    def __init__(self, pid, tier='quick'):
        self.pid = pid
        self.tier = tier
        self.t0 = time.time()
        self.obligations = []      # dicts: rule, instance, ok, where, detail
        self.broken = []           # analysis-broken messages
        self.units = []
        self.functions = 0
        self.controls = []         # (rule, fired)
        self.notes = []
        self.assumptions = []
        self.explanation = ''
        self.exhaustive = False
        self.extra = {}
        try:
            self.seed = int(os.environ.get('VERIF_SEED', '0'))
        except ValueError:
            self.seed = 0
        kf = os.path.join(VERIF, 'known_findings.json')
        self.known = []
        self.fixed = []
        if os.path.exists(kf):
            data = json.load(open(kf))
            self.known = [k for k in data.get('known', []) if k['property'] == pid]
            self.fixed = [k for k in data.get('fixed', []) if k['property'] == pid]

    # -- recording ---------------------------------------------------------------------
    def ob(self, rule, instance, ok, where='', detail='', nontrivial=True):
        """one rule instance (obligation).  instance: stable construct key (no line numbers)."""
        self.obligations.append(dict(rule=rule, instance=instance, ok=bool(ok), where=where, detail=detail,
                                     nontrivial=nontrivial))
        return bool(ok)

    def floor(self, rule, count, minimum, what=''):
        """a rule matching fewer instances than confirmed by hand is analysis-broken, never a pass"""
        if count < minimum:
            self.broken.append('%s: matched %d instance(s) < floor %d %s' % (rule, count, minimum, what))

    def analysis_broken(self, msg):
        self.broken.append(msg)

    def control(self, rule, fired, detail=''):
        """positive control: planted violation must be reported by the rule"""
        self.controls.append(dict(rule=rule, fired=bool(fired), detail=detail))
        if not fired:
            self.broken.append('positive control for %s stayed silent %s' % (rule, detail))

    def add_units(self, units):
        for u in units:
            self.units.append(os.path.relpath(u.src, '/repo') if u.src.startswith('/repo') else u.src)
            self.functions += len(u.functions)

    # -- finishing ---------------------------------------------------------------------
    def _is_known(self, o):
        for k in self.known:
            if k['rule'] == o['rule'] and k['instance'] == o['instance']:
                return k
        return None

    def finish(self):
        viol = [o for o in self.obligations if not o['ok']]
        unknown, known = [], []
        for o in viol:
            k = self._is_known(o)
            (known if k else unknown).append((o, k))
        wall = time.time() - self.t0
        os.makedirs(os.path.join(VERIF, 'evidence'), exist_ok=True)
        os.makedirs(os.path.join(VERIF, 'build', 'replay'), exist_ok=True)
        # known findings that no longer reproduce are reported as notes (they suppress nothing else)
        for k in self.known:
            if not any(kk is k for (_, kk) in known):
                self.notes.append('known finding not reproduced on this tree: %s %s' % (k['rule'], k['instance']))
        samples = []
        seen_rules = set()
        for o in self.obligations:
            if o['rule'] not in seen_rules or not o['ok']:
                seen_rules.add(o['rule'])
                samples.append({k: o[k] for k in ('rule', 'instance', 'ok', 'where', 'detail')})
            if len(samples) >= 40:
                break
        distinct = len({(o['rule'], o['instance']) for o in self.obligations if o['nontrivial']})
        rules = {}
        for o in self.obligations:
            r = rules.setdefault(o['rule'], [0, 0])
            r[0] += 1
            r[1] += 1 if o['ok'] else 0
        ev = {
            'property_id': self.pid, 'tier': self.tier, 'seed': self.seed, 'level': 'other',
            'coverage': {
                'explanation': self.explanation,
                'obligations': len(self.obligations),
                'discharged': sum(1 for o in self.obligations if o['ok']),
                'evaluations': max(1, len(self.obligations)),
                'distinct_nontrivial': distinct,
                'rule': 'one evaluation = one rule instance (obligation) found in the current source; '
                        'distinct = distinct (rule, construct) pairs; non-trivial = the construct exercises the rule '
                        '(e.g. a path that contains an acquire, a table row with a computed signature)',
                'samples': samples,
                'rules': {k: {'instances': v[0], 'discharged': v[1]} for k, v in sorted(rules.items())},
                'units': self.units, 'functions_extracted': self.functions,
                'controls': self.controls,
                'exhaustive': self.exhaustive,
                'known_findings_reported': [k['instance'] for (_, k) in known],
                'analysis_broken': self.broken,
                'notes': self.notes,
            },
            'assumptions': self.assumptions,
            'wall_s': round(wall, 2),
            'violations': len(unknown),
        }
        ev['coverage'].update(self.extra)
        with open(os.path.join(VERIF, 'evidence', self.pid + '.json'), 'w') as fh:
            json.dump(ev, fh, indent=1)
        print('[%s] tier=%s units=%d functions=%d obligations=%d discharged=%d wall=%.1fs' % (
            self.pid, self.tier, len(self.units), self.functions, len(self.obligations),
            ev['coverage']['discharged'], wall))
        for k, v in sorted(rules.items()):
            print('  rule %-34s instances=%-4d discharged=%d' % (k, v[0], v[1]))
        for c in self.controls:
            print('  control %-31s fired=%s' % (c['rule'], c['fired']))
        for n in self.notes:
            print('  note: ' + n)
        for (o, k) in known:
            print('KNOWN-FINDING: property=%s %s [%s @ %s] %s' % (self.pid, k.get('what', ''), o['rule'], o['where'], o['instance']))
        if self.broken:
            for b in self.broken:
                print('ANALYSIS-BROKEN: property=%s %s' % (self.pid, b))
        rc = 0
        for n, (o, _) in enumerate(unknown):
            path = os.path.join(VERIF, 'build', 'replay', '%s-%d.json' % (self.pid, n))
            with open(path, 'w') as fh:
                json.dump(o, fh, indent=1)
            print('  violated: rule=%s instance=%s at %s: %s' % (o['rule'], o['instance'], o['where'], o['detail']))
            print('VIOLATION property=%s replay=%s' % (self.pid, path))
            rc = 1
        if rc == 0 and self.broken:
            rc = 2
        return rc

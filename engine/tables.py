"""Decision-table extraction: switch statements -> {label: statements}, and code-emitter case
bodies -> string skeletons with operand holes."""
from .facts import kids, walk, strip, is_call, call_args, call_obj, expr_key

TERMINATORS = ('BreakStmt', 'ReturnStmt', 'ContinueStmt', 'GotoStmt')


def _is_noreturn_stmt(s):
    s = strip(s) if s.get('k') not in ('CompoundStmt',) else s
    if s['k'] in TERMINATORS:
        return True
    if s['k'] in ('CallExpr', 'CXXMemberCallExpr') and s.get('noreturn'):
        return True
    if s['k'] == 'CompoundStmt' and kids(s):
        return _is_noreturn_stmt(kids(s)[-1])
    if s['k'] == 'CXXThrowExpr':
        return True
    return False


class Group:
    def __init__(self):
        self.labels = []       # enumerator names or folded ints / chars
        self.is_default = False
        self.stmts = []
        self.falls_through = False
        self.line = 0

    def flat(self):
        """statements with a single wrapping CompoundStmt removed"""
        st = self.stmts
        while len(st) == 1 and st[0]['k'] == 'CompoundStmt':
            st = kids(st[0])
        out = []
        for s in st:
            if s['k'] == 'CompoundStmt':
                out.extend(kids(s))
            else:
                out.append(s)
        return out


class SwitchTable:
    def __init__(self, node, func):
        self.node = node
        self.func = func
        cs = kids(node)
        self.cond = cs[-2] if len(cs) >= 2 else None
        self.subject = expr_key(self.cond) if self.cond is not None else '?'
        self.groups = []
        self.enum = None
        body = cs[-1]
        items = kids(body) if body['k'] == 'CompoundStmt' else [body]
        cur = None
        for it in items:
            if it['k'] in ('CaseStmt', 'DefaultStmt'):
                # a new label closes the previous group unless that group is empty (stacked labels)
                if cur is not None and cur.stmts:
                    cur.falls_through = not _is_noreturn_stmt(cur.stmts[-1])
                    self.groups.append(cur)
                    cur = None
                if cur is None:
                    cur = Group()
                    cur.line = it.get('l', 0)
                x = it
                while x is not None and x['k'] in ('CaseStmt', 'DefaultStmt'):
                    if x['k'] == 'DefaultStmt':
                        cur.is_default = True
                        sub = kids(x)[-1] if kids(x) else None
                    else:
                        lab = x.get('label')
                        if lab is None:
                            lab = x.get('caseval')
                            if 'charlabel' in x:
                                lab = chr(x['charlabel'])
                        if x.get('enum'):
                            self.enum = x['enum']
                        cur.labels.append(lab)
                        sub = kids(x)[-1] if kids(x) else None
                    x = sub
                if x is not None and x['k'] != 'NullStmt':
                    cur.stmts.append(x)
            else:
                if cur is None:
                    continue      # statements before the first label (declarations)
                cur.stmts.append(it)
        if cur is not None:
            cur.falls_through = bool(cur.stmts) and not _is_noreturn_stmt(cur.stmts[-1])
            self.groups.append(cur)

    def by_label(self):
        d = {}
        for g in self.groups:
            for l in g.labels:
                d[l] = g
        return d

    @property
    def has_default(self):
        return any(g.is_default for g in self.groups)


def switches(func, enum=None, subject_call=None):
    """all switch tables in a function body (not descending into nested lambdas unless they are part of it)"""
    out = []
    for n in walk(func.body):
        if n['k'] == 'SwitchStmt':
            st = SwitchTable(n, func)
            if enum is not None and (st.enum is None or not st.enum.endswith(enum)):
                continue
            if subject_call is not None:
                c = strip(st.cond, casts=True) if st.cond is not None else None
                if c is None or not is_call(c, subject_call):
                    continue
            out.append(st)
    return out


# ----------------------------------------------------------------------------------------
# emitter skeletons

class Emit:
    """linearised emission events of a statement list that prints C++ to a std::ostream"""

    def __init__(self, hole_of, stream_names=('out',)):
        self.hole_of = hole_of          # call node -> hole key or None ("dispatch(*args[i], out)")
        self.stream_names = stream_names

    def _is_stream(self, n):
        n = strip(n, casts=True)
        return n is not None and n['k'] == 'DeclRefExpr' and n.get('name') in self.stream_names

    def _chain(self, n):
        """flatten out << a << b ... ; returns list of operand nodes or None when not a stream chain"""
        n = strip(n)
        if n['k'] == 'CXXOperatorCallExpr' and n.get('op') == '<<':
            ops = kids(n)[1:]
            if len(ops) == 2:
                if self._is_stream(ops[0]):
                    return [ops[1]]
                left = self._chain(ops[0])
                if left is not None:
                    return left + [ops[1]]
        return None

    def events(self, stmts):
        ev = []
        for s in stmts:
            self._stmt(s, ev)
        return ev

    def _stmt(self, s, ev):
        if s is None:
            return
        k = s['k']
        if k in ('BreakStmt', 'NullStmt'):
            return
        if k == 'CompoundStmt':
            for c in kids(s):
                self._stmt(c, ev)
            return
        if k == 'ReturnStmt':
            for c in kids(s):
                self._stmt(c, ev)
            ev.append(('return',))
            return
        if k == 'IfStmt':
            roles = s.get('roles', [])
            cs = s['c']
            parts = dict(zip(roles, cs))
            th, el = [], []
            self._stmt(parts.get('then'), th)
            self._stmt(parts.get('else'), el)
            pre = []
            if parts.get('init') is not None:
                self._stmt(parts['init'], pre)
            ev.extend(pre)
            ev.append(('if', expr_key(parts['cond']), th, el, parts['cond']))
            return
        if k in ('ForStmt', 'CXXForRangeStmt', 'WhileStmt', 'DoStmt'):
            body = []
            roles = s.get('roles')
            if roles:
                b = dict(zip(roles, s['c'])).get('body')
            else:
                b = kids(s)[-1]
            self._stmt(b, body)
            ev.append(('loop', k, body, s))
            return
        if k == 'DeclStmt':
            ev.append(('decl', s))
            return
        e = strip(s)
        ch = self._chain(e)
        if ch is not None:
            for o in ch:
                oo = strip(o, casts=True)
                if oo['k'] == 'StringLiteral':
                    ev.append(('lit', oo.get('str', '')))
                elif oo['k'] == 'CharacterLiteral':
                    ev.append(('lit', chr(oo['val'])))
                else:
                    ev.append(('dyn', expr_key(oo), oo))
            return
        if is_call(e):
            h = self.hole_of(e)
            if h is not None:
                ev.append(('hole', h))
                return
        ev.append(('stmt', expr_key(e), e))


def skeleton(events):
    """concatenate a *straight-line* event list into a string with ⟨k⟩ holes; None if it branches/loops"""
    out = []
    for e in events:
        if e[0] == 'lit':
            out.append(e[1])
        elif e[0] == 'hole':
            out.append('⟨%s⟩' % (e[1],))
        elif e[0] in ('return',):
            continue
        elif e[0] == 'stmt':
            out.append('\x00STMT:%s\x00' % e[1])
        else:
            return None
    return ''.join(out)

"""Typed value terms: a common normal form for (a) clang expression trees from the interpreter and
(b) C++ expression *skeletons* printed by the synthesiser, so that the two hand-written back-ends
can be compared case by case (C24, C02) and each against the declared operator types.

Term grammar (tuples; second component is always the value type):
  ('arg', 'S', i)              RamDomain value of operand i  (i: int | 'L' | 'R' | 'each')
  ('const', T, v)
  ('cast', T, t)               value conversion (static_cast / implicit conversion)
  ('bitcast', T, t)            ramBitCast<T>
  ('un', T, op, t)             - ~ !
  ('bin', T, op, a, b)
  ('call', T, name, (args))    named callee (std::pow, decode, encode, symbol2numeric<..>, ...)
  ('fold', T, fname, elemT, elemterm)   left fold of fname over all operands evaluated as elemterm
  ('var', T, name)             unresolved identifier (kept opaque)
Types: S int32, U uint32, F float, D double, B bool, L int64, Z size_t/uint64, Str std::string,
       '?' unknown/opaque.
"""
import re
from .facts import strip, kids, is_call, call_args, call_obj, expr_key


class TermError(Exception):
    pass


TYPE_CANON = {
    'int': 'S', 'const int': 'S', 'unsigned int': 'U', 'const unsigned int': 'U', 'float': 'F', 'const float': 'F',
    'double': 'D', 'bool': 'B', 'long': 'L', 'unsigned long': 'Z', 'long long': 'L', 'unsigned long long': 'Z',
    'char': 'C', 'const double': 'D', 'const bool': 'B', 'const long': 'L', 'const unsigned long': 'Z',
}
TYPE_NAMES = {
    'RamSigned': 'S', 'RamDomain': 'S', 'RamUnsigned': 'U', 'RamFloat': 'F', 'int64_t': 'L', 'int32_t': 'S',
    'uint32_t': 'U', 'uint64_t': 'Z', 'std::size_t': 'Z', 'size_t': 'Z', 'double': 'D', 'float': 'F', 'bool': 'B',
    'int': 'S', 'unsigned': 'U',
}


def canon_type(t):
    if t is None:
        return '?'
    t = t.replace('&', '').strip()
    if t in TYPE_CANON:
        return TYPE_CANON[t]
    if t.startswith('const '):
        return canon_type(t[6:])
    if 'basic_string<char' in t and 'basic_string_view' not in t and 'vector' not in t and 'map' not in t:
        return 'Str'
    return '?'


def ttype(t):
    return t[1]


# ----------------------------------------------------------------------------------------
# usual arithmetic conversions for the handful of types involved
RANK = {'B': 0, 'C': 0, 'S': 1, 'U': 2, 'L': 3, 'Z': 4, 'F': 5, 'D': 6}


def promote(t):
    return 'S' if t in ('B', 'C') else t


def arith_type(a, b):
    a, b = promote(a), promote(b)
    if a not in RANK or b not in RANK:
        return '?'
    return a if RANK[a] >= RANK[b] else b


CMP = ('<', '<=', '>', '>=', '==', '!=')
LOGIC = ('&&', '||')
ARITH = ('+', '-', '*', '/', '%', '&', '|', '^')
SHIFT = ('<<', '>>')


def mk_bin(op, a, b):
    ta, tb = ttype(a), ttype(b)
    if op in CMP or op in LOGIC or op == 'lxor':
        T = 'B'
        if op in CMP and ta != 'Str' and tb != 'Str':
            ct = arith_type(ta, tb)
            a, b = mk_cast(ct, a), mk_cast(ct, b)
        if op in LOGIC:
            a, b = mk_cast('B', a), mk_cast('B', b)
    elif op in SHIFT:
        T = promote(ta)
        a = mk_cast(T, a)
        b = mk_cast(promote(tb), b)
    elif ta == 'Str' or tb == 'Str':
        T = 'Str'
    else:
        T = arith_type(ta, tb)
        a, b = mk_cast(T, a), mk_cast(T, b)
    return ('bin', T, op, a, b)


def mk_un(op, a):
    ta = ttype(a)
    if op == '!':
        return ('un', 'B', '!', mk_cast('B', a))
    T = promote(ta)
    return ('un', T, op, mk_cast(T, a))


def mk_cast(T, a):
    if ttype(a) == T:
        return a
    return ('cast', T, a)


def mk_bitcast(T, a):
    if ttype(a) == T:
        return a
    return ('bitcast', T, a)


# ----------------------------------------------------------------------------------------
# clang tree -> term  (interpreter side)

class AstTermBuilder:
    """Builds a term from a clang expression, substituting single-assignment locals.
    arg_of(callnode) -> operand index for the repository's 'evaluate operand' idiom, or None."""

    def __init__(self, func, arg_of, env=None):
        self.func = func
        self.arg_of = arg_of
        self.env = dict(env or {})   # did -> term
        self.consts = {}             # global constant name -> folded value

    def T(self, n):
        return canon_type(n.get('t'))

    def build(self, n):
        n0 = n
        k = n['k']
        if k in ('ParenExpr', 'ExprWithCleanups', 'MaterializeTemporaryExpr', 'CXXBindTemporaryExpr', 'ConstantExpr',
                 'SubstNonTypeTemplateParmExpr'):
            return self.build(kids(n)[0])
        if k == 'ImplicitCastExpr':
            ck = n.get('ck')
            sub = self.build(kids(n)[0])
            if ck == 'LValueToRValue' and sub[0] == 'var' and 'cv' in n:
                self.consts[sub[2]] = int(n['cv'])
            if ck in ('IntegralCast', 'FloatingCast', 'IntegralToFloating', 'FloatingToIntegral', 'IntegralToBoolean',
                      'FloatingToBoolean'):
                return mk_cast(self.T(n), sub)
            return sub
        if k in ('CStyleCastExpr', 'CXXStaticCastExpr', 'CXXFunctionalCastExpr'):
            sub = self.build(kids(n)[0])
            T = self.T(n)
            if n.get('ck') in ('NoOp', 'LValueToRValue', 'ConstructorConversion', 'UserDefinedConversion'):
                return sub if T == '?' else mk_cast(T, sub)
            return mk_cast(T, sub)
        if k == 'IntegerLiteral':
            return ('const', self.T(n), int(n['val']))
        if k == 'CXXBoolLiteralExpr':
            return ('const', 'B', int(n['val']))
        if k == 'FloatingLiteral':
            return ('const', self.T(n), n['val'])
        if k == 'StringLiteral':
            return ('const', 'Str', n.get('str', ''))
        if k == 'DeclRefExpr':
            if n.get('did') in self.env:
                return self.env[n['did']]
            if n.get('dk') == 'EnumConstant':
                return ('const', 'S', int(n['val']))
            if 'cv' in n:
                return ('const', self.T(n), int(n['cv']))
            if n.get('dk') == 'Global' or n.get('dk') == 'StaticMember':
                return ('var', self.T(n), n.get('name'))
            return ('var', self.T(n), n.get('name', '?'))
        if k == 'UnaryOperator':
            op = n['op']
            sub = self.build(kids(n)[0])
            if op in ('*', '&'):
                return sub   # address-of / deref of decoded strings etc.: value-transparent here
            if op in ('-', '~', '!', '+'):
                t = mk_un(op, sub)
                return t
            raise TermError('unary %s' % op)
        if k == 'BinaryOperator':
            op = n['op']
            a, b = [self.build(c) for c in kids(n)]
            if op == ',':
                return b
            t = mk_bin(op, a, b)
            if self.T(n) != '?' and self.T(n) != t[1]:
                raise TermError('typing disagreement with clang at line %s: op %s gives %s, clang %s' % (n.get('l'), op, t[1], self.T(n)))
            return t
        if k == 'ConditionalOperator':
            c, a, b = [self.build(x) for x in kids(n)]
            return ('call', self.T(n), '?:', (c, a, b))
        if k in ('CallExpr', 'CXXMemberCallExpr', 'CXXOperatorCallExpr'):
            ai = self.arg_of(n)
            if ai is not None:
                return ('arg', 'S', ai)
            cn = n.get('cn')
            callee = n.get('callee', '')
            if cn == 'ramBitCast':
                To = canon_type((n.get('ta') or ['?'])[0])
                return mk_bitcast(To, self.build(call_args(n)[0]))
            if k == 'CXXOperatorCallExpr':
                ops = [self.build(c) for c in kids(n)[1:]]
                op = n.get('op')
                # lxor_infix war crime: curry<A>::operator+(A)  o  operator+(A, lxor_infix)
                if op == '+' and n.get('cc') == 'curry':
                    inner = strip(kids(n)[1], casts=False)
                    if is_call(inner) and inner.get('callee', '').startswith('souffle::evaluator::operator+'):
                        a = self.build(kids(inner)[1])
                        return ('bin', 'B', 'lxor', a, ops[1])
                    raise TermError('curry operator+ without lxor_infix')
                if op in CMP + ARITH and len(ops) == 2:
                    return mk_bin(op, ops[0], ops[1]) if ops[0][1] != '?' and ops[1][1] != '?' else ('bin', self.T(n), op, ops[0], ops[1])
                if op == '*' and len(ops) == 1:
                    return ops[0]
                if op == '<<' and len(ops) == 2:
                    return ('bin', '?', '<<stream', ops[0], ops[1])
                return ('call', self.T(n), 'operator' + str(op), tuple(ops))
            args = tuple(self.build(a) for a in call_args(n) if a['k'] != 'CXXDefaultArgExpr')
            if k == 'CXXMemberCallExpr':
                o = call_obj(n)
                ocls = n.get('cc')
                if cn in ('decode', 'encode') and ocls in ('SymbolTable', 'SymbolTableImpl'):
                    return ('call', 'Str' if cn == 'decode' else 'S', cn, args)
                ot = self.build(o) if o is not None and o['k'] != 'CXXThisExpr' else ('var', '?', 'this')
                return ('call', self.T(n), '.' + cn, (ot,) + args)
            name = callee
            if n.get('ta') and cn in ('symbol2numeric',):
                name = 'symbol2numeric<%s>' % canon_type(n['ta'][0])
            if callee in ('std::pow', 'pow'):
                name = 'std::pow'
            if callee in ('std::max', 'std::min'):
                name = callee
            if callee.startswith('std::to_string') or callee.endswith('::to_string'):
                name = 'std::to_string'
            return ('call', self.T(n), name, args)
        if k in ('CXXTemporaryObjectExpr', 'CXXScalarValueInitExpr') and not kids(n):
            return ('call', self.T(n), 'ctor:' + n.get('cn', '?'), ())
        if k in ('CXXConstructExpr', 'CXXTemporaryObjectExpr'):
            cs = kids(n)
            if len(cs) == 1:
                return self.build(cs[0])
            return ('call', self.T(n), 'ctor:' + n.get('cn', '?'), tuple(self.build(c) for c in cs))
        if k == 'MemberExpr':
            return ('var', self.T(n), expr_key(n))
        if k == 'CXXThisExpr':
            return ('var', '?', 'this')
        if k == 'InitListExpr':
            return ('call', self.T(n), 'initlist', tuple(self.build(c) for c in kids(n)))
        if k == 'CXXStdInitializerListExpr':
            return self.build(kids(n)[0])
        if k == 'CXXNullPtrLiteralExpr':
            return ('const', '?', 'nullptr')
        if k == 'CXXDefaultArgExpr':
            return ('const', '?', 'default')
        raise TermError('unsupported node %s at line %s' % (k, n0.get('l')))


# ----------------------------------------------------------------------------------------
# skeleton string -> term  (synthesiser side)

TOK = re.compile(r'''\s*(?:
    (?P<hole>⟨[^⟩]*⟩) |
    (?P<num>\d+[uUlL]*) |
    (?P<id>[A-Za-z_][A-Za-z_0-9]*(?:::[A-Za-z_][A-Za-z_0-9]*)*) |
    (?P<op>\|\||&&|<<|>>|<=|>=|==|!=|->|[-+*/%&|^~!<>(){},.?:\[\]])
)''', re.X)


def tokenize(s):
    pos = 0
    out = []
    s = s.strip()
    while pos < len(s):
        m = TOK.match(s, pos)
        if not m or m.end() == pos:
            raise TermError('cannot tokenise skeleton at %r' % s[pos:pos + 30])
        pos = m.end()
        for kind in ('hole', 'num', 'id', 'op'):
            if m.group(kind) is not None:
                out.append((kind, m.group(kind)))
                break
    return out


BINPREC = [('||',), ('&&',), ('|',), ('^',), ('&',), ('==', '!='), ('<', '<=', '>', '>='), ('<<', '>>'), ('+', '-'),
           ('*', '/', '%')]


class SkelParser:
    """A small C++ expression parser sufficient for the emitter skeletons (types are the Ram* names)."""

    def __init__(self, text):
        self.toks = tokenize(text)
        self.i = 0

    def peek(self, k=0):
        return self.toks[self.i + k] if self.i + k < len(self.toks) else (None, None)

    def next(self):
        t = self.peek()
        self.i += 1
        return t

    def expect(self, v):
        t = self.next()
        if t[1] != v:
            raise TermError('expected %r got %r' % (v, t[1]))

    def parse(self):
        t = self.expr(0)
        if self.i != len(self.toks):
            raise TermError('trailing tokens %r' % (self.toks[self.i:self.i + 5],))
        return t

    def expr(self, level):
        if level >= len(BINPREC):
            return self.unary()
        a = self.expr(level + 1)
        while self.peek()[0] == 'op' and self.peek()[1] in BINPREC[level]:
            # '<' could open template args only directly after an id, handled in primary
            op = self.next()[1]
            b = self.expr(level + 1)
            if op == '+' and b == ('var', '?', 'souffle::evaluator::lxor_infix()'):
                # a + lxor_infix() + c
                self.expect('+')
                c = self.expr(level + 1)
                a = ('bin', 'B', 'lxor', a, c)
                continue
            a = mk_bin(op, a, b)
        return a

    def is_type(self, tok):
        return tok[0] == 'id' and tok[1] in TYPE_NAMES

    def unary(self):
        k, v = self.peek()
        if k == 'op' and v in ('-', '~', '!', '+'):
            self.next()
            return mk_un(v, self.unary())
        if k == 'op' and v == '(' and self.is_type(self.peek(1)) and self.peek(2)[1] == ')':
            # C-style cast
            self.next()
            T = TYPE_NAMES[self.next()[1]]
            self.next()
            return mk_cast(T, self.unary())
        return self.postfix()

    def args(self, close):
        out = []
        while self.peek()[1] != close:
            out.append(self.expr(0))
            if self.peek()[1] == ',':
                self.next()
        self.expect(close)
        return out

    def postfix(self):
        t = self.primary()
        while True:
            k, v = self.peek()
            if v in ('.', '->'):
                self.next()
                name = self.next()[1]
                if self.peek()[1] == '(':
                    self.next()
                    a = self.args(')')
                    t = self.member_call(t, name, a)
                else:
                    t = ('var', '?', (t[2] if t[0] == 'var' else '?') + '.' + name)
            elif v == '(' and t[0] == 'var':
                self.next()
                a = self.args(')')
                t = self.call(t[2], a)
            else:
                return t

    def member_call(self, obj, name, a):
        if obj[0] == 'var' and obj[2] == 'symTable' and name in ('decode', 'encode'):
            return ('call', 'Str' if name == 'decode' else 'S', name, tuple(a))
        T = '?'
        if name == 'size' or name == 'find':
            T = 'Z'
        return ('call', T, '.' + name, (obj,) + tuple(a))

    def call(self, name, a):
        m = re.match(r'^(.*)<(\w+)>$', name)
        if m:
            base, targ = m.group(1), m.group(2)
            T = TYPE_NAMES.get(targ, '?')
            if base == 'ramBitCast':
                return mk_bitcast(T, a[0])
            if base == 'static_cast':
                return mk_cast(T, a[0])
            if base.endswith('symbol2numeric'):
                return ('call', T, 'symbol2numeric<%s>' % T, tuple(a))
            raise TermError('unknown template callee %s' % name)
        if name in TYPE_NAMES:   # functional cast
            if len(a) != 1:
                raise TermError('functional cast arity')
            return mk_cast(TYPE_NAMES[name], a[0])
        if name == 'ramBitCast':
            return mk_bitcast('S', a[0])
        if name == 'std::pow':
            ts = [ttype(x) for x in a]
            T = 'F' if all(t == 'F' for t in ts) else 'D'
            return ('call', T, 'std::pow', tuple(a))
        if name == 'std::to_string':
            return ('call', 'Str', 'std::to_string', tuple(a))
        if name in ('std::max', 'std::min'):
            if len(a) == 1 and a[0][0] == 'call' and a[0][2] == 'initlist':
                elems = a[0][3]
                T = ttype(elems[0]) if elems else '?'
                return ('call', T, name, tuple(elems))
            return ('call', ttype(a[0]), name, tuple(a))
        if name == 'souffle::evaluator::lxor_infix' and not a:
            return ('var', '?', 'souffle::evaluator::lxor_infix()')
        return ('call', '?', name, tuple(a))

    def primary(self):
        k, v = self.next()
        if k == 'hole':
            key = v[1:-1]
            try:
                key = int(key)
            except ValueError:
                pass
            return ('arg', 'S', key)
        if k == 'num':
            vv = v.rstrip('uUlL')
            return ('const', 'U' if 'u' in v.lower() else 'S', int(vv))
        if k == 'op' and v == '(':
            t = self.expr(0)
            self.expect(')')
            return t
        if k == 'op' and v == '{':
            a = self.args('}')
            return ('call', '?', 'initlist', tuple(a))
        if k == 'id':
            name = v
            # template-id?  name < Type > (
            if self.peek()[1] == '<' and self.is_type(self.peek(1)) and self.peek(2)[1] == '>':
                self.next()
                targ = self.next()[1]
                self.next()
                name = '%s<%s>' % (name, targ)
            if name == 'RAM_BIT_SHIFT_MASK':
                return ('var', 'S', 'RAM_BIT_SHIFT_MASK')
            if name == 'std::string::npos':
                return ('var', 'Z', 'npos')
            if name in ('true', 'false'):
                return ('const', 'B', 1 if name == 'true' else 0)
            return ('var', '?', name)
        raise TermError('unexpected token %r' % (v,))


def parse_skeleton(text):
    return SkelParser(text).parse()


# ----------------------------------------------------------------------------------------
# normalisation

SIGN_AGNOSTIC_BIN = ('+', '-', '*', '&', '|', '^')   # two's-complement under -fwrapv: same bits at S and U
SIGN_AGNOSTIC_UN = ('-', '~')


def simplify(t):
    """remove no-op conversions; canonicalise S<->U bitcasts to casts; fold constants' casts"""
    k = t[0]
    if k in ('arg', 'const', 'var'):
        if k == 'var' and t[2] in ('souffle::RAM_BIT_SHIFT_MASK', 'RAM_BIT_SHIFT_MASK'):
            return ('var', 'S', 'RAM_BIT_SHIFT_MASK')
        return t
    if k in ('cast', 'bitcast'):
        T, a = t[1], simplify(t[2])
        if ttype(a) == T:
            return a
        if k == 'bitcast' and {T, ttype(a)} <= {'S', 'U'}:
            k = 'cast'
        if k == 'cast' and a[0] == 'const' and isinstance(a[2], int) and T in ('S', 'U', 'L', 'Z'):
            return ('const', T, a[2])
        return (k, T, a)
    if k == 'un':
        return ('un', t[1], t[2], simplify(t[3]))
    if k == 'bin':
        return ('bin', t[1], t[2], simplify(t[3]), simplify(t[4]))
    if k == 'call':
        return ('call', t[1], t[2], tuple(simplify(a) for a in t[3]))
    if k == 'fold':
        return ('fold', t[1], t[2], t[3], simplify(t[4]))
    return t


def bits(t):
    """the 32-bit pattern finally stored in a RamDomain: sign-agnostic normal form at the top of a term"""
    t = simplify(t)
    k = t[0]
    if k == 'cast' and t[1] in ('S', 'U') and ttype(t[2]) in ('S', 'U', 'B'):
        return bits(t[2])
    if k == 'bitcast' and t[1] in ('S', 'U'):
        if ttype(t[2]) in ('S', 'U'):
            return bits(t[2])
        return ('bitsof', t[2][1], strict(t[2]))
    if k == 'bin' and t[2] in SIGN_AGNOSTIC_BIN and t[1] in ('S', 'U'):
        return ('binI', t[2], bits(t[3]), bits(t[4]))
    if k == 'bin' and t[2] == '<<' and t[1] in ('S', 'U'):
        # left shift: same bits at either signedness (wrap-around); the amount is compared by bits
        return ('shl', bits(t[3]), bits(t[4]))
    if k == 'un' and t[2] in SIGN_AGNOSTIC_UN and t[1] in ('S', 'U'):
        return ('unI', t[2], bits(t[3]))
    if ttype(t) == 'B':
        return ('bool', boolval(t))
    return strict(t)


def boolval(t):
    """truth value: (x != 0) is sign-agnostic"""
    t = simplify(t)
    k = t[0]
    if k == 'cast' and t[1] == 'B':
        y = t[2]
        if y[0] == 'cast' and y[1] in ('S', 'U') and ttype(y[2]) == 'B':
            return boolval(y[2])     # bool -> int -> bool
        if ttype(y) in ('S', 'U'):
            return ('nz', bits(y))
        return ('nz', strict(y))
    if k == 'un' and t[2] == '!':
        return ('not', boolval(t[3]))
    if k == 'bin' and t[2] in LOGIC + ('lxor',):
        return (t[2], boolval(t[3]), boolval(t[4]))
    return strict(t)


def strict(t):
    """type-exact normal form below the top"""
    t = simplify(t)
    k = t[0]
    if k == 'arg':
        return t
    if k in ('const', 'var'):
        return t
    if k in ('cast', 'bitcast'):
        return (k, t[1], strict(t[2]))
    if k == 'un':
        if t[2] == '!':
            return ('bool', boolval(t))
        return ('un', t[1], t[2], strict(t[3]))
    if k == 'bin':
        if t[2] in LOGIC + ('lxor',):
            return ('bool', boolval(t))
        if t[2] == '>>':
            # right shift: the left operand's signedness matters, the (masked) amount only by bits
            return ('shr', t[1], strict(t[3]), bits(t[4]))
        return ('bin', t[1], t[2], strict(t[3]), strict(t[4]))
    if k == 'call':
        return ('call', t[1], t[2], tuple(strict(a) for a in t[3]))
    if k == 'fold':
        return ('fold', t[1], t[2], t[3], strict(t[4]))
    return t


def show(t):
    if not isinstance(t, tuple):
        return str(t)
    k = t[0]
    if k == 'arg':
        return '$%s' % (t[2],)
    if k == 'const':
        return '%s:%s' % (t[2], t[1])
    if k == 'var':
        return '%s' % (t[2],)
    if k in ('cast', 'bitcast'):
        return '%s<%s>(%s)' % (k, t[1], show(t[2]))
    if k == 'un':
        return '(%s%s)@%s' % (t[2], show(t[3]), t[1])
    if k == 'bin':
        return '(%s %s %s)@%s' % (show(t[3]), t[2], show(t[4]), t[1])
    if k == 'call':
        return '%s(%s)@%s' % (t[2], ', '.join(show(a) for a in t[3]), t[1])
    if k == 'fold':
        return 'fold[%s over %s](%s)@%s' % (t[2], t[3], show(t[4]), t[1])
    return '%s(%s)' % (k, ', '.join(show(a) for a in t[1:]))


def operand_types(t, acc=None):
    """{operand index: set of types at which the operand value is consumed}"""
    if acc is None:
        acc = {}

    def rec(x, ctx):
        if not isinstance(x, tuple):
            return
        k = x[0]
        if k == 'arg':
            acc.setdefault(x[2], set()).add(ctx or 'S')
            return
        if k in ('cast', 'bitcast'):
            if x[2][0] == 'arg':
                acc.setdefault(x[2][2], set()).add(x[1])
                return
            rec(x[2], None)
            return
        for c in x[1:]:
            if isinstance(c, tuple) and c and isinstance(c[0], str):
                rec(c, None)
            elif isinstance(c, tuple):
                for cc in c:
                    rec(cc, None)
    rec(t, None)
    return acc

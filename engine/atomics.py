"""E4 atomics: classification of accesses to std::atomic objects in clang trees."""
from .facts import kids, strip, is_call, call_args, call_obj, expr_key, walk

ORDERS = ('relaxed', 'consume', 'acquire', 'release', 'acq_rel', 'seq_cst')
ACQUIRE_OK = ('acquire', 'acq_rel', 'seq_cst')
RELEASE_OK = ('release', 'acq_rel', 'seq_cst')

RMW = {'fetch_add': '+', 'fetch_sub': '-', 'fetch_or': '|', 'fetch_and': '&', 'fetch_xor': '^', 'exchange': 'xchg'}
ATOMIC_CLASSES = ('atomic', '__atomic_base', 'atomic_flag', '__atomic_flag_base', '__atomic_float')


def order_of(n):
    """memory order named by an argument node, or None"""
    if n is None:
        return None
    if n['k'] == 'CXXDefaultArgExpr':
        return 'seq_cst'
    x = strip(n, casts=True)
    if x['k'] == 'DeclRefExpr' and x.get('name', '').startswith('memory_order_'):
        return x['name'][len('memory_order_'):]
    if x['k'] == 'CXXDefaultArgExpr':
        return 'seq_cst'
    if is_call(x, '__cmpexch_failure_order'):
        return 'derived'
    return '?'


def is_atomic_type(t):
    return t is not None and ('std::atomic<' in t or 'std::__atomic_base<' in t or t.startswith('atomic<') or 'std::atomic_flag' in t)


def atomic_op(n):
    """classify a call node as an atomic access: dict(kind, op, obj, objkey, operand, order, fail_order, node)"""
    if n is None:
        return None
    k = n['k']
    if k == 'CXXMemberCallExpr' and n.get('cc') in ATOMIC_CLASSES:
        cn = n.get('cn', '')
        obj = call_obj(n)
        a = call_args(n)
        base = dict(obj=obj, objkey=expr_key(obj) if obj is not None else '?', node=n, operand=None, order=None, fail_order=None, op=None)
        if cn == 'load':
            base.update(kind='load', order=order_of(a[0]) if a else 'seq_cst')
            return base
        if cn == 'store':
            base.update(kind='store', operand=a[0], order=order_of(a[1]) if len(a) > 1 else 'seq_cst')
            return base
        if cn in RMW:
            base.update(kind='rmw', op=RMW[cn], operand=a[0], order=order_of(a[1]) if len(a) > 1 else 'seq_cst')
            return base
        if cn in ('compare_exchange_strong', 'compare_exchange_weak'):
            base.update(kind='cas', op=cn, expected=a[0], operand=a[1],
                        order=order_of(a[2]) if len(a) > 2 else 'seq_cst',
                        fail_order=order_of(a[3]) if len(a) > 3 else 'derived')
            return base
        if cn.startswith('operator ') and not a:      # implicit conversion = seq_cst load
            base.update(kind='load', order='seq_cst', implicit=True)
            return base
        if cn in ('test_and_set',):
            base.update(kind='rmw', op='tas', order=order_of(a[0]) if a else 'seq_cst')
            return base
        if cn in ('clear',):
            base.update(kind='store', order=order_of(a[0]) if a else 'seq_cst')
            return base
        if cn in ('is_lock_free',):
            return None
        base.update(kind='other:' + cn)
        return base
    if k == 'CXXOperatorCallExpr' and n.get('cc') in ATOMIC_CLASSES:
        ops = kids(n)[1:]
        op = n.get('op')
        obj = ops[0] if ops else None
        base = dict(obj=obj, objkey=expr_key(obj) if obj is not None else '?', node=n, operand=ops[1] if len(ops) > 1 else None,
                    order='seq_cst', fail_order=None)
        if op in ('++', '--'):
            base.update(kind='rmw', op='+' if op == '++' else '-', unit=True, postfix=len(ops) > 1)
            return base
        if op in ('+=', '-=', '|=', '&=', '^='):
            base.update(kind='rmw', op=op[0])
            return base
        if op == '=':
            base.update(kind='store')
            return base
        base.update(kind='other:operator' + str(op))
        return base
    if k == 'CallExpr' and n.get('callee') in ('std::atomic_thread_fence',):
        a = call_args(n)
        return dict(kind='fence', order=order_of(a[0]) if a else 'seq_cst', node=n, obj=None, objkey=None, operand=None, op=None,
                    fail_order=None)
    return None


def atomic_ops_in(root):
    out = []
    for n in walk(root):
        a = atomic_op(n)
        if a is not None:
            out.append(a)
    return out

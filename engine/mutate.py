"""Mutation self-test (thorough tier): each mutant edits ONE file of the current tree in a private
overlay copy, the property's analysis is re-run on it, and the named rule must report a violation."""
from . import facts
from .report import Report


class Mutant:
    def __init__(self, name, rel, old, new, expect=None, count=1):
        self.name, self.rel, self.old, self.new, self.expect, self.count = name, rel, old, new, expect, count


def run_mutants(rep, pid, mutants, analyse):
    """analyse(sub_report) runs the property's rules into sub_report (facts are extracted inside, so the
    overlay is honoured).  Results are recorded in rep.extra['mutants'] and as controls."""
    results = []
    for m in mutants:
        try:
            content = facts.read_repo(m.rel)
        except OSError:
            results.append(dict(mutant=m.name, status='file vanished'))
            continue
        if m.old not in content:
            results.append(dict(mutant=m.name, status='does not apply to the current source (skipped)'))
            rep.notes.append('mutant %s does not apply to the current source' % m.name)
            continue
        mutated = content.replace(m.old, m.new, m.count)
        sub = Report(pid, rep.tier)
        sub.known = []
        with facts.Overlay({m.rel: mutated}):
            try:
                analyse(sub)
            except facts.Broken as e:
                sub.analysis_broken(str(e))
        viol = [o for o in sub.obligations if not o['ok']]
        hit = [o for o in viol if m.expect is None or o['rule'].startswith(m.expect)]
        status = 'killed' if hit else ('analysis-broken' if sub.broken else 'SURVIVED')
        results.append(dict(mutant=m.name, file=m.rel, status=status,
                            reported=[(o['rule'], o['instance']) for o in viol][:4], broken=sub.broken[:2]))
        rep.control('mutant:' + m.name, bool(hit), '' if hit else 'mutant survived (%s)' % (sub.broken[:1] or 'no violation reported'))
    rep.extra['mutants'] = results
    if rep.tier == 'thorough':
        neutral_edits(rep, pid, sorted({m.rel for m in mutants}), analyse)
    return results


NEUTRAL_HEADER = '// verification: behaviour-preserving edit (shifts every line of this file)\n\n\n'


def neutral_edits(rep, pid, files, analyse):
    """negative controls: a behaviour-preserving edit (three lines inserted at the top of each file a mutant touches, so that every
    construct moves) must raise neither a violation nor analysis-broken, and must leave the set of instance keys unchanged -- a rule
    keyed on positions or frozen text would show up here, on every thorough run"""
    base = {(o['rule'], o['instance']) for o in rep.obligations}
    out = []
    for rel in files:
        try:
            content = facts.read_repo(rel)
        except OSError:
            continue
        sub = Report(pid, rep.tier)
        sub.known = []
        with facts.Overlay({rel: NEUTRAL_HEADER + content}):
            try:
                analyse(sub)
            except facts.Broken as e:
                sub.analysis_broken(str(e))
        known = {(k['rule'], k['instance']) for k in rep.known} if hasattr(rep, 'known') and rep.known and isinstance(rep.known[0], dict) else set()
        viol = [o for o in sub.obligations if not o['ok'] and (o['rule'], o['instance']) not in known
                and (o['rule'], o['instance']) not in {(b['rule'], b['instance']) for b in rep.obligations if not b['ok']}]
        keys = {(o['rule'], o['instance']) for o in sub.obligations}
        # compare over the rules this analysis function produces (a check may run extra rule families once, outside the mutant loop)
        rules_sub = {r for r, _ in keys}
        drift = sorted({(r, i) for (r, i) in base if r in rules_sub} ^ keys)[:3]
        ok = not viol and not sub.broken and not drift
        out.append(dict(file=rel, silent=ok, violations=[(o['rule'], o['instance']) for o in viol][:3], broken=sub.broken[:2], key_drift=drift))
        if not ok:
            rep.analysis_broken('a behaviour-preserving edit of %s changed the verdict: violations %s, broken %s, instance-key drift %s' % (
                rel, [(o['rule'], o['instance']) for o in viol][:2], sub.broken[:1], drift))
    rep.extra['neutral_edits'] = out

"""Mutation self-test (thorough tier): each mutant edits ONE file of the current tree in a private
overlay copy, the property's analysis is re-run on it, and the named rule must report a violation."""
from . import facts
from .report import Report


class Mutant:
    def __init__(self, name, rel, old, new, expect=None, count=1):
        self.name, self.rel, self.old, self.new, self.expect, self.count = name, rel, old, new, expect, count


def run_mutants(rep, pid, mutants, analyse):
    """analyse(sub_report) runs the property's rules into sub_report (facts are extracted inside, so the
    overlay is honoured).  Results are recorded in rep.extra['mutants'] and as controls."""
    results = []
    for m in mutants:
        try:
            content = facts.read_repo(m.rel)
        except OSError:
            results.append(dict(mutant=m.name, status='file vanished'))
            continue
        if m.old not in content:
            results.append(dict(mutant=m.name, status='does not apply to the current source (skipped)'))
            rep.notes.append('mutant %s does not apply to the current source' % m.name)
            continue
        mutated = content.replace(m.old, m.new, m.count)
        sub = Report(pid, rep.tier)
        sub.known = []
        with facts.Overlay({m.rel: mutated}):
            try:
                analyse(sub)
            except facts.Broken as e:
                sub.analysis_broken(str(e))
        viol = [o for o in sub.obligations if not o['ok']]
        hit = [o for o in viol if m.expect is None or o['rule'].startswith(m.expect)]
        status = 'killed' if hit else ('analysis-broken' if sub.broken else 'SURVIVED')
        results.append(dict(mutant=m.name, file=m.rel, status=status,
                            reported=[(o['rule'], o['instance']) for o in viol][:4], broken=sub.broken[:2]))
        rep.control('mutant:' + m.name, bool(hit), '' if hit else 'mutant survived (%s)' % (sub.broken[:1] or 'no violation reported'))
    rep.extra['mutants'] = results
    return results

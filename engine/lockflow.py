"""Write-phase pairing of OptimisticReadWriteLock use sites (C25/C26/C28): a pathflow client.

Abstract state (all components frozensets, so states are hashable):
  held   lock expressions this function has write-acquired and not yet released / transferred
  ext    lock expressions the *caller* holds (established by the function's leading asserts)
  facts  ('null'|'nonnull', var) for local pointers, ('res', call-id, bool) for try_*/is_write_locked
         outcomes, ('rootchanged', bool)
  env    local variable -> ('res', id) | ('iter', C) | ('elem', C) | ('cont', C) | ('saved', key)
  cont   (C, 'loaded'|'drained') for node containers holding locked nodes
  drain  (C, n) releases performed in the current drain-loop iteration
Violations are collected in client.violations as (rule, message, line)."""
from . import pathflow
from .facts import kids, strip, is_call, call_args, call_obj, expr_key, walk

LOCK_CLS = 'OptimisticReadWriteLock'
ACQ = ('start_write',)
TRY = ('try_start_write', 'try_upgrade_to_write')
REL = ('end_write', 'abort_write')
NODE_METHODS = ('split', 'rebalance_or_split', 'grow_parent', 'insert_inner')


def fs_set(fs, key, val):
    return frozenset([x for x in fs if x[0] != key] + [(key, val)])


def fs_get(fs, key, default=None):
    for x in fs:
        if x[0] == key and len(x) == 2:
            return x[1]
    return default


def base_var(key):
    for sep in ('->', '.'):
        if sep in key:
            return key.split(sep)[0]
    return key


class State(tuple):
    __slots__ = ()
    held = property(lambda s: s[0])
    ext = property(lambda s: s[1])
    facts = property(lambda s: s[2])
    env = property(lambda s: s[3])
    cont = property(lambda s: s[4])
    drain = property(lambda s: s[5])

    def rep(self, **kw):
        names = ('held', 'ext', 'facts', 'env', 'cont', 'drain')
        return State(tuple(kw.get(n, self[i]) for i, n in enumerate(names)))


class LockClient(pathflow.Client):
    def __init__(self, func, self_name=None, param_containers=(), store_rules=None, lease_rule=False):
        self.lease_rule = lease_rule
        self.func = func
        self.self_name = self_name or func.name
        self.violations = []       # (rule, message, line)
        self.events = {'acquire': set(), 'release': set(), 'transfer': set(), 'drain': set(), 'try': set(),
                       'precond': set(), 'store': set(), 'restart': set()}
        self.param_containers = set(param_containers)
        self.store_rules = store_rules or []   # [(predicate(lhs_key) -> required lock key or None)]

    def viol(self, rule, msg, n):
        v = (rule, msg, n.get('l', 0) if isinstance(n, dict) else 0)
        if v not in self.violations:
            self.violations.append(v)

    def initial(self, func):
        cont = frozenset((c, 'loaded') for c in self.param_containers)
        return State((frozenset(), frozenset(), frozenset(), frozenset(), cont, frozenset()))

    # ---- helpers
    def _lock_call(self, n):
        if n.get('k') == 'CXXMemberCallExpr' and n.get('cc') == LOCK_CLS:
            o = call_obj(n)
            return n.get('cn'), (expr_key(o) if o is not None else '?')
        return None, None

    def _local(self, n):
        n = strip(n, casts=True)
        if n is not None and n['k'] == 'DeclRefExpr' and n.get('dk') in ('Local', 'Parm'):
            return n
        return None

    def _assign_var(self, st, name, did, init, n):
        """local variable (re)defined"""
        for h in st.held:
            if base_var(h) == name and '->' in h:
                self.viol('R1-base-reassigned', 'variable `%s` reassigned while %s is write-held' % (name, h), n)
        facts = frozenset(f for f in st.facts if not (f[0] in ('null', 'nonnull', 'unverified') and f[1] == name))
        env = frozenset(e for e in st.env if e[0] != name)
        val = None
        if init is not None:
            i = strip(init, casts=True)
            if is_call(i) and i.get('cc') == LOCK_CLS and i.get('cn') in TRY + ('is_write_locked',):
                val = ('res', i['id'])
            elif is_call(i) and i.get('cn') in ('begin', 'rbegin', 'cbegin', 'crbegin') and call_obj(i) is not None:
                c = self._container_of(st, call_obj(i))
                if c:
                    val = ('iter', c)
            elif is_call(i) and i.get('cn') in ('end', 'rend', 'cend', 'crend') and call_obj(i) is not None:
                c = self._container_of(st, call_obj(i))
                if c:
                    val = ('enditer', c)
            elif i['k'] == 'CXXOperatorCallExpr' and i.get('op') == '*' or (i['k'] == 'UnaryOperator' and i.get('op') == '*'):
                src = self._local(kids(i)[-1])
                if src is not None:
                    v = fs_get(st.env, src['name'])
                    if v and v[0] == 'iter':
                        val = ('elem', v[1])
            elif i['k'] == 'DeclRefExpr' and i.get('dk') in ('Local', 'Parm'):
                v = fs_get(st.env, i['name'])
                if v and v[0] in ('cont', 'iter', 'elem'):
                    val = v
                elif i['name'] in [c for c, _ in st.cont]:
                    val = ('cont', i['name'])
            elif i['k'] == 'MemberExpr' and expr_key(i) in ('root',):
                val = ('saved', 'root')
            elif i['k'] == 'MemberExpr' and i.get('member') == 'parent' and i.get('arrow'):
                val = ('from', expr_key(i))
            elif i['k'] == 'UnaryOperator' and i.get('op') == '*' and False:
                pass
            if val is None and i['k'] in ('CXXNewExpr',):
                facts = facts | {('nonnull', name)}
        if val is not None:
            env = env | {(name, val)}
        return st.rep(facts=facts, env=env)

    def _container_of(self, st, obj):
        o = self._local(obj)
        if o is None:
            return None
        v = fs_get(st.env, o['name'])
        if v and v[0] == 'cont':
            return v[1]
        if any(c == o['name'] for c, _ in st.cont):
            return o['name']
        return None

    def _is_node_container_type(self, t):
        return t is not None and 'std::vector<' in t and 'node *' in t

    # ---- transfer
    def transfer(self, st, n, func):
        k = n.get('k')
        if k is None:
            return [st]
        if k == 'DeclStmt':
            for vd in kids(n):
                if vd['k'] != 'VarDecl':
                    continue
                init = kids(vd)[0] if kids(vd) else None
                st = self._assign_var(st, vd['name'], vd['did'], init, vd)
                if self._is_node_container_type(vd.get('t')) and '&' not in vd.get('t', ''):
                    st = st.rep(cont=fs_set(st.cont, vd['name'], 'empty'))
            return [st]
        if k == 'BinaryOperator' and n['op'] == '=':
            lhs = self._local(kids(n)[0])
            if lhs is not None:
                if self.lease_rule and lhs['name'] == 'cur' and ('dirty', 'cur') in st.facts:
                    self.viol('R2-result-from-unvalidated-read', 'descent to a child chosen from node data read under a lease that was not '
                              'validated (end_read) on this path', n)
                    st = st.rep(facts=frozenset(f for f in st.facts if f[0] != 'dirty'))
                elif lhs['name'] == 'cur':
                    st = st.rep(facts=frozenset(f for f in st.facts if f[0] != 'dirty'))
                return [self._assign_var(st, lhs['name'], lhs['did'], kids(n)[1], n)]
            self._store(st, kids(n)[0], n)
            return [st]
        if k in ('CompoundAssignOperator',) or (k == 'UnaryOperator' and n.get('op') in ('++', '--')):
            tgt = kids(n)[0]
            loc = self._local(tgt)
            if loc is not None:
                v = fs_get(st.env, loc['name'])
                if v and v[0] == 'iter' and k == 'UnaryOperator':
                    return [self._iter_advance(st, v[1], n)]
                return [st]
            self._store(st, tgt, n)
            return [st]
        if k == 'CXXOperatorCallExpr' and n.get('op') in ('++', '--'):
            loc = self._local(kids(n)[1])
            if loc is not None:
                v = fs_get(st.env, loc['name'])
                if v and v[0] == 'iter':
                    return [self._iter_advance(st, v[1], n)]
            return [st]
        cn, key = self._lock_call(n)
        if cn is not None:
            if cn in ('validate', 'end_read'):
                # the success outcome certifies everything read under the lease so far
                facts = frozenset(f for f in st.facts if not (f[0] == 'res' and f[1] == n['id']))
                ok = st.rep(facts=frozenset(f for f in facts if f[0] != 'dirty') | {('res', n['id'], True)})
                no = st.rep(facts=facts | {('res', n['id'], False)})
                self.events.setdefault('validate', set()).add((key, n.get('l')))
                return [ok, no]
            return self._lock_event(st, cn, key, n)
        if k == 'MemberExpr' and self.lease_rule and n.get('arrow') and n.get('member') in ('keys', 'numElements', 'inner', 'children') and kids(n):
            b = strip(kids(n)[0], casts=True)
            if b['k'] == 'DeclRefExpr' and b.get('dk') == 'Local':
                lk = b['name'] + '->lock'
                if lk not in st.held and lk not in st.ext and b['name'] == 'cur':
                    return [st.rep(facts=st.facts | {('dirty', b['name'])})]
            return [st]
        if k == 'CXXMemberCallExpr' and n.get('cn') in ('push_back', 'emplace_back'):
            c = self._container_of(st, call_obj(n)) if call_obj(n) is not None else None
            if c is not None:
                return [self._transfer(st, c, call_args(n)[0], n)]
            return [st]
        if k == 'CXXMemberCallExpr' and n.get('cn') in NODE_METHODS:
            self._precondition(st, n)
            return [st]
        if k == 'ReturnStmt' and self.lease_rule:
            restart = any(is_call(m) and m.get('cn') == self.self_name for m in walk(n))
            if not restart and any(f[0] == 'dirty' for f in st.facts):
                self.viol('R2-result-from-unvalidated-read', 'a result is returned from node data read under a read lease that was never validated '
                          'on this path (a concurrent writer may have been half-way through moving keys)', n)
        if k == 'ReturnStmt':
            for m in walk(n):
                if is_call(m) and m.get('cn') == self.self_name and m.get('cdid') is not None and m.get('cc') == func.d.get('cls'):
                    self.events['restart'].add(m.get('l'))
                    self._check_clean(st, m, 'restart (tail self-call)')
            return [st]
        return [st]

    def _iter_advance(self, st, c, n):
        cnt = fs_get(st.drain, c, 0)
        if fs_get(st.cont, c) == 'loaded':
            if cnt != 1:
                self.viol('R1-drain-incomplete', 'one iteration of the drain loop over `%s` released %d lock(s); each stored node '
                          '(or the root lock standing for nullptr) must be released exactly once' % (c, cnt), n)
        return st.rep(drain=fs_set(st.drain, c, 0))

    def _store(self, st, lhs, n):
        if not self.store_rules:
            return
        key = expr_key(lhs)
        for rule in self.store_rules:
            need = rule(key)
            if need is not None:
                self.events['store'].add((key, n.get('l')))
                if need not in st.held and need not in st.ext:
                    self.viol('R3-store-outside-write-phase', 'store to `%s` while %s is not write-held (held: %s)' % (
                        key, need, sorted(st.held) or 'nothing'), n)
                return

    def _lock_event(self, st, cn, key, n):
        if cn in ACQ:
            self.events['acquire'].add((key, n.get('l')))
            if key in st.held:
                self.viol('R1-double-acquire', '%s.start_write() while already write-held on this path (self-deadlock)' % key, n)
            b = base_var(key)
            v = fs_get(st.env, b)
            facts = st.facts
            if v and v[0] == 'from' and '->' in key:
                facts = facts | {('unverified', b)}      # the pointer may have changed while we waited for the lock
            return [st.rep(held=st.held | {key}, facts=facts)]
        if cn in TRY or cn == 'is_write_locked':
            if cn in TRY:
                self.events['try'].add((key, n.get('l')))
                if key in st.held:
                    self.viol('R1-double-acquire', '%s.%s() while already write-held on this path' % (key, cn), n)
            facts = frozenset(f for f in st.facts if not (f[0] == 'res' and f[1] == n['id']))
            ok = st.rep(facts=facts | {('res', n['id'], True)})
            no = st.rep(facts=facts | {('res', n['id'], False)})
            if cn in TRY:
                ok = ok.rep(held=ok.held | {key}, facts=frozenset(f for f in ok.facts if f[0] != 'dirty'))
            else:
                ok = ok.rep(ext=ok.ext | {key}) if key not in ok.held else ok
            return [ok, no]
        if cn in REL:
            self.events['release'].add((key, n.get('l')))
            if key in st.held:
                if key == 'root_lock' and cn == 'abort_write':
                    pass
                return [st.rep(held=st.held - {key})]
            # release of a lock parked in a container: the drain idiom
            b = base_var(key)
            v = fs_get(st.env, b)
            if v and v[0] == 'elem' and fs_get(st.cont, v[1]) == 'loaded' and key == b + '->lock':
                self.events['drain'].add((key, n.get('l')))
                return [st.rep(drain=fs_set(st.drain, v[1], fs_get(st.drain, v[1], 0) + 1))]
            if key == 'root_lock':
                for name, val in st.env:
                    if val[0] == 'elem' and fs_get(st.cont, val[1]) == 'loaded' and ('null', name) in st.facts:
                        self.events['drain'].add((key, n.get('l')))
                        if cn == 'abort_write' and fs_get(st.facts, 'rootchanged') is not False:
                            self.viol('R4-root-release-kind', 'root_lock.abort_write() in the drain although the root pointer is not known '
                                      'to be unchanged on this path (readers would keep a lease on a stale root)', n)
                        return [st.rep(drain=fs_set(st.drain, val[1], fs_get(st.drain, val[1], 0) + 1))]
            if key in st.ext:
                self.viol('R1-release-not-owned', '%s.%s(): the lock is held by the caller, not acquired here' % (key, cn), n)
                return [st]
            self.viol('R1-release-not-held', '%s.%s() on a path where this lock is not write-held (held: %s)' % (
                key, cn, sorted(st.held) or 'nothing'), n)
            return [st]
        return [st]

    def _transfer(self, st, c, arg, n):
        a = self._local(arg)
        self.events['transfer'].add(n.get('l'))
        if a is not None and ('unverified', a['name']) in st.facts:
            v = fs_get(st.env, a['name'])
            self.viol('R5-locked-pointer-rechecked', '`%s` was read from %s without protection, then locked; it is recorded as the locked parent '
                      'without re-checking that %s still equals it (the node may have been split while waiting for its lock)' % (
                          a['name'], v[1] if v else '?', v[1] if v else 'the source'), n)
        if a is None:
            x = strip(arg, casts=True)
            if x['k'] == 'CXXNullPtrLiteralExpr' and 'root_lock' in st.held:
                return st.rep(held=st.held - {'root_lock'}, cont=fs_set(st.cont, c, 'loaded'))
            self.viol('R1-transfer-unlocked', 'push_back of an expression that is not a locked local node into `%s`' % c, n)
            return st
        name = a['name']
        key = name + '->lock'
        if key in st.held:
            return st.rep(held=st.held - {key}, cont=fs_set(st.cont, c, 'loaded'))
        if ('null', name) in st.facts and 'root_lock' in st.held:
            return st.rep(held=st.held - {'root_lock'}, cont=fs_set(st.cont, c, 'loaded'))
        if key in st.ext:
            return st
        self.viol('R1-transfer-unlocked', '`%s` is recorded in `%s` as locked although neither %s nor (for nullptr) root_lock is '
                  'write-held on this path (held: %s)' % (name, c, key, sorted(st.held) or 'nothing'), n)
        return st.rep(cont=fs_set(st.cont, c, 'loaded'))

    def _precondition(self, st, n):
        o = call_obj(n)
        if o is None:
            return
        ok_ = strip(o, casts=True)
        key = 'lock' if ok_['k'] == 'CXXThisExpr' else expr_key(o) + '->lock'
        self.events['precond'].add((n.get('cn'), key, n.get('l')))
        if key in st.held or key in st.ext:
            return
        self.viol('R3-callee-precondition', '%s(): the callee asserts its lock is write-held, but %s is not held on this path (held: %s)' % (
            n.get('cn'), key, sorted(st.held | st.ext) or 'nothing'), n)

    def _check_clean(self, st, n, what):
        if st.held:
            self.viol('R1-exit-with-lock', '%s with %s still write-held' % (what, sorted(st.held)), n)
        for c, s in st.cont:
            if s == 'loaded' and c not in self.param_containers:
                self.viol('R1-exit-undrained', '%s with locked nodes still parked in `%s`' % (what, c), n)

    # ---- branches
    def branch(self, st, cond, truth, func, tk):
        c = strip(cond, casts=False)
        neg = False
        while True:
            if c['k'] == 'UnaryOperator' and c.get('op') == '!':
                neg = not neg
                c = strip(kids(c)[0], casts=False)
                continue
            if c['k'] in ('ImplicitCastExpr', 'CXXStaticCastExpr', 'CStyleCastExpr', 'CXXFunctionalCastExpr', 'ParenExpr'):
                c = strip(kids(c)[0], casts=False)
                continue
            break
        want = truth != neg
        if c['k'] == 'CXXBoolLiteralExpr':
            return st if bool(c['val']) == want else None
        if is_call(c) and c.get('cc') == LOCK_CLS and c.get('cn') in TRY + ('is_write_locked', 'validate', 'end_read'):
            r = [f for f in st.facts if f[0] == 'res' and f[1] == c['id']]
            if r:
                return st if r[0][2] == want else None
            return st
        loc = self._local(c)
        if loc is not None:
            v = fs_get(st.env, loc['name'])
            if v and v[0] == 'res':
                r = [f for f in st.facts if f[0] == 'res' and f[1] == v[1]]
                if r:
                    return st if r[0][2] == want else None
                return st
            if 'node' in loc.get('t', '') and '*' in loc.get('t', ''):
                return self._ptr_fact(st, loc['name'], 'nonnull' if want else 'null')
            return st
        if c['k'] == 'BinaryOperator' and c['op'] in ('==', '!='):
            a, b = kids(c)
            sa, sb = strip(a, casts=True), strip(b, casts=True)
            for x, y in ((sa, sb), (sb, sa)):
                if y['k'] == 'CXXNullPtrLiteralExpr' or (y['k'] == 'IntegerLiteral' and y['val'] == '0'):
                    lx = self._local(x)
                    if lx is not None:
                        isnull = (c['op'] == '==') == want
                        return self._ptr_fact(st, lx['name'], 'null' if isnull else 'nonnull')
            ka, kb = expr_key(a), expr_key(b)
            for x, other in ((sa, kb), (sb, ka)):
                lx = self._local(x)
                if lx is not None and ('unverified', lx['name']) in st.facts:
                    v = fs_get(st.env, lx['name'])
                    # re-check against the link it was read from (the holder may be known under an alias: priv = parent)
                    if v and v[0] == 'from' and other.endswith('->parent') and ((c['op'] == '==') == want):
                        return st.rep(facts=st.facts - {('unverified', lx['name'])})
            # saved root compared with the current root
            for x, y in ((sa, kb), (sb, ka)):
                lx = self._local(x)
                if lx is not None and fs_get(st.env, lx['name']) == ('saved', 'root') and y == 'root':
                    changed = (c['op'] == '!=') == want
                    return st.rep(facts=frozenset(f for f in st.facts if f[0] != 'rootchanged') | {('rootchanged', changed)})
        if c['k'] == 'CXXOperatorCallExpr' and c.get('op') in ('!=', '=='):
            ops = kids(c)[1:]
            for o in ops:
                lo = self._local(o)
                if lo is not None:
                    v = fs_get(st.env, lo['name'])
                    if v and v[0] == 'iter':
                        at_end = (c['op'] == '==') == want
                        if at_end and fs_get(st.cont, v[1]) == 'loaded':
                            return st.rep(cont=fs_set(st.cont, v[1], 'drained'))
                        return st
        return st

    def _ptr_fact(self, st, name, fact):
        other = 'null' if fact == 'nonnull' else 'nonnull'
        if (other, name) in st.facts:
            return None
        return st.rep(facts=st.facts | {(fact, name)})


def analyse(func, **kw):
    cl = LockClient(func, **kw)
    res = pathflow.run(func, cl)
    for st, path in res.exits:
        last = {'l': func.d.get('endline', func.line)}
        if st.held:
            cl.viol('R1-exit-with-lock', 'function exit with %s still write-held [path lines %s]' % (
                sorted(st.held), pathflow.path_lines(func, path)[-8:]), last)
        for c, s in st.cont:
            if s == 'loaded' and c not in cl.param_containers:
                cl.viol('R1-exit-undrained', 'function exit with locked nodes still parked in `%s` [path lines %s]' % (
                    c, pathflow.path_lines(func, path)[-8:]), last)
    return cl, res

"""Facts loader: runs the sfx extractor over units of /repo's *current working tree* and
wraps the JSON it emits.  Nothing here decides anything."""
import json, os, re, subprocess, sys, hashlib, shutil, time
from concurrent.futures import ThreadPoolExecutor

VERIF = os.path.dirname(os.path.dirname(os.path.abspath(__file__)))
REPO = os.environ.get('VERIF_REPO', '/repo')
SFX = os.path.join(VERIF, 'build', 'sfx')
RUN_DIR = os.path.join(VERIF, 'build', 'run')

BASE_DEFS = ['-DUSE_LIBFFI', '-DUSE_LIBZ', '-DUSE_NCURSES', '-DUSE_SQLITE']


class Broken(Exception):
    """analysis broken: anchor vanished / idiom not recognised / extractor failed"""


_OVERLAY = None


class Overlay:
    """single-file mutants / controls: private copies of edited files placed ahead of /repo's include
    directories (headers) or substituted for the unit (.cpp).  Nothing under /repo is touched."""

    def __init__(self, edits):
        self.edits = edits            # {repo-relative path: new content}
        self.dir = os.path.join(VERIF, 'build', 'overlay', '%d_%d' % (os.getpid(), id(self) & 0xffff))

    def __enter__(self):
        global _OVERLAY
        for rel, content in self.edits.items():
            dst = os.path.join(self.dir, rel)
            os.makedirs(os.path.dirname(dst), exist_ok=True)
            if not rel.endswith('.cpp'):
                # a header: mirror its whole include root with symlinks so that sibling-relative includes
                # (#include "X.h") resolve inside the overlay and never pull the original next to the copy
                root = 'src/include' if rel.startswith('src/include/') else 'src'
                for dp, dn, fn in os.walk(os.path.join(REPO, root)):
                    if root == 'src':
                        dn[:] = [d for d in dn if not (dp == os.path.join(REPO, 'src') and d in ('include', 'tests'))]
                    od = os.path.join(self.dir, os.path.relpath(dp, REPO))
                    os.makedirs(od, exist_ok=True)
                    for f in fn:
                        if f.endswith(('.h', '.hpp')):
                            t = os.path.join(od, f)
                            if not os.path.lexists(t):
                                os.symlink(os.path.join(dp, f), t)
                if os.path.lexists(dst):
                    os.unlink(dst)
            with open(dst, 'w') as fh:
                fh.write(content)
        _OVERLAY = self
        return self

    def __exit__(self, *a):
        global _OVERLAY
        _OVERLAY = None
        shutil.rmtree(self.dir, ignore_errors=True)

    def map(self, src):
        rel = os.path.relpath(src, REPO) if src.startswith(REPO + '/') else src
        if rel in self.edits:
            return os.path.join(self.dir, rel), ['-iquote', os.path.dirname(src)]
        # a header under src/ (not src/include) is edited: compile the unit through the mirrored tree so that its own
        # quote-includes resolve inside the overlay as well
        if any(r.startswith('src/') and not r.startswith('src/include/') and not r.endswith('.cpp') for r in self.edits) \
                and rel.startswith('src/') and rel.endswith('.cpp'):
            dst = os.path.join(self.dir, rel)
            os.makedirs(os.path.dirname(dst), exist_ok=True)
            if not os.path.lexists(dst):
                os.symlink(src, dst)
            return dst, []
        return src, []


def read_repo(rel):
    with open(os.path.join(REPO, rel)) as fh:
        return fh.read()


def compile_flags(extra_includes=(), openmp=True):
    """The one flag set every unit of the build uses (verified against ninja -t compdb), replayed
    through clang.  -fgnuc-version=10.2.0: take the __GNUC__>=7 branches g++ 12 takes."""
    fl = list(BASE_DEFS)
    for inc in extra_includes:
        fl.append('-I' + inc)
    if _OVERLAY is not None:
        fl += ['-I%s/src/include' % _OVERLAY.dir, '-I%s/src' % _OVERLAY.dir]
    fl += ['-I%s/src/include' % REPO, '-I%s/src' % REPO, '-I%s/_build/src' % REPO,
           '-std=gnu++17', '-UNDEBUG', '-fgnuc-version=10.2.0', '-fwrapv', '-w']
    if openmp:
        fl.append('-fopenmp')
    return fl


def ensure_sfx():
    if not os.path.exists(SFX) or os.path.getmtime(os.path.join(VERIF, 'tools/sfx/sfx.cc')) > os.path.getmtime(SFX):
        try:
            subprocess.check_call([os.path.join(VERIF, 'build_sfx.sh')])
        except subprocess.CalledProcessError as e:
            raise Broken('sfx does not build: %s' % e)



def _run_one(job):
    src, file_re, name_re, flags, out = job[:5]
    env = dict(os.environ)
    env.pop('SFX_LAMBDA_VARTYPE_RE', None)
    env.pop('SFX_TOUCHES_RE', None)
    if len(job) > 5 and job[5]:
        env['SFX_LAMBDA_VARTYPE_RE'] = job[5]
    if len(job) > 6 and job[6]:
        env['SFX_TOUCHES_RE'] = job[6]
    env.pop('SFX_ONE_INST', None)
    if len(job) > 7 and job[7]:
        env['SFX_ONE_INST'] = '1'
    t0 = time.time()
    p = subprocess.run([SFX, out, file_re, name_re, src, '--'] + flags, stdout=subprocess.PIPE,
                       stderr=subprocess.STDOUT, text=True, env=env)
    return (job, p.returncode, p.stdout, time.time() - t0)


class Unit:
    def __init__(self, src, data):
        self.src = src
        self.items = data['items']
        self.nfuncs = data['nfuncs']
        self.functions = [Func(i) for i in self.items if i['kind'] == 'function']
        self.records = [i for i in self.items if i['kind'] == 'record']
        self.enums = [i for i in self.items if i['kind'] == 'enum']
        self.vars = [i for i in self.items if i['kind'] == 'var']

    def funcs(self, name=None, qre=None, cls=None, lambdas=False):
        out = []
        for f in self.functions:
            if f.is_lambda and not lambdas:
                continue
            if name is not None and f.name != name:
                continue
            if cls is not None and f.d.get('cls') != cls:
                continue
            if qre is not None and not re.search(qre, f.qname):
                continue
            out.append(f)
        return out

    def enum(self, name):
        for e in self.enums:
            if e['name'] == name or e['qname'] == name:
                return e
        return None

    def record(self, name):
        for r in self.records:
            if r['name'] == name or r['qname'] == name:
                return r
        return None


_TREE_HASH = None


def tree_hash():
    """content hash of every file the extractor can read; computed once per process"""
    global _TREE_HASH
    if _TREE_HASH is None:
        h = hashlib.sha1()
        roots = [os.path.join(REPO, 'src'), os.path.join(REPO, '_build', 'src'), os.path.join(VERIF, 'tu'), os.path.join(VERIF, 'tools', 'sfx')]
        for root in roots:
            for dp, dn, fn in sorted(os.walk(root)):
                dn.sort()
                if '/CMakeFiles' in dp or '/tests/' in dp + '/':
                    continue
                for f in sorted(fn):
                    if f.endswith(('.h', '.hpp', '.cpp', '.cc', '.hh', '.ll', '.yy', '.def', '.inc')):
                        p = os.path.join(dp, f)
                        try:
                            with open(p, 'rb') as fh:
                                h.update(p.encode())
                                h.update(hashlib.sha1(fh.read()).digest())
                        except OSError:
                            pass
        _TREE_HASH = h.hexdigest()[:16]
        # drop caches of other trees (keep the two most recent)
        croot = os.path.join(VERIF, 'build', 'cache')
        if os.path.isdir(croot):
            olds = sorted((d for d in os.listdir(croot) if d != _TREE_HASH), key=lambda d: os.path.getmtime(os.path.join(croot, d)))
            for d in olds[:-2]:
                shutil.rmtree(os.path.join(croot, d), ignore_errors=True)
    return _TREE_HASH


_MEMO = {}


def extract(jobs, workers=16):
    """jobs: list of (src_path, file_regex, name_regex[, flags[, lambda_vartype_regex[, touches_regex[, one_instantiation_only]]]]).  Returns list of Unit.
    Facts are written under build/run/<pid>/ and removed after loading."""
    ensure_sfx()
    d = os.path.join(RUN_DIR, str(os.getpid()))
    os.makedirs(d, exist_ok=True)
    full = []
    for n, j in enumerate(jobs):
        src, fre, nre = j[0], j[1], j[2]
        fl = j[3] if len(j) > 3 and j[3] is not None else compile_flags()
        if not os.path.isabs(src):
            src = os.path.join(REPO, src)
        if not os.path.exists(src):
            raise Broken('unit vanished: %s' % src)
        if _OVERLAY is not None:
            src, extra = _OVERLAY.map(src)
            fl = extra + fl
        full.append((src, fre, nre, fl, os.path.join(d, 'u%d.json' % n), j[4] if len(j) > 4 else None, j[5] if len(j) > 5 else None, j[6] if len(j) > 6 else None))
    units = []
    # per-process memo: a unit is re-extracted under an overlay only if the overlay could affect it
    # (it edits a header, or this very .cpp)
    keys = []
    for job in full:
        ov = None
        if _OVERLAY is not None:
            if any(not r.endswith('.cpp') for r in _OVERLAY.edits) or job[0].startswith(_OVERLAY.dir):
                ov = tuple(sorted((r, hashlib.sha1(c.encode()).hexdigest()) for r, c in _OVERLAY.edits.items()))
        keys.append((job[0] if not (_OVERLAY and job[0].startswith(_OVERLAY.dir)) else 'ov:' + os.path.relpath(job[0], _OVERLAY.dir), job[1], job[2],
                     tuple(f for f in job[3] if not (_OVERLAY and _OVERLAY.dir in f)), job[5], job[6], job[7], ov))
    # on-disk cache of extracted facts, keyed by the content hash of EVERYTHING the extractor can read (all of /repo/src,
    # the generated headers, the verification-owned units, the extractor itself) plus the job: the current source is
    # still what decides -- any edit anywhere changes the key and forces re-extraction
    th = tree_hash()
    cdir = os.path.join(VERIF, 'build', 'cache', th)
    for k, job in zip(keys, full):
        if k in _MEMO:
            continue
        cf = os.path.join(cdir, hashlib.sha1(repr(k).encode()).hexdigest() + '.json')
        if os.path.exists(cf):
            try:
                with open(cf) as fh:
                    u = Unit(job[0], json.load(fh))
                u.extract_s = 0.0
                _MEMO[k] = u
            except (ValueError, KeyError):
                os.unlink(cf)
    todo = [(k, job) for k, job in zip(keys, full) if k not in _MEMO]
    try:
        with ThreadPoolExecutor(max_workers=workers) as ex:
            results = list(ex.map(_run_one, [j for _, j in todo]))
        fresh = {}
        for (k, _), r in zip(todo, results):
            fresh[k] = r
        ordered = []
        for k, job in zip(keys, full):
            if k in _MEMO:
                units.append(_MEMO[k])
            else:
                ordered.append((k, fresh[k]))
                units.append(None)
        pos = [i for i, u_ in enumerate(units) if u_ is None]
        for i, (k, (job, rc, out, dt)) in zip(pos, ordered):
            if rc != 0 or not os.path.exists(job[4]):
                raise Broken('sfx failed on %s (rc=%s): %s' % (job[0], rc, out[-2000:]))
            with open(job[4]) as fh:
                data = json.load(fh)
            if data.get('errors'):
                raise Broken('clang reported errors parsing %s: %s' % (job[0], out[-2000:]))
            u = Unit(job[0], data)
            u.extract_s = dt
            units[i] = u
            _MEMO[k] = u
            try:
                os.makedirs(cdir, exist_ok=True)
                cf = os.path.join(cdir, hashlib.sha1(repr(k).encode()).hexdigest() + '.json')
                shutil.copyfile(job[4], cf + '.tmp%d' % os.getpid())
                os.replace(cf + '.tmp%d' % os.getpid(), cf)
            except OSError:
                pass
    finally:
        shutil.rmtree(d, ignore_errors=True)
    return units


# --------------------------------------------------------------------------------------
# tree helpers (nodes are plain dicts)

def kids(n):
    return [c for c in n.get('c', ()) if c is not None]


def walk(n):
    """pre-order over a tree node (includes lambda bodies)"""
    stack = [n]
    while stack:
        x = stack.pop()
        if x is None:
            continue
        yield x
        cs = x.get('c')
        if cs:
            stack.extend(reversed(cs))


TRANSPARENT = ('ImplicitCastExpr', 'ParenExpr', 'ExprWithCleanups', 'MaterializeTemporaryExpr',
               'CXXBindTemporaryExpr', 'ConstantExpr', 'SubstNonTypeTemplateParmExpr', 'FullExpr')


def strip(n, casts=False):
    """skip value-preserving wrappers (and, with casts=True, all explicit casts too)"""
    while n is not None:
        k = n['k']
        if k in TRANSPARENT and n.get('c'):
            if k == 'ImplicitCastExpr' and n.get('ck') in ('IntegralCast', 'FloatingCast', 'IntegralToFloating',
                                                           'FloatingToIntegral', 'IntegralToBoolean') and not casts:
                return n
            n = n['c'][0]
        elif casts and k in ('CStyleCastExpr', 'CXXStaticCastExpr', 'CXXFunctionalCastExpr',
                             'CXXReinterpretCastExpr', 'CXXConstCastExpr', 'CXXDynamicCastExpr') and n.get('c'):
            n = n['c'][0]
        elif k == 'CXXConstructExpr' and (n.get('copy') or n.get('move')) and len(kids(n)) == 1:
            n = n['c'][0]
        else:
            return n
    return n


def is_call(n, name=None, cls=None):
    if n is None or n['k'] not in ('CallExpr', 'CXXMemberCallExpr', 'CXXOperatorCallExpr'):
        return False
    if name is not None:
        if isinstance(name, (tuple, list, set, frozenset)):
            if n.get('cn') not in name:
                return False
        elif n.get('cn') != name:
            return False
    if cls is not None:
        if isinstance(cls, (tuple, list, set, frozenset)):
            if n.get('cc') not in cls:
                return False
        elif n.get('cc') != cls:
            return False
    return True


def call_args(n):
    """argument nodes of a call (callee expression excluded; for operator calls all operands)"""
    cs = kids(n)
    if n['k'] == 'CXXOperatorCallExpr':
        return cs[1:]
    return cs[1:]


def call_obj(n):
    """the implicit object expression of a member call, or None"""
    if n['k'] == 'CXXMemberCallExpr':
        cal = strip(kids(n)[0])
        if cal['k'] == 'MemberExpr' and kids(cal):
            return kids(cal)[0]
    if n['k'] == 'CXXOperatorCallExpr' and len(kids(n)) >= 2:
        return kids(n)[1]
    return None


def expr_key(n):
    """a structural, position-free rendering of an lvalue-ish expression: used to identify
    'the same lock / cell' across statements (cur->lock, this->root_lock, parent->lock ...)"""
    n = strip(n, casts=True)
    if n is None:
        return '?'
    k = n['k']
    if k == 'DeclRefExpr':
        return n.get('name', '?')
    if k == 'MemberExpr':
        b = kids(n)
        base = expr_key(b[0]) if b else 'this'
        if base == 'this':
            return n['member']
        return base + ('->' if n.get('arrow') else '.') + n['member']
    if k == 'CXXThisExpr':
        return 'this'
    if k == 'UnaryOperator':
        return n.get('op', '') + expr_key(kids(n)[0])
    if k == 'ArraySubscriptExpr':
        return expr_key(kids(n)[0]) + '[' + expr_key(kids(n)[1]) + ']'
    if k in ('CXXMemberCallExpr',):
        o = call_obj(n)
        ok_ = expr_key(o) if o is not None else ''
        pre = '' if ok_ in ('this', '') else ok_ + '.'
        return pre + n.get('cn', '?') + '(' + ','.join(expr_key(a) for a in call_args(n) if a['k'] != 'CXXDefaultArgExpr') + ')'
    if k == 'CXXOperatorCallExpr':
        ops = kids(n)[1:]
        if n.get('op') == '[]' and len(ops) == 2:
            return expr_key(ops[0]) + '[' + expr_key(ops[1]) + ']'
        if n.get('op') in ('*', '->') and len(ops) == 1:
            return n['op'] + expr_key(ops[0])
        return n.get('op', '?') + '(' + ','.join(expr_key(a) for a in ops) + ')'
    if k == 'CallExpr':
        return n.get('cn', '?') + '(' + ','.join(expr_key(a) for a in call_args(n)) + ')'
    if k in ('IntegerLiteral', 'CXXBoolLiteralExpr', 'CharacterLiteral', 'FloatingLiteral'):
        return str(n.get('val'))
    if k == 'StringLiteral':
        return json.dumps(n.get('str', ''))
    if k == 'BinaryOperator':
        return '(' + expr_key(kids(n)[0]) + n['op'] + expr_key(kids(n)[1]) + ')'
    if k in ('CXXConstructExpr', 'CXXTemporaryObjectExpr', 'CXXFunctionalCastExpr') and len(kids(n)) == 1:
        return expr_key(kids(n)[0])
    if k == 'CXXNullPtrLiteralExpr':
        return 'nullptr'
    if 'cv' in n:
        return n['cv']
    return k


class Func:
    def __init__(self, d):
        self.d = d
        self.qname = d['qname']
        self.name = d['name']
        self.file = d['file']
        self.line = d['line']
        self.body = d['body']
        self.is_lambda = bool(d.get('lambda'))
        self._by_id = None
        self._parent = None

    def __repr__(self):
        return '<Func %s %s:%s>' % (self.qname[:80], os.path.basename(self.file), self.line)

    @property
    def where(self):
        return '%s:%s' % (self.file.replace(REPO + '/', ''), self.line)

    def loc(self, n):
        return '%s:%s' % (self.file.replace(REPO + '/', ''), n.get('l', self.line))

    def index(self):
        if self._by_id is None:
            self._by_id = {}
            self._parent = {}
            roots = [self.body] + [i['init'] for i in self.d.get('inits', ())]
            for r in roots:
                stack = [(r, None)]
                while stack:
                    n, p = stack.pop()
                    if n is None:
                        continue
                    self._by_id[n['id']] = n
                    self._parent[n['id']] = p
                    for c in n.get('c', ()):
                        stack.append((c, n))
            # synthetic CFG statements
            cfg = self.d.get('cfg')
            if cfg:
                for b in cfg['blocks']:
                    for e in b['e']:
                        if isinstance(e, dict) and 'syn' in e:
                            for n in walk(e['syn']):
                                self._by_id.setdefault(n['id'], n)
        return self._by_id

    def node(self, i):
        return self.index().get(i)

    def parent(self, n):
        self.index()
        return self._parent.get(n['id'])

    def ancestors(self, n):
        p = self.parent(n)
        while p is not None:
            yield p
            p = self.parent(p)

    def walk(self):
        return walk(self.body)

    def calls(self, name=None, cls=None):
        return [n for n in self.walk() if is_call(n, name, cls)]

    def find(self, kind):
        return [n for n in self.walk() if n['k'] == kind]

    @property
    def cfg(self):
        return self.d.get('cfg')

    def targs(self):
        return self.d.get('ta', []), self.d.get('clsargs', [])

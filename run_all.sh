#!/bin/sh
# runs every registered quick check in sequence; prints one status line per property
cd "$(dirname "$0")"
tier=${1:-quick}
for p in $(python3 -c "import json;print(' '.join(c['property_id'] for c in json.load(open('MANIFEST.json'))['checks']))"); do
  s=$(date +%s)
  ./check $p --tier $tier > build/last_$p.log 2>&1
  rc=$?
  echo "$p rc=$rc $(( $(date +%s) - s ))s $(grep -c '^VIOLATION' build/last_$p.log) violations $(grep -c '^ANALYSIS-BROKEN' build/last_$p.log) broken $(grep -c '^KNOWN-FINDING' build/last_$p.log) known"
done

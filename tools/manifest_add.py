#!/usr/bin/env python3
"""maintenance helper: add/replace one check entry in MANIFEST.json (reads a JSON object on stdin:
{pid, text, note, technique, engine})"""
import json, sys
m = json.load(open('/verif/MANIFEST.json'))
e = json.load(sys.stdin)
pid = e['pid']
m['checks'] = [c for c in m['checks'] if c['property_id'] != pid]
m['checks'].append({"property_id": pid, "quick_cmd": "./check %s --tier quick" % pid, "thorough_cmd": "./check %s --tier thorough" % pid,
                    "evidence_file": "evidence/%s.json" % pid, "replay_cmd_template": "./check %s --replay {path}" % pid, "engine": e['engine'],
                    "level_claimed": {"category": "other", "text": e['text'], "design_ref": "DESIGN.md section 2, %s" % pid},
                    "level_note": e['note'], "technique": e['technique']})
m['checks'].sort(key=lambda c: c['property_id'])
m['not_applicable'] = [x for x in m['not_applicable'] if x['property_id'] != pid]
claimed = [c['property_id'] for c in m['checks']]
for eng in m['engines']:
    if eng['name'] == 'sfx':
        eng['serves_properties'] = claimed
json.dump(m, open('/verif/MANIFEST.json', 'w'), indent=1)
print('manifest: %d checks, %d not_applicable' % (len(m['checks']), len(m['not_applicable'])))

#!/bin/sh
# usage: par_check.sh <Cxx> [tier]   -- one check, one status line (used by run_all_par.sh)
cd "$(dirname "$0")/.."
p=$1
tier=${2:-quick}
s=$(date +%s)
./check $p --tier $tier > build/last_$p.log 2>&1
rc=$?
echo "$p rc=$rc $(( $(date +%s) - s ))s $(grep -c '^VIOLATION' build/last_$p.log) violations $(grep -c '^ANALYSIS-BROKEN' build/last_$p.log) broken $(grep -c '^KNOWN-FINDING' build/last_$p.log) known"

// sfx -- static fact extractor for the /verif checks (libTooling, clang 14).
//
// usage: sfx <out.json> <file-regex> <name-regex> <source.cpp> -- <compile flags>
//
// Emits, for every function *definition* (template instantiations included, dependent
// patterns excluded) whose definition lies in a file matching <file-regex> and whose
// qualified name matches <name-regex>:
//   - identity (qualified name, simple name, class, template args, file, line)
//   - the type-checked body as a compact JSON tree with resolved callees / fields / decl ids
//   - the clang CFG (all sub-expressions as elements in evaluation order, implicit
//     destructors on, EH edges off) with elements referring to tree node ids
// plus records (fields, bases), enums (enumerators with values) and namespace-scope
// variables with initialisers from matching files.
//
// The tool decides nothing; all rules live in /verif/engine and /verif/props.

#include "clang/AST/ASTConsumer.h"
#include "clang/AST/ASTContext.h"
#include "clang/AST/Decl.h"
#include "clang/AST/DeclCXX.h"
#include "clang/AST/DeclTemplate.h"
#include "clang/AST/Expr.h"
#include "clang/AST/ExprCXX.h"
#include "clang/AST/OpenMPClause.h"
#include "clang/AST/RecursiveASTVisitor.h"
#include "clang/AST/StmtCXX.h"
#include "clang/AST/StmtOpenMP.h"
#include "clang/Analysis/CFG.h"
#include "clang/Basic/SourceManager.h"
#include "clang/Frontend/CompilerInstance.h"
#include "clang/Frontend/FrontendAction.h"
#include "clang/Tooling/CompilationDatabase.h"
#include "clang/Tooling/Tooling.h"
#include "llvm/Support/Regex.h"
#include "llvm/Support/raw_ostream.h"

#include <map>
#include <set>
#include <string>
#include <vector>

using namespace clang;

static std::string gOut, gFileRe, gNameRe;

namespace {

std::string jesc(llvm::StringRef s) {
    std::string o;
    o.reserve(s.size() + 2);
    for (unsigned char c : s) {
        switch (c) {
            case '"': o += "\\\""; break;
            case '\\': o += "\\\\"; break;
            case '\n': o += "\\n"; break;
            case '\r': o += "\\r"; break;
            case '\t': o += "\\t"; break;
            default:
                if (c < 0x20 || c >= 0x7f) {
                    char buf[8];
                    snprintf(buf, sizeof buf, "\\u%04x", c);
                    o += buf;
                } else
                    o += (char)c;
        }
    }
    return o;
}

struct Extractor : public RecursiveASTVisitor<Extractor> {
    ASTContext& Ctx;
    SourceManager& SM;
    PrintingPolicy PP;
    llvm::Regex FileRe, NameRe;
    llvm::raw_ostream& OS;
    bool first = true;
    std::map<const Decl*, int> declIds;
    std::set<const Decl*> seenRecords, seenEnums, seenFuncs, seenVars, seenPatterns;
    // per function
    std::map<const Stmt*, int> stmtIds;
    int nextStmt = 0;
    unsigned nFuncs = 0, nCfgFail = 0;

    Extractor(ASTContext& C, llvm::raw_ostream& OS)
            : Ctx(C), SM(C.getSourceManager()), PP(C.getLangOpts()), FileRe(gFileRe), NameRe(gNameRe), OS(OS) {
        PP.SuppressTagKeyword = true;
        PP.Bool = true;
        PP.SuppressUnwrittenScope = true;
    }

    bool shouldVisitTemplateInstantiations() const { return true; }
    bool shouldVisitImplicitCode() const { return false; }
    bool shouldVisitLambdaBody() const { return true; }

    int did(const Decl* D) {
        if (!D) return -1;
        D = D->getCanonicalDecl();
        auto it = declIds.find(D);
        if (it != declIds.end()) return it->second;
        int n = (int)declIds.size();
        declIds[D] = n;
        return n;
    }

    std::string fileOf(SourceLocation L) {
        if (L.isInvalid()) return "";
        PresumedLoc P = SM.getPresumedLoc(SM.getExpansionLoc(L));
        if (P.isInvalid()) return "";
        return P.getFilename();
    }
    unsigned lineOf(SourceLocation L) {
        if (L.isInvalid()) return 0;
        return SM.getExpansionLineNumber(L);
    }
    unsigned spLineOf(SourceLocation L) {
        if (L.isInvalid()) return 0;
        return SM.getSpellingLineNumber(L);
    }

    std::string ty(QualType T, bool canon = true) {
        if (T.isNull()) return "";
        if (canon) T = T.getCanonicalType();
        std::string s = T.getAsString(PP);
        // very long instantiation names: keep both ends (rules look at the outer template AND at the trailing `node *`, `&`)
        if (s.size() > 400) s = s.substr(0, 240) + "..." + s.substr(s.size() - 150);
        return s;
    }

    void sep() {
        if (!first) OS << ",\n";
        first = false;
    }

    // ---- tree emission -------------------------------------------------------------
    void kv(const char* k, llvm::StringRef v) { OS << ",\"" << k << "\":\"" << jesc(v) << "\""; }
    void kvi(const char* k, long long v) { OS << ",\"" << k << "\":" << v; }

    void emitTemplateArgs(const TemplateArgumentList* L) {
        if (!L) return;
        OS << ",\"ta\":[";
        bool f = true;
        for (const TemplateArgument& A : L->asArray()) {
            if (!f) OS << ",";
            f = false;
            std::string s;
            llvm::raw_string_ostream ss(s);
            if (A.getKind() == TemplateArgument::Type)
                ss << ty(A.getAsType());
            else
                A.print(PP, ss, true);
            ss.flush();
            if (s.size() > 300) s = s.substr(0, 300) + "...";
            OS << "\"" << jesc(s) << "\"";
        }
        OS << "]";
    }

    void emitCalleeInfo(const FunctionDecl* FD) {
        if (!FD) return;
        kv("callee", FD->getQualifiedNameAsString());
        kv("cn", FD->getNameAsString());
        kvi("cdid", did(FD));
        if (auto* MD = dyn_cast<CXXMethodDecl>(FD)) {
            kv("cc", MD->getParent()->getNameAsString());
            if (MD->isConst()) kvi("cconst", 1);
            if (MD->isStatic()) kvi("cstatic", 1);
        }
        if (FD->isNoReturn()) kvi("noreturn", 1);
        if (auto* TA = FD->getTemplateSpecializationArgs()) emitTemplateArgs(TA);
        kv("crt", ty(FD->getReturnType()));
    }

    void emitDeclRef(const ValueDecl* VD) {
        if (!VD) return;
        kv("name", VD->getNameAsString());
        kvi("did", did(VD));
        if (auto* EC = dyn_cast<EnumConstantDecl>(VD)) {
            kv("dk", "EnumConstant");
            if (auto* ED = dyn_cast<EnumDecl>(EC->getDeclContext())) kv("enum", ED->getQualifiedNameAsString());
            kv("val", llvm::toString(EC->getInitVal(), 10));
        } else if (isa<ParmVarDecl>(VD)) {
            kv("dk", "Parm");
        } else if (auto* V = dyn_cast<VarDecl>(VD)) {
            if (V->isLocalVarDecl())
                kv("dk", "Local");
            else if (V->isStaticDataMember())
                kv("dk", "StaticMember");
            else
                kv("dk", "Global");
            if (!V->isLocalVarDecl()) kv("qname", V->getQualifiedNameAsString());
        } else if (auto* FD = dyn_cast<FunctionDecl>(VD)) {
            kv("dk", "Function");
            kv("qname", FD->getQualifiedNameAsString());
        } else if (isa<FieldDecl>(VD)) {
            kv("dk", "Field");
        } else if (isa<BindingDecl>(VD)) {
            kv("dk", "Binding");
        } else {
            kv("dk", VD->getDeclKindName());
        }
    }

    void emitVarDecl(const VarDecl* V) {
        int id = nextStmt++;
        OS << "{\"k\":\"VarDecl\",\"id\":" << id;
        kv("name", V->getNameAsString());
        kvi("did", did(V));
        kv("t", ty(V->getType()));
        kv("ts", ty(V->getType(), false));
        kvi("l", lineOf(V->getLocation()));
        if (V->isStaticLocal()) kvi("static", 1);
        if (auto* RD = V->getType()->getAsCXXRecordDecl()) kv("rec", RD->getNameAsString());
        OS << ",\"c\":[";
        if (V->hasInit() && V->getInit()) emitStmt(V->getInit());
        OS << "]}";
    }

    void emitOMPClauses(const OMPExecutableDirective* D) {
        OS << ",\"clauses\":[";
        bool f = true;
        for (const OMPClause* C : D->clauses()) {
            if (!C) continue;
            if (!f) OS << ",";
            f = false;
            OS << "{\"kind\":\"" << jesc(llvm::omp::getOpenMPClauseName(C->getClauseKind())) << "\"";
            if (C->isImplicit()) OS << ",\"implicit\":1";
            OS << ",\"vars\":[";
            bool g = true;
            auto addVars = [&](auto* VC) {
                for (const Expr* E : VC->varlists()) {
                    if (!g) OS << ",";
                    g = false;
                    E = E->IgnoreParenImpCasts();
                    if (auto* DR = dyn_cast<DeclRefExpr>(E))
                        OS << "{\"name\":\"" << jesc(DR->getDecl()->getNameAsString()) << "\",\"did\":" << did(DR->getDecl())
                           << "}";
                    else
                        OS << "{\"name\":\"?\"}";
                }
            };
            if (auto* X = dyn_cast<OMPPrivateClause>(C)) addVars(X);
            else if (auto* X = dyn_cast<OMPFirstprivateClause>(C)) addVars(X);
            else if (auto* X = dyn_cast<OMPLastprivateClause>(C)) addVars(X);
            else if (auto* X = dyn_cast<OMPSharedClause>(C)) addVars(X);
            else if (auto* X = dyn_cast<OMPReductionClause>(C)) addVars(X);
            OS << "]}";
        }
        OS << "]";
    }

    void emitStmt(const Stmt* S) {
        if (!S) {
            OS << "null";
            return;
        }
        int id = nextStmt++;
        stmtIds[S] = id;
        OS << "{\"k\":\"" << S->getStmtClassName() << "\",\"id\":" << id;
        SourceLocation BL = S->getBeginLoc();
        kvi("l", lineOf(BL));
        if (BL.isMacroID()) kvi("sl", spLineOf(SM.getSpellingLoc(BL)));

        bool childrenDone = false;
        if (auto* E = dyn_cast<Expr>(S)) {
            kv("t", ty(E->getType()));
            if (E->isLValue()) kvi("lv", 1);
            // constant folding for integral expressions that are not plain literals
            if (!E->isValueDependent() && !isa<IntegerLiteral>(E) && !isa<CXXBoolLiteralExpr>(E) &&
                    !isa<CharacterLiteral>(E) && E->getType()->isIntegralOrEnumerationType() && !E->isLValue()) {
                Expr::EvalResult R;
                if (E->EvaluateAsInt(R, Ctx, Expr::SE_NoSideEffects, true)) {
                    kv("cv", llvm::toString(R.Val.getInt(), 10));
                }
            } else if (!E->isValueDependent() && E->getType()->isRealFloatingType() && !isa<FloatingLiteral>(E) &&
                       !E->isLValue()) {
                llvm::APFloat F(0.0);
                if (E->EvaluateAsFloat(F, Ctx, Expr::SE_NoSideEffects, true)) {
                    llvm::SmallString<32> str;
                    F.toString(str);
                    kv("cv", str);
                }
            }
        }

        if (auto* CE = dyn_cast<CallExpr>(S)) {
            const FunctionDecl* FD = CE->getDirectCallee();
            emitCalleeInfo(FD);
            if (auto* OC = dyn_cast<CXXOperatorCallExpr>(S)) kv("op", getOperatorSpelling(OC->getOperator()));
            kvi("nargs", CE->getNumArgs());
        } else if (auto* ME = dyn_cast<MemberExpr>(S)) {
            const ValueDecl* MD = ME->getMemberDecl();
            kv("member", MD->getNameAsString());
            kvi("mdid", did(MD));
            if (auto* RD = dyn_cast<CXXRecordDecl>(MD->getDeclContext())) kv("mcls", RD->getNameAsString());
            if (isa<FieldDecl>(MD)) kvi("field", 1);
            if (ME->isArrow()) kvi("arrow", 1);
        } else if (auto* DR = dyn_cast<DeclRefExpr>(S)) {
            emitDeclRef(DR->getDecl());
        } else if (auto* IL = dyn_cast<IntegerLiteral>(S)) {
            kv("val", llvm::toString(IL->getValue(), 10, IL->getType()->isSignedIntegerType()));
        } else if (auto* FL = dyn_cast<FloatingLiteral>(S)) {
            llvm::SmallString<32> str;
            FL->getValue().toString(str);
            kv("val", str);
        } else if (auto* SL = dyn_cast<StringLiteral>(S)) {
            if (SL->getCharByteWidth() == 1) kv("str", SL->getString());
        } else if (auto* CL = dyn_cast<CharacterLiteral>(S)) {
            kvi("val", CL->getValue());
        } else if (auto* BLt = dyn_cast<CXXBoolLiteralExpr>(S)) {
            kvi("val", BLt->getValue() ? 1 : 0);
        } else if (auto* BO = dyn_cast<BinaryOperator>(S)) {
            kv("op", BO->getOpcodeStr());
        } else if (auto* UO = dyn_cast<UnaryOperator>(S)) {
            kv("op", UnaryOperator::getOpcodeStr(UO->getOpcode()));
            if (UO->isPostfix()) kvi("postfix", 1);
        } else if (auto* CO = dyn_cast<CastExpr>(S)) {
            kv("ck", CO->getCastKindName());
            if (auto* EC = dyn_cast<ExplicitCastExpr>(S)) kv("ts", ty(EC->getTypeAsWritten(), false));
        } else if (auto* CC = dyn_cast<CXXConstructExpr>(S)) {
            const CXXConstructorDecl* CD = CC->getConstructor();
            kv("ctor", CD->getParent()->getQualifiedNameAsString());
            kv("cn", CD->getParent()->getNameAsString());
            kvi("cdid", did(CD));
            if (CD->isCopyConstructor()) kvi("copy", 1);
            if (CD->isMoveConstructor()) kvi("move", 1);
            kvi("nargs", CC->getNumArgs());
        } else if (auto* NE = dyn_cast<CXXNewExpr>(S)) {
            kv("alloc", ty(NE->getAllocatedType()));
            if (NE->isArray()) kvi("array", 1);
        } else if (auto* UE = dyn_cast<UnaryExprOrTypeTraitExpr>(S)) {
            kv("trait", getTraitSpelling(UE->getKind()));
            if (UE->isArgumentType()) kv("argt", ty(UE->getArgumentType()));
        } else if (auto* LE = dyn_cast<LambdaExpr>(S)) {
            kvi("lambda_did", did(LE->getCallOperator()));
            OS << ",\"captures\":[";
            bool f = true;
            for (const LambdaCapture& C : LE->captures()) {
                if (!f) OS << ",";
                f = false;
                OS << "{\"byref\":" << (C.getCaptureKind() == LCK_ByRef ? 1 : 0);
                if (C.capturesThis()) OS << ",\"this\":1";
                if (C.capturesVariable())
                    OS << ",\"name\":\"" << jesc(C.getCapturedVar()->getNameAsString()) << "\",\"did\":"
                       << did(C.getCapturedVar());
                OS << "}";
            }
            OS << "]";
            // children: parameters then body
            OS << ",\"params\":[";
            f = true;
            for (const ParmVarDecl* P : LE->getCallOperator()->parameters()) {
                if (!f) OS << ",";
                f = false;
                OS << "{\"name\":\"" << jesc(P->getNameAsString()) << "\",\"did\":" << did(P) << ",\"t\":\""
                   << jesc(ty(P->getType())) << "\",\"ts\":\"" << jesc(ty(P->getType(), false)) << "\"}";
            }
            OS << "]";
            OS << ",\"c\":[";
            emitStmt(LE->getBody());
            OS << "]}";
            return;
        } else if (auto* DS = dyn_cast<DeclStmt>(S)) {
            OS << ",\"c\":[";
            bool f = true;
            for (const Decl* D : DS->decls()) {
                if (auto* V = dyn_cast<VarDecl>(D)) {
                    if (!f) OS << ",";
                    f = false;
                    emitVarDecl(V);
                }
            }
            OS << "]}";
            return;
        } else if (auto* CS = dyn_cast<CaseStmt>(S)) {
            // fold label
            Expr::EvalResult R;
            if (CS->getLHS() && !CS->getLHS()->isValueDependent() && CS->getLHS()->EvaluateAsInt(R, Ctx))
                kv("caseval", llvm::toString(R.Val.getInt(), 10));
            const Expr* L = CS->getLHS() ? CS->getLHS()->IgnoreParenImpCasts() : nullptr;
            if (L) {
                if (auto* CEx = dyn_cast<ConstantExpr>(L)) L = CEx->getSubExpr()->IgnoreParenImpCasts();
                if (auto* DR = dyn_cast<DeclRefExpr>(L))
                    if (auto* EC = dyn_cast<EnumConstantDecl>(DR->getDecl())) {
                        kv("label", EC->getNameAsString());
                        if (auto* ED = dyn_cast<EnumDecl>(EC->getDeclContext())) kv("enum", ED->getQualifiedNameAsString());
                    }
                if (auto* CL = dyn_cast<CharacterLiteral>(L)) kvi("charlabel", CL->getValue());
            }
        } else if (auto* OD = dyn_cast<OMPExecutableDirective>(S)) {
            emitOMPClauses(OD);
            OS << ",\"c\":[";
            if (OD->hasAssociatedStmt()) {
                const Stmt* A = OD->getAssociatedStmt();
                // unwrap CapturedStmt chain
                while (auto* CSx = dyn_cast_or_null<CapturedStmt>(A)) A = CSx->getCapturedStmt();
                emitStmt(A);
            }
            OS << "]}";
            return;
        } else if (auto* GS = dyn_cast<GotoStmt>(S)) {
            kv("label", GS->getLabel()->getNameAsString());
        } else if (auto* LS = dyn_cast<LabelStmt>(S)) {
            kv("label", LS->getName());
        } else if (auto* IF = dyn_cast<IfStmt>(S)) {
            // children laid out as [init?, condvar?, cond, then, else?]; record roles
            OS << ",\"roles\":[";
            bool f = true;
            auto role = [&](const char* r) {
                if (!f) OS << ",";
                f = false;
                OS << "\"" << r << "\"";
            };
            if (IF->getInit()) role("init");
            if (IF->getConditionVariableDeclStmt()) role("condvar");
            role("cond");
            role("then");
            if (IF->getElse()) role("else");
            OS << "]";
            if (IF->isConstexpr()) kvi("constexpr", 1);
        } else if (auto* FS = dyn_cast<ForStmt>(S)) {
            OS << ",\"roles\":[\"init\",\"condvar\",\"cond\",\"inc\",\"body\"]";
            OS << ",\"c\":[";
            emitStmt(FS->getInit());
            OS << ",";
            emitStmt(FS->getConditionVariableDeclStmt());
            OS << ",";
            emitStmt(FS->getCond());
            OS << ",";
            emitStmt(FS->getInc());
            OS << ",";
            emitStmt(FS->getBody());
            OS << "]}";
            return;
        } else if (auto* RF = dyn_cast<CXXForRangeStmt>(S)) {
            OS << ",\"roles\":[\"range\",\"begin\",\"end\",\"cond\",\"inc\",\"loopvar\",\"body\"]";
            OS << ",\"c\":[";
            emitStmt(RF->getRangeStmt());
            OS << ",";
            emitStmt(RF->getBeginStmt());
            OS << ",";
            emitStmt(RF->getEndStmt());
            OS << ",";
            emitStmt(RF->getCond());
            OS << ",";
            emitStmt(RF->getInc());
            OS << ",";
            emitStmt(RF->getLoopVarStmt());
            OS << ",";
            emitStmt(RF->getBody());
            OS << "]}";
            return;
        } else if (auto* IL2 = dyn_cast<InitListExpr>(S)) {
            if (IL2->isSemanticForm() && IL2->getType()->getAsCXXRecordDecl())
                kv("rec", IL2->getType()->getAsCXXRecordDecl()->getNameAsString());
        } else if (auto* AT = dyn_cast<AtomicExpr>(S)) {
            kvi("atomicop", AT->getOp());
        }

        if (!childrenDone) {
            OS << ",\"c\":[";
            bool f = true;
            if (auto* IF = dyn_cast<IfStmt>(S)) {
                auto put = [&](const Stmt* X) {
                    if (!f) OS << ",";
                    f = false;
                    emitStmt(X);
                };
                if (IF->getInit()) put(IF->getInit());
                if (IF->getConditionVariableDeclStmt()) put(IF->getConditionVariableDeclStmt());
                put(IF->getCond());
                put(IF->getThen());
                if (IF->getElse()) put(IF->getElse());
            } else {
                for (const Stmt* C : S->children()) {
                    if (!f) OS << ",";
                    f = false;
                    emitStmt(C);
                }
            }
            OS << "]";
        }
        OS << "}";
    }

    // ---- CFG -----------------------------------------------------------------------
    void emitCFG(const FunctionDecl* FD, const Stmt* Body) {
        CFG::BuildOptions BO;
        BO.AddImplicitDtors = true;
        BO.AddEHEdges = false;
        BO.AddTemporaryDtors = false;
        BO.AddInitializers = true;
        BO.PruneTriviallyFalseEdges = false;
        BO.setAllAlwaysAdd();
        std::unique_ptr<CFG> G = CFG::buildCFG(FD, const_cast<Stmt*>(Body), &Ctx, BO);
        if (!G) {
            ++nCfgFail;
            OS << ",\"cfg\":null";
            return;
        }
        OS << ",\"cfg\":{\"entry\":" << G->getEntry().getBlockID() << ",\"exit\":" << G->getExit().getBlockID()
           << ",\"blocks\":[";
        bool fb = true;
        // synthetic statements (not in the tree) are emitted inline
        for (const CFGBlock* B : *G) {
            if (!B) continue;
            if (!fb) OS << ",";
            fb = false;
            OS << "{\"b\":" << B->getBlockID();
            if (B->hasNoReturnElement()) OS << ",\"noreturn\":1";
            OS << ",\"e\":[";
            bool fe = true;
            for (const CFGElement& E : *B) {
                if (auto SE = E.getAs<CFGStmt>()) {
                    const Stmt* S = SE->getStmt();
                    if (!fe) OS << ",";
                    fe = false;
                    auto it = stmtIds.find(S);
                    if (it != stmtIds.end())
                        OS << it->second;
                    else {
                        OS << "{\"syn\":";
                        emitStmt(S);
                        OS << "}";
                    }
                } else if (auto AD = E.getAs<CFGAutomaticObjDtor>()) {
                    if (!fe) OS << ",";
                    fe = false;
                    const VarDecl* V = AD->getVarDecl();
                    OS << "{\"dtor\":" << did(V) << ",\"name\":\"" << jesc(V->getNameAsString()) << "\"";
                    if (auto* RD = V->getType().getNonReferenceType()->getAsCXXRecordDecl())
                        OS << ",\"rec\":\"" << jesc(RD->getNameAsString()) << "\"";
                    OS << "}";
                } else if (auto IN = E.getAs<CFGInitializer>()) {
                    if (!fe) OS << ",";
                    fe = false;
                    const CXXCtorInitializer* I = IN->getInitializer();
                    OS << "{\"init\":\"" << (I->isAnyMemberInitializer() ? jesc(I->getAnyMember()->getNameAsString()) : "base")
                       << "\"}";
                }
            }
            OS << "],\"s\":[";
            bool fs = true;
            for (auto SI = B->succ_begin(); SI != B->succ_end(); ++SI) {
                if (!fs) OS << ",";
                fs = false;
                if (const CFGBlock* SB = SI->getReachableBlock())
                    OS << SB->getBlockID();
                else if (const CFGBlock* UB = SI->getPossiblyUnreachableBlock())
                    OS << "{\"unreach\":" << UB->getBlockID() << "}";
                else
                    OS << "null";
            }
            OS << "]";
            if (const Stmt* T = B->getTerminatorStmt()) {
                auto it = stmtIds.find(T);
                OS << ",\"term\":" << (it != stmtIds.end() ? it->second : -1);
                OS << ",\"tk\":\"" << T->getStmtClassName() << "\"";
            }
            if (const Stmt* TC = B->getTerminatorCondition()) {
                auto it = stmtIds.find(TC);
                OS << ",\"cond\":" << (it != stmtIds.end() ? it->second : -1);
            }
            if (const Stmt* L = B->getLabel()) {
                auto it = stmtIds.find(L);
                OS << ",\"label\":" << (it != stmtIds.end() ? it->second : -1);
            }
            if (const Stmt* LT = B->getLoopTarget()) {
                auto it = stmtIds.find(LT);
                OS << ",\"looptarget\":" << (it != stmtIds.end() ? it->second : -1);
            }
            OS << "}";
        }
        OS << "]}";
    }

    // ---- declarations --------------------------------------------------------------
    bool wantFile(SourceLocation L) {
        std::string f = fileOf(L);
        return !f.empty() && FileRe.match(f);
    }

    void emitFunction(const FunctionDecl* FD, const Stmt* Body, const LambdaExpr* LE = nullptr) {
        stmtIds.clear();
        nextStmt = 0;
        sep();
        ++nFuncs;
        OS << "{\"kind\":\"function\"";
        kv("qname", FD->getQualifiedNameAsString());
        kv("name", FD->getNameAsString());
        kvi("did", did(FD));
        kv("file", fileOf(Body->getBeginLoc()));
        kvi("line", lineOf(Body->getBeginLoc()));
        kvi("endline", lineOf(Body->getEndLoc()));
        kv("ret", ty(FD->getReturnType()));
        if (auto* MD = dyn_cast<CXXMethodDecl>(FD)) {
            const CXXRecordDecl* RD = MD->getParent();
            kv("cls", RD->getNameAsString());
            kv("clsq", RD->getQualifiedNameAsString());
            if (auto* SD = dyn_cast<ClassTemplateSpecializationDecl>(RD)) {
                OS << ",\"clsargs\":[";
                bool f = true;
                for (const TemplateArgument& A : SD->getTemplateArgs().asArray()) {
                    if (!f) OS << ",";
                    f = false;
                    std::string s;
                    llvm::raw_string_ostream ss(s);
                    if (A.getKind() == TemplateArgument::Type)
                        ss << ty(A.getAsType());
                    else
                        A.print(PP, ss, true);
                    ss.flush();
                    if (s.size() > 300) s = s.substr(0, 300) + "...";
                    OS << "\"" << jesc(s) << "\"";
                }
                OS << "]";
            }
            if (MD->isConst()) kvi("const", 1);
            if (MD->isStatic()) kvi("static", 1);
            if (MD->isVirtual()) kvi("virtual", 1);
            kv("access", getAccessSpelling(MD->getAccess()));
            if (isa<CXXConstructorDecl>(MD)) kvi("ctor", 1);
            if (isa<CXXDestructorDecl>(MD)) kvi("dtor", 1);
        }
        if (FD->getTemplateSpecializationArgs()) emitTemplateArgs(FD->getTemplateSpecializationArgs());
        if (FD->isTemplateInstantiation()) kvi("inst", 1);
        if (LE) kvi("lambda", 1);
        OS << ",\"params\":[";
        bool f = true;
        for (const ParmVarDecl* P : FD->parameters()) {
            if (!f) OS << ",";
            f = false;
            OS << "{\"name\":\"" << jesc(P->getNameAsString()) << "\",\"did\":" << did(P) << ",\"t\":\"" << jesc(ty(P->getType()))
               << "\",\"ts\":\"" << jesc(ty(P->getType(), false)) << "\"}";
        }
        OS << "]";
        // constructor initialisers
        if (auto* CD = dyn_cast<CXXConstructorDecl>(FD)) {
            OS << ",\"inits\":[";
            bool g = true;
            for (const CXXCtorInitializer* I : CD->inits()) {
                if (!I->isWritten()) continue;
                if (!g) OS << ",";
                g = false;
                OS << "{\"member\":\"";
                if (I->isAnyMemberInitializer())
                    OS << jesc(I->getAnyMember()->getNameAsString());
                else if (I->isBaseInitializer())
                    OS << "base:" << jesc(ty(QualType(I->getBaseClass(), 0)));
                else
                    OS << "delegating";
                OS << "\",\"init\":";
                emitStmt(I->getInit());
                OS << "}";
            }
            OS << "]";
        }
        OS << ",\"body\":";
        emitStmt(Body);
        emitCFG(FD, Body);
        OS << "}";
    }

    // optional (env SFX_TOUCHES_RE): emit a function only if its body names a member / callee matching the regex
    struct TouchFinder : public RecursiveASTVisitor<TouchFinder> {
        llvm::Regex& R;
        bool hit = false;
        TouchFinder(llvm::Regex& R) : R(R) {}
        bool shouldVisitTemplateInstantiations() const { return false; }
        bool VisitMemberExpr(MemberExpr* M) {
            if (R.match(M->getMemberDecl()->getNameAsString())) hit = true;
            return !hit;
        }
        bool VisitDeclRefExpr(DeclRefExpr* D) {
            if (auto* V = dyn_cast<VarDecl>(D->getDecl()))
                if (V->isLocalVarDeclOrParm()) return true;
            if (R.match(D->getDecl()->getNameAsString())) hit = true;
            return !hit;
        }
    };
    bool touchesOk(const Stmt* Body) {
        static const char* re = getenv("SFX_TOUCHES_RE");
        if (!re || !*re) return true;
        static llvm::Regex R(re);
        TouchFinder T(R);
        T.TraverseStmt(const_cast<Stmt*>(Body));
        return T.hit;
    }

    bool VisitFunctionDecl(FunctionDecl* FD) {
        if (!FD->doesThisDeclarationHaveABody()) return true;
        if (FD->isDependentContext()) return true;
        if (FD->getTemplatedKind() == FunctionDecl::TK_FunctionTemplate) return true;
        if (!seenFuncs.insert(FD).second) return true;
        const Stmt* Body = FD->getBody();
        if (!Body) return true;
        if (!wantFile(Body->getBeginLoc())) return true;
        std::string q = FD->getQualifiedNameAsString();
        if (!NameRe.match(q)) return true;
        if (!touchesOk(Body)) return true;
        // optional (env SFX_ONE_INST): only the first instantiation of each template pattern
        static const char* oneInst = getenv("SFX_ONE_INST");
        if (oneInst && *oneInst) {
            if (const FunctionDecl* Pat = FD->getTemplateInstantiationPattern()) {
                if (!seenPatterns.insert(Pat->getCanonicalDecl()).second) return true;
            }
        }
        emitFunction(FD, Body);
        return true;
    }

    // optional (env SFX_LAMBDA_VARTYPE_RE): emit a lambda only if one of the variables declared by the leading
    // statements of its body has a type matching the regex (Engine::execute has ~1600 case lambdas, each
    // identified by the type of its `cur` binding)
    bool lambdaVarTypeOk(const Stmt* Body) {
        static const char* re = getenv("SFX_LAMBDA_VARTYPE_RE");
        if (!re || !*re) return true;
        static llvm::Regex R(re);
        auto* CS = dyn_cast_or_null<CompoundStmt>(Body);
        if (!CS) return false;
        unsigned n = 0;
        for (const Stmt* S : CS->body()) {
            if (++n > 4) break;
            if (auto* DS = dyn_cast<DeclStmt>(S))
                for (const Decl* D : DS->decls())
                    if (auto* V = dyn_cast<VarDecl>(D))
                        if (R.match(ty(V->getType()))) return true;
        }
        return false;
    }

    bool VisitLambdaExpr(LambdaExpr* LE) {
        CXXMethodDecl* MD = LE->getCallOperator();
        // generic lambda: RecursiveASTVisitor does not reach the instantiations of its call operator
        if (MD && !MD->getParent()->isDependentContext()) {
            if (FunctionTemplateDecl* FT = LE->getLambdaClass()->getDependentLambdaCallOperator()) {
                for (FunctionDecl* Spec : FT->specializations()) {
                    if (!Spec->doesThisDeclarationHaveABody() || Spec->isDependentContext()) continue;
                    if (!seenFuncs.insert(Spec).second) continue;
                    const Stmt* B = Spec->getBody();
                    if (!B || !wantFile(B->getBeginLoc())) continue;
                    emitFunction(Spec, B, LE);
                    TraverseStmt(const_cast<Stmt*>(B));
                }
                return true;
            }
        }
        if (!MD || MD->isDependentContext()) return true;
        if (!MD->doesThisDeclarationHaveABody()) return true;
        if (!seenFuncs.insert(MD).second) return true;
        if (!MD->getBody() || !wantFile(MD->getBody()->getBeginLoc())) return true;
        // name filter applies to the enclosing named function for lambdas
        const DeclContext* DC = MD->getParent();
        std::string encl;
        while (DC) {
            if (auto* F = dyn_cast<FunctionDecl>(DC)) {
                if (!isa<CXXMethodDecl>(F) || !cast<CXXMethodDecl>(F)->getParent()->isLambda()) {
                    encl = F->getQualifiedNameAsString();
                    break;
                }
            }
            DC = DC->getParent();
        }
        if (!encl.empty() && !NameRe.match(encl)) return true;
        if (!lambdaVarTypeOk(MD->getBody())) return true;
        if (!touchesOk(MD->getBody())) return true;
        emitFunction(MD, MD->getBody(), LE);
        return true;
    }

    bool VisitCXXRecordDecl(CXXRecordDecl* RD) {
        if (!RD->isThisDeclarationADefinition()) return true;
        if (RD->isDependentContext() || RD->isLambda()) return true;
        if (!seenRecords.insert(RD).second) return true;
        if (!wantFile(RD->getLocation())) return true;
        sep();
        OS << "{\"kind\":\"record\"";
        kv("qname", RD->getQualifiedNameAsString());
        kv("name", RD->getNameAsString());
        kv("file", fileOf(RD->getLocation()));
        kvi("line", lineOf(RD->getLocation()));
        if (RD->isAbstract()) kvi("abstract", 1);
        if (auto* SD = dyn_cast<ClassTemplateSpecializationDecl>(RD)) emitTemplateArgs(&SD->getTemplateArgs());
        OS << ",\"bases\":[";
        bool f = true;
        for (const CXXBaseSpecifier& B : RD->bases()) {
            if (!f) OS << ",";
            f = false;
            std::string n;
            if (auto* BD = B.getType()->getAsCXXRecordDecl()) n = BD->getQualifiedNameAsString();
            OS << "{\"t\":\"" << jesc(ty(B.getType())) << "\",\"qname\":\"" << jesc(n) << "\"}";
        }
        OS << "],\"fields\":[";
        f = true;
        for (const FieldDecl* FD : RD->fields()) {
            if (!f) OS << ",";
            f = false;
            OS << "{\"name\":\"" << jesc(FD->getNameAsString()) << "\",\"did\":" << did(FD) << ",\"t\":\""
               << jesc(ty(FD->getType())) << "\",\"ts\":\"" << jesc(ty(FD->getType(), false)) << "\",\"l\":"
               << lineOf(FD->getLocation());
            if (FD->getType().isVolatileQualified()) OS << ",\"volatile\":1";
            if (FD->hasInClassInitializer() && FD->getInClassInitializer()) {
                stmtIds.clear();
                nextStmt = 0;
                OS << ",\"init\":";
                emitStmt(FD->getInClassInitializer());
            }
            OS << "}";
        }
        OS << "],\"methods\":[";
        f = true;
        for (const CXXMethodDecl* MD : RD->methods()) {
            if (MD->isImplicit()) continue;
            if (!f) OS << ",";
            f = false;
            OS << "{\"name\":\"" << jesc(MD->getNameAsString()) << "\",\"did\":" << did(MD) << ",\"access\":\""
               << getAccessSpelling(MD->getAccess()) << "\",\"l\":" << lineOf(MD->getLocation());
            if (MD->isConst()) OS << ",\"const\":1";
            if (MD->isVirtual()) OS << ",\"virtual\":1";
            if (MD->isPure()) OS << ",\"pure\":1";
            OS << ",\"params\":[";
            bool g = true;
            for (const ParmVarDecl* P : MD->parameters()) {
                if (!g) OS << ",";
                g = false;
                OS << "\"" << jesc(ty(P->getType())) << "\"";
            }
            OS << "]}";
        }
        OS << "]}";
        return true;
    }

    bool VisitEnumDecl(EnumDecl* ED) {
        if (!ED->isThisDeclarationADefinition()) return true;
        if (!seenEnums.insert(ED).second) return true;
        if (!wantFile(ED->getLocation())) return true;
        sep();
        OS << "{\"kind\":\"enum\"";
        kv("qname", ED->getQualifiedNameAsString());
        kv("name", ED->getNameAsString());
        kv("file", fileOf(ED->getLocation()));
        kvi("line", lineOf(ED->getLocation()));
        OS << ",\"enumerators\":[";
        bool f = true;
        for (const EnumConstantDecl* EC : ED->enumerators()) {
            if (!f) OS << ",";
            f = false;
            OS << "{\"name\":\"" << jesc(EC->getNameAsString()) << "\",\"val\":\"" << llvm::toString(EC->getInitVal(), 10)
               << "\",\"l\":" << lineOf(EC->getLocation()) << "}";
        }
        OS << "]}";
        return true;
    }

    bool VisitVarDecl(VarDecl* V) {
        if (V->isLocalVarDecl() || isa<ParmVarDecl>(V)) return true;
        if (!V->hasInit() || !V->isThisDeclarationADefinition()) return true;
        if (V->getDeclContext()->isDependentContext()) return true;
        if (!seenVars.insert(V).second) return true;
        if (!wantFile(V->getLocation())) return true;
        if (!V->isFileVarDecl()) return true;
        sep();
        stmtIds.clear();
        nextStmt = 0;
        OS << "{\"kind\":\"var\"";
        kv("qname", V->getQualifiedNameAsString());
        kv("name", V->getNameAsString());
        kv("file", fileOf(V->getLocation()));
        kvi("line", lineOf(V->getLocation()));
        kv("t", ty(V->getType()));
        OS << ",\"init\":";
        emitStmt(V->getInit());
        OS << "}";
        return true;
    }
};

class Consumer : public ASTConsumer {
public:
    void HandleTranslationUnit(ASTContext& Ctx) override {
        std::error_code EC;
        llvm::raw_fd_ostream OS(gOut, EC);
        if (EC) {
            llvm::errs() << "sfx: cannot open " << gOut << "\n";
            exit(3);
        }
        OS << "{\"items\":[\n";
        Extractor X(Ctx, OS);
        X.TraverseDecl(Ctx.getTranslationUnitDecl());
        OS << "\n],\"nfuncs\":" << X.nFuncs << ",\"ncfgfail\":" << X.nCfgFail
           << ",\"errors\":" << (Ctx.getDiagnostics().hasErrorOccurred() ? 1 : 0) << "}\n";
    }
};

class Action : public ASTFrontendAction {
public:
    std::unique_ptr<ASTConsumer> CreateASTConsumer(CompilerInstance&, llvm::StringRef) override {
        return std::make_unique<Consumer>();
    }
};

}  // namespace

int main(int argc, const char** argv) {
    if (argc < 6) {
        llvm::errs() << "usage: sfx <out.json> <file-regex> <name-regex> <source> -- <flags>\n";
        return 2;
    }
    gOut = argv[1];
    gFileRe = argv[2];
    gNameRe = argv[3];
    std::string src = argv[4];
    int dd = 5;
    if (std::string(argv[dd]) != "--") {
        llvm::errs() << "sfx: expected --\n";
        return 2;
    }
    std::vector<std::string> flags;
    for (int i = dd + 1; i < argc; ++i) flags.push_back(argv[i]);
    clang::tooling::FixedCompilationDatabase DB(".", flags);
    clang::tooling::ClangTool Tool(DB, {src});
    int rc = Tool.run(clang::tooling::newFrontendActionFactory<Action>().get());
    return rc;
}
